#!/usr/bin/env python3
"""Validate MANIFEST.json and evidence/*.json against the schemas (uses the tooling venv)."""
import json, sys, glob
import jsonschema
ok = True
def v(path, schema):
    global ok
    try:
        jsonschema.validate(json.load(open(path)), json.load(open(schema)))
        print("valid  ", path)
    except Exception as e:
        ok = False
        print("INVALID", path, str(e)[:300])
v("/verif/MANIFEST.json", "/root/.vp/MANIFEST.schema.json")
for p in sorted(glob.glob("/verif/evidence/*.json")):
    v(p, "/root/.vp/EVIDENCE.schema.json")
sys.exit(0 if ok else 1)
