// Package vt glues rapid to the driver: it derives the per-process case count and PRNG seed from
// the environment the driver sets (VERIF_TIER, VERIF_SEED, VERIF_SHARD, VERIF_NSHARDS), runs the
// property, and flushes the evidence record.
package vt

import (
	"flag"
	"fmt"
	"os"
	"strconv"
	"sync/atomic"
	"time"
	"strings"
	"testing"
	"testing/synctest"

	"pgregory.net/rapid"
	"verif/harness/ev"
)

func envInt(name string, def int64) int64 {
	if s := os.Getenv(name); s != "" {
		if v, err := strconv.ParseInt(s, 10, 64); err == nil {
			return v
		}
	}
	return def
}

// Thorough reports whether the thorough tier was requested.
func Thorough() bool { return os.Getenv("VERIF_TIER") == "thorough" }

// Shard returns this process's shard index and the shard count.
func Shard() (int, int) {
	n := int(envInt("VERIF_NSHARDS", 1))
	if n < 1 {
		n = 1
	}
	return int(envInt("VERIF_SHARD", 0)), n
}

func mix(a, b uint64) uint64 {
	x := a*0x9E3779B97F4A7C15 + b*0xBF58476D1CE4E5B9 + 0x94D049BB133111EB
	x ^= x >> 30
	x *= 0xBF58476D1CE4E5B9
	x ^= x >> 27
	x *= 0x94D049BB133111EB
	x ^= x >> 31
	if x == 0 {
		x = 1 // rapid treats 0 as "random"
	}
	return x
}

// Seed is the rapid PRNG seed of this process: a pure function of VERIF_SEED and the shard.
func Seed() uint64 {
	s, _ := Shard()
	return mix(uint64(envInt("VERIF_SEED", 1)), uint64(s)+1)
}

// N returns the number of cases this process should run, given the totals for both tiers.
func N(quick, thorough int) int {
	total := quick
	if Thorough() {
		total = thorough
	}
	if v := envInt("VERIF_CHECKS", 0); v > 0 {
		total = int(v)
	}
	s, n := Shard()
	per := total / n
	if s < total%n {
		per++
	}
	if per < 1 {
		per = 1
	}
	return per
}

// Replaying reports whether this run replays a saved rapid fail file.
func Replaying() bool { return os.Getenv("VERIF_REPLAY") != "" }

// Check runs prop for the tier's case count with the derived seed, then flushes evidence.
func Check(t *testing.T, quick, thorough int, prop func(*rapid.T)) {
	t.Helper()
	n := N(quick, thorough)
	must(flag.Set("rapid.checks", strconv.Itoa(n)))
	must(flag.Set("rapid.seed", strconv.FormatUint(Seed(), 10)))
	if Replaying() {
		must(flag.Set("rapid.failfile", os.Getenv("VERIF_REPLAY")))
	}
	defer ev.Flush()
	rapid.Check(t, prop)
}

// noDeadlineTB hides testing.T.Deadline from rapid (it panics inside a synctest bubble); rapid then
// uses "now + 24h" - of VIRTUAL time - as its deadline, which is why CheckBubble runs in chunks.
type noDeadlineTB struct{ *testing.T }

// CheckBubble is Check for properties that run inside a synctest bubble (see Bubble). Virtual time
// advances by seconds per case (protocol timers), so the cases are run in chunks, each its own
// rapid.Check with its own seed (a pure function of VERIF_SEED, shard and chunk index) and its own
// 24 h virtual deadline.
func CheckBubble(t *testing.T, quick, thorough int, prop func(*rapid.T)) {
	t.Helper()
	n := N(quick, thorough)
	defer ev.Flush()
	if Replaying() {
		must(flag.Set("rapid.failfile", os.Getenv("VERIF_REPLAY")))
		must(flag.Set("rapid.checks", "1"))
		rapid.Check(noDeadlineTB{t}, prop)
		return
	}
	const chunk = 100
	for i := 0; n > 0 && !t.Failed(); i++ {
		c := min(n, chunk)
		must(flag.Set("rapid.checks", strconv.Itoa(c)))
		must(flag.Set("rapid.seed", strconv.FormatUint(mix(Seed(), uint64(i)+1), 10)))
		rapid.Check(noDeadlineTB{t}, prop)
		n -= c
	}
}

// Bubble runs body inside one testing/synctest bubble (virtual time, deterministic timers).
func Bubble(t *testing.T, body func(t *testing.T)) {
	t.Helper()
	must(flag.Set("rapid.shrinktime", "100000h")) // virtual time flies; shrinking is bounded by passes
	synctest.Test(t, body)
}

func must(err error) {
	if err != nil {
		panic(fmt.Sprintf("vt: %v", err))
	}
}

// Known reports whether finding id is listed as open in /verif/known_findings.json (the driver
// passes the open ids in VERIF_KNOWN). Generators exclude open findings by construction and count
// what they excluded; a deterministic replay of each prints the KNOWN-FINDING line.
func Known(id string) bool {
	for _, k := range strings.Split(os.Getenv("VERIF_KNOWN"), ",") {
		if k == id {
			return true
		}
	}
	return false
}

// Lag measures how late this process's goroutines are being scheduled (a 2 ms sleeper records its
// worst overshoot). REAL-time checks consult it before reporting a failure: a protocol-timer race
// that the harness itself lost because the machine was starved is inconclusive, never a violation.
type Lag struct {
	max  atomic.Int64
	stop chan struct{}
	done chan struct{}
}

// StartLag starts the sleeper.
func StartLag() *Lag {
	l := &Lag{stop: make(chan struct{}), done: make(chan struct{})}
	go func() {
		defer close(l.done)
		const period = 2 * time.Millisecond
		for {
			st := time.Now()
			select {
			case <-l.stop:
				return
			case <-time.After(period):
			}
			l.Note(time.Since(st) - period)
		}
	}()
	return l
}

// Note records an overshoot observed elsewhere (e.g. a harness sleep that took too long).
func (l *Lag) Note(over time.Duration) {
	for {
		cur := l.max.Load()
		if int64(over) <= cur || l.max.CompareAndSwap(cur, int64(over)) {
			return
		}
	}
}

// Max is the worst overshoot seen so far.
func (l *Lag) Max() time.Duration { return time.Duration(l.max.Load()) }

// Stop ends the sleeper.
func (l *Lag) Stop() { close(l.stop); <-l.done }
