// Package ev records what a check actually explored: number of generated cases, the set of
// distinct non-trivial cases (by 64-bit hash of a canonical description), a class histogram and
// a few written-out samples. The driver (../check) merges the per-process files into
// /verif/evidence/<ID>.json.
package ev

import (
	"encoding/binary"
	"encoding/json"
	"fmt"
	"hash/fnv"
	"os"
	"sort"
	"sync"
)

type Recorder struct {
	mu          sync.Mutex
	evals       int64
	nontrivial  map[uint64]struct{}
	classes     map[string]int64
	counters    map[string]int64
	samples     []any
	sampleKeys  map[string]bool
	maxSamples  int
	rule        string
	assumptions []string
	frozen      bool
}

var R = &Recorder{nontrivial: map[uint64]struct{}{}, classes: map[string]int64{}, counters: map[string]int64{}, sampleKeys: map[string]bool{}, maxSamples: 6}

// Rule states (once) how cases are generated and what makes one non-trivial.
func Rule(s string) { R.mu.Lock(); R.rule = s; R.mu.Unlock() }

// Assume records an assumption / trusted-base statement.
func Assume(s string) {
	R.mu.Lock()
	for _, a := range R.assumptions {
		if a == s {
			R.mu.Unlock()
			return
		}
	}
	R.assumptions = append(R.assumptions, s)
	R.mu.Unlock()
}

// Freeze stops recording (used while rapid shrinks a failure, so counts stay honest).
func Freeze() { R.mu.Lock(); R.frozen = true; R.mu.Unlock() }

// Case records one generated case. key is a canonical description used for distinctness; sample
// is only evaluated when the case is kept as a written-out sample.
func Case(nontrivial bool, key string, sample func() any, classes ...string) {
	R.mu.Lock()
	defer R.mu.Unlock()
	if R.frozen {
		return
	}
	R.evals++
	for _, c := range classes {
		R.classes[c]++
	}
	if !nontrivial {
		R.classes["trivial"]++
		return
	}
	h := fnv.New64a()
	_, _ = h.Write([]byte(key))
	R.nontrivial[h.Sum64()] = struct{}{}
	if sample != nil && len(R.samples) < R.maxSamples {
		// prefer samples from distinct first classes
		k := ""
		if len(classes) > 0 {
			k = classes[0]
		}
		if !R.sampleKeys[k] || len(R.samples) < 2 {
			R.sampleKeys[k] = true
			R.samples = append(R.samples, sample())
		}
	}
}

// Class bumps a histogram bucket without counting a case.
func Class(c string) { R.mu.Lock(); if !R.frozen { R.classes[c]++ }; R.mu.Unlock() }

// Count adds to a named counter (e.g. excluded_known, ambiguous_timing, infra_errors).
func Count(name string, n int64) { R.mu.Lock(); if !R.frozen { R.counters[name] += n }; R.mu.Unlock() }

type fileFormat struct {
	Evaluations int64            `json:"evaluations"`
	Nontrivial  int              `json:"nontrivial"`
	Classes     map[string]int64 `json:"classes"`
	Counters    map[string]int64 `json:"counters"`
	Samples     []any            `json:"samples"`
	Rule        string           `json:"rule"`
	Assumptions []string         `json:"assumptions"`
}

// Flush writes the record to $VERIF_OUT (JSON) and the non-trivial hashes to $VERIF_OUT.hashes.
func Flush() {
	out := os.Getenv("VERIF_OUT")
	if out == "" {
		return
	}
	R.mu.Lock()
	defer R.mu.Unlock()
	ff := fileFormat{Evaluations: R.evals, Nontrivial: len(R.nontrivial), Classes: R.classes, Counters: R.counters,
		Samples: R.samples, Rule: R.rule, Assumptions: R.assumptions}
	b, err := json.MarshalIndent(ff, "", " ")
	if err != nil {
		fmt.Fprintf(os.Stderr, "ev: marshal: %v\n", err)
		return
	}
	if err := os.WriteFile(out, b, 0o644); err != nil {
		fmt.Fprintf(os.Stderr, "ev: write: %v\n", err)
	}
	hs := make([]uint64, 0, len(R.nontrivial))
	for h := range R.nontrivial {
		hs = append(hs, h)
	}
	sort.Slice(hs, func(i, j int) bool { return hs[i] < hs[j] })
	hb := make([]byte, 8*len(hs))
	for i, h := range hs {
		binary.LittleEndian.PutUint64(hb[8*i:], h)
	}
	_ = os.WriteFile(out+".hashes", hb, 0o644)
}
