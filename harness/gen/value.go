// Package gen holds the rapid generators shared by the checks: logical item trees (e5.Value),
// their realisation through every public constructor shape, byte mutators, frame streams.
// Every random choice is a rapid draw so that failures shrink and replay.
package gen

import (
	"math"

	"pgregory.net/rapid"
	"verif/harness/ref/e5"
)

// Opts bounds a generated tree.
type Opts struct {
	MaxDepth    int    // maximum list nesting (<= 64)
	Budget      int    // approximate encoded-size budget in bytes
	Codes       []byte // allowed leaf format codes (nil = all)
	EmptyChild  bool   // allow the EmptyItem sentinel as a list child
	Text        func(rt *rapid.T, fc byte, n int, label string) []byte
	NoBigCounts bool // suppress the 64K-boundary element counts
}

var leafCodes = []byte{e5.Binary, e5.Boolean, e5.ASCII, e5.JIS8, e5.Local, e5.I8, e5.I1, e5.I2, e5.I4, e5.F8, e5.F4, e5.U8, e5.U1, e5.U2, e5.U4}

// SlabCounts are child counts that sit on and just beyond the decoder's slab chunk boundaries
// (cumulative chunk sizes 1, 5, 21, 85, 213, 341).
var SlabCounts = []int{1, 2, 5, 6, 21, 22, 85, 86, 213, 214, 341, 342, 470}

type state struct {
	o      Opts
	budget int
}

// Value draws an item tree.
func Value(rt *rapid.T, o Opts) e5.Value {
	if o.MaxDepth > e5.MaxDepth {
		o.MaxDepth = e5.MaxDepth
	}
	if o.Budget <= 0 {
		o.Budget = 64 << 10
	}
	s := &state{o: o, budget: o.Budget}
	shape := rapid.IntRange(0, 99).Draw(rt, "shape")
	switch {
	case shape < 25:
		return s.leaf(rt)
	case shape < 33 && o.MaxDepth >= 1:
		return s.slabList(rt)
	case shape < 41 && o.MaxDepth >= 2:
		return s.deepChain(rt)
	case shape < 45 && o.MaxDepth >= 1:
		return s.wideList(rt)
	case shape < 49 && o.MaxDepth >= 2:
		return s.manyEmpty(rt)
	default:
		d := 0
		if o.MaxDepth > 0 {
			d = rapid.IntRange(0, min(o.MaxDepth, 5)).Draw(rt, "depth")
		}
		return s.tree(rt, d)
	}
}

func (s *state) codes() []byte {
	if s.o.Codes != nil {
		return s.o.Codes
	}
	return leafCodes
}

func (s *state) tree(rt *rapid.T, depth int) e5.Value {
	if depth == 0 || s.budget < 8 {
		return s.leaf(rt)
	}
	n := rapid.IntRange(0, 6).Draw(rt, "nchild")
	v := e5.Value{FC: e5.List, List: make([]e5.Value, 0, n)}
	s.budget -= 2
	for i := 0; i < n; i++ {
		k := rapid.IntRange(0, 9).Draw(rt, "childkind")
		switch {
		case k < 4:
			v.List = append(v.List, s.tree(rt, depth-1))
		case k == 4 && s.o.EmptyChild:
			v.List = append(v.List, e5.Value{FC: e5.Empty})
		default:
			v.List = append(v.List, s.leaf(rt))
		}
	}
	return v
}

// slabList is a flat (or once-nested) list whose children are all single-element leaves of one
// type, with a child count on a slab chunk boundary.
func (s *state) slabList(rt *rapid.T) e5.Value {
	fc := rapid.SampledFrom(s.codes()).Draw(rt, "slabfc")
	n := rapid.SampledFrom(SlabCounts).Draw(rt, "slabn")
	v := e5.Value{FC: e5.List, List: make([]e5.Value, 0, n)}
	for i := 0; i < n; i++ {
		cnt := 1
		if e5.IsText(fc) || fc == e5.Binary {
			cnt = rapid.IntRange(0, 3).Draw(rt, "slabtxt")
		}
		v.List = append(v.List, s.leafOf(rt, fc, cnt))
	}
	if rapid.Bool().Draw(rt, "slabwrap") && s.o.MaxDepth >= 2 {
		return e5.Value{FC: e5.List, List: []e5.Value{s.leaf(rt), v, s.leaf(rt)}}
	}
	return v
}

// deepChain nests lists to a drawn depth near the limit.
func (s *state) deepChain(rt *rapid.T) e5.Value {
	cands := []int{2, 3, 8, 31, 32, 33, 62, 63, 64}
	var ok []int
	for _, c := range cands {
		if c <= s.o.MaxDepth {
			ok = append(ok, c)
		}
	}
	d := rapid.SampledFrom(ok).Draw(rt, "chaindepth")
	cur := s.leaf(rt)
	// cur has depth 0; wrap d times
	for i := 0; i < d; i++ {
		l := e5.Value{FC: e5.List}
		pre := rapid.IntRange(0, 2).Draw(rt, "pre")
		for j := 0; j < pre && s.budget > 64; j++ {
			l.List = append(l.List, s.smallLeaf(rt))
		}
		l.List = append(l.List, cur)
		if rapid.IntRange(0, 3).Draw(rt, "post") == 0 && s.budget > 64 {
			l.List = append(l.List, s.smallLeaf(rt))
		}
		s.budget -= 2
		cur = l
	}
	return cur
}

// wideList has a child count on a length-field boundary.
func (s *state) wideList(rt *rapid.T) e5.Value {
	opts := []int{254, 255, 256, 257}
	if !s.o.NoBigCounts && s.budget >= 300<<10 {
		opts = append(opts, 65535, 65536)
	}
	n := rapid.SampledFrom(opts).Draw(rt, "widen")
	v := e5.Value{FC: e5.List, List: make([]e5.Value, 0, n)}
	// children: repeat a few drawn small leaves (keeps the draw count small)
	k := rapid.IntRange(1, 4).Draw(rt, "widekinds")
	kinds := make([]e5.Value, k)
	for i := range kinds {
		kinds[i] = s.smallLeaf(rt)
	}
	for i := 0; i < n; i++ {
		v.List = append(v.List, kinds[i%k])
	}
	return v
}

// manyEmpty is a shallow tree holding many EMPTY lists (and zero-length leaves) side by side and at
// a few depths: element-free containers are where per-item bookkeeping (depth counters, slab slots,
// length fields) is most easily skipped or double counted.
func (s *state) manyEmpty(rt *rapid.T) e5.Value {
	n := rapid.SampledFrom([]int{3, 62, 63, 64, 65, 66, 70, 128, 200, 254, 255, 256, 257, 300}).Draw(rt, "emptyn")
	v := e5.Value{FC: e5.List, List: make([]e5.Value, 0, n)}
	for i := 0; i < n; i++ {
		switch i % 7 {
		case 3:
			v.List = append(v.List, e5.Value{FC: e5.List, List: []e5.Value{{FC: e5.List}, {FC: e5.List}}})
		case 5:
			v.List = append(v.List, s.leafOf(rt, rapid.SampledFrom(s.codes()).Draw(rt, "zfc"), 0))
		default:
			v.List = append(v.List, e5.Value{FC: e5.List})
		}
	}
	s.budget -= 2 * n
	if rapid.Bool().Draw(rt, "emptywrap") {
		return e5.Value{FC: e5.List, List: []e5.Value{v, s.smallLeaf(rt)}}
	}
	return v
}

func (s *state) smallLeaf(rt *rapid.T) e5.Value {
	fc := rapid.SampledFrom(s.codes()).Draw(rt, "fc")
	return s.leafOf(rt, fc, rapid.IntRange(0, 2).Draw(rt, "smalln"))
}

func (s *state) leaf(rt *rapid.T) e5.Value {
	fc := rapid.SampledFrom(s.codes()).Draw(rt, "fc")
	return s.leafOf(rt, fc, s.count(rt, fc))
}

// count draws an element count biased to 0,1,2 and the length-field boundaries (in bytes).
func (s *state) count(rt *rapid.T, fc byte) int {
	w := e5.Width(fc)
	if w == 0 {
		w = 1
	}
	hdr := 0
	if fc == e5.Local {
		hdr = 2
	}
	maxElems := (s.budget - hdr) / w
	if maxElems < 0 {
		maxElems = 0
	}
	k := rapid.IntRange(0, 99).Draw(rt, "countclass")
	var n int
	switch {
	case k < 10:
		n = 0
	case k < 30:
		n = 1
	case k < 42:
		n = 2
	case k < 50:
		n = 3
	case k < 80:
		n = rapid.IntRange(4, 40).Draw(rt, "count")
	case k < 90:
		// byte length on the 1->2 length-byte boundary
		L := rapid.SampledFrom([]int{254, 255, 256, 257, 258}).Draw(rt, "boundary")
		n = (L - hdr + w - 1) / w
		if rapid.Bool().Draw(rt, "below") && n > 0 {
			n = (L - hdr) / w
		}
	case k < 94 && !s.o.NoBigCounts:
		L := rapid.SampledFrom([]int{65534, 65535, 65536, 65537}).Draw(rt, "boundary2")
		n = (L - hdr + w - 1) / w
		if rapid.Bool().Draw(rt, "below2") {
			n = (L - hdr) / w
		}
	default:
		n = rapid.IntRange(41, 1200).Draw(rt, "count2")
	}
	if n > maxElems {
		n = maxElems % 41
	}
	return n
}

func (s *state) leafOf(rt *rapid.T, fc byte, n int) e5.Value {
	v := e5.Value{FC: fc}
	w := e5.Width(fc)
	if w == 0 {
		w = 1
	}
	s.budget -= 2 + n*w
	switch {
	case fc == e5.Binary:
		v.Bytes = Bytes(rt, n, "bin")
	case e5.IsText(fc):
		if s.o.Text != nil {
			v.Bytes = s.o.Text(rt, fc, n, "text")
		} else {
			v.Bytes = Bytes(rt, n, "text")
		}
		if fc == e5.Local {
			v.LSH = rapid.SampledFrom([]uint16{0, 1, 2, 3, 8, 14, 0x00FF, 0x0100, 0xFFFF, 0x8001}).Draw(rt, "lsh")
		}
	case fc == e5.Boolean:
		v.Bools = make([]bool, n)
		fill := rapid.IntRange(0, 3).Draw(rt, "boolfill")
		for i := range v.Bools {
			switch fill {
			case 0:
				v.Bools[i] = false
			case 1:
				v.Bools[i] = true
			default:
				if i < 24 {
					v.Bools[i] = rapid.Bool().Draw(rt, "b")
				} else {
					v.Bools[i] = v.Bools[i%24] != (i%7 == 0)
				}
			}
		}
	case e5.IsInt(fc):
		v.Ints = make([]int64, n)
		fillN(n, func(i int) { v.Ints[i] = Int(rt, w) }, func(i, j int) { v.Ints[i] = v.Ints[j] })
	case e5.IsUint(fc):
		v.Uints = make([]uint64, n)
		fillN(n, func(i int) { v.Uints[i] = Uint(rt, w) }, func(i, j int) { v.Uints[i] = v.Uints[j] })
	case e5.IsFloat(fc):
		v.Floats = make([]float64, n)
		fillN(n, func(i int) { v.Floats[i] = Float(rt, w) }, func(i, j int) { v.Floats[i] = v.Floats[j] })
	}
	return v
}

// fillN draws the first 24 elements and repeats them afterwards (long arrays exercise length
// arithmetic, not per-element value logic; keeping the draw count low keeps rapid fast).
func fillN(n int, draw func(i int), cp func(i, j int)) {
	for i := 0; i < n; i++ {
		if i < 24 {
			draw(i)
		} else {
			cp(i, i%24)
		}
	}
}

// Bytes draws n bytes over all 256 values: the first 32 drawn, the rest a repeating pattern.
func Bytes(rt *rapid.T, n int, label string) []byte {
	b := make([]byte, n)
	mode := 0
	if n > 0 {
		mode = rapid.IntRange(0, 4).Draw(rt, label+"mode")
	}
	for i := range b {
		if i < 32 {
			switch mode {
			case 0:
				b[i] = rapid.Byte().Draw(rt, label)
			case 1:
				b[i] = rapid.SampledFrom([]byte{0, 1, 0x7f, 0x80, 0xff, '"', '\'', '\\', '<', '>', '\n', ' ', 'A'}).Draw(rt, label)
			case 2:
				b[i] = byte(rapid.IntRange(0x20, 0x7e).Draw(rt, label))
			case 3:
				b[i] = 0xff
			default:
				b[i] = 0
			}
		} else {
			b[i] = b[i%32] + byte(i/32)
		}
	}
	return b
}

// Int draws a signed value that fits in w bytes, biased to the extremes.
func Int(rt *rapid.T, w int) int64 {
	bits := uint(8 * w)
	lo := int64(-1) << (bits - 1)
	hi := -(lo + 1)
	switch rapid.IntRange(0, 9).Draw(rt, "intclass") {
	case 0:
		return lo
	case 1:
		return hi
	case 2:
		return rapid.SampledFrom([]int64{0, 1, -1, 2, -2}).Draw(rt, "small")
	case 3:
		// a power-of-two boundary inside the range
		k := uint(rapid.IntRange(0, int(bits)-2).Draw(rt, "pow"))
		x := int64(1) << k
		switch rapid.IntRange(0, 3).Draw(rt, "powside") {
		case 0:
			return x
		case 1:
			return x - 1
		case 2:
			return -x
		default:
			return -x - 1
		}
	case 4:
		return lo + int64(rapid.IntRange(0, 3).Draw(rt, "nearlo"))
	case 5:
		return hi - int64(rapid.IntRange(0, 3).Draw(rt, "nearhi"))
	default:
		return rapid.Int64Range(lo, hi).Draw(rt, "int")
	}
}

// Uint draws an unsigned value that fits in w bytes, biased to the extremes.
func Uint(rt *rapid.T, w int) uint64 {
	bits := uint(8 * w)
	hi := uint64(math.MaxUint64)
	if bits < 64 {
		hi = uint64(1)<<bits - 1
	}
	switch rapid.IntRange(0, 9).Draw(rt, "uintclass") {
	case 0:
		return 0
	case 1:
		return hi
	case 2:
		return uint64(rapid.IntRange(0, 3).Draw(rt, "small"))
	case 3:
		k := uint(rapid.IntRange(0, int(bits)-1).Draw(rt, "pow"))
		x := uint64(1) << k
		if rapid.Bool().Draw(rt, "powm1") {
			return x - 1
		}
		return x
	case 4:
		return hi - uint64(rapid.IntRange(0, 3).Draw(rt, "nearhi"))
	case 5:
		// just above the signed maximum of the same width
		return hi/2 + uint64(rapid.IntRange(0, 2).Draw(rt, "abovesigned"))
	default:
		return rapid.Uint64Range(0, hi).Draw(rt, "uint")
	}
}

// FloatSpecials are the edge values used for both widths.
var FloatSpecials = []float64{
	0, math.Copysign(0, -1), 1, -1, 0.1, -0.1, 1.5, 1e10, -1e10, 1e-10,
	math.MaxFloat32, -math.MaxFloat32, math.SmallestNonzeroFloat32, -math.SmallestNonzeroFloat32,
	math.Inf(1), math.Inf(-1), math.NaN(),
	float64(math.Float32frombits(0x00800000)),     // smallest normal float32
	float64(math.Float32frombits(0x007fffff)),     // largest subnormal float32
	float64(math.Float32frombits(0x7f7ffffe)),     // neighbour of MaxFloat32
	float64(math.Float32frombits(0x7fc00001)),     // NaN with payload
	float64(math.Float32frombits(0xffc12345)),     // negative NaN with payload
	16777216, 16777217, 9007199254740992, 1 << 53, // integer precision edges
	3.4028234e38, 1e38, 123456.789,
}

var float64Only = []float64{
	math.MaxFloat64, -math.MaxFloat64, math.SmallestNonzeroFloat64, -math.SmallestNonzeroFloat64,
	math.Float64frombits(0x0010000000000000), math.Float64frombits(0x000fffffffffffff),
	math.Float64frombits(0x7ff8000000000001), math.Float64frombits(0xfff0000000000001),
	1e308, -1e308, 1e-320, 0.30000000000000004, 9007199254740993,
}

// Float draws a value that is exactly representable at width w (4 or 8), so that it is its own
// logical value after encoding.
func Float(rt *rapid.T, w int) float64 {
	c := rapid.IntRange(0, 9).Draw(rt, "floatclass")
	var x float64
	switch {
	case c < 4:
		x = rapid.SampledFrom(FloatSpecials).Draw(rt, "fspecial")
	case c < 5 && w == 8:
		x = rapid.SampledFrom(float64Only).Draw(rt, "f64special")
	case c < 7:
		if w == 4 {
			x = float64(math.Float32frombits(rapid.Uint32().Draw(rt, "f32bits")))
		} else {
			x = math.Float64frombits(rapid.Uint64().Draw(rt, "f64bits"))
		}
	default:
		x = rapid.Float64().Draw(rt, "float")
	}
	if w == 4 {
		x = float64(float32(x)) // make it float32-exact (values beyond MaxFloat32 become Inf)
	}
	return x
}
