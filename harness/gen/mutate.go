package gen

import (
	"pgregory.net/rapid"
	"verif/harness/ref/e5"
)

// MutateEncoding derives an input for a decoder from a valid tree: the valid encoding itself, a
// structured corruption of it, a non-canonical re-encoding, or unrelated bytes. It returns the
// bytes and the name of the mutation applied.
func MutateEncoding(rt *rapid.T, v e5.Value) ([]byte, string) {
	valid := e5.Encode(v)
	kind := rapid.IntRange(0, 13).Draw(rt, "mutation")
	switch kind {
	case 0:
		return valid, "valid"
	case 1:
		b := append([]byte{}, valid...)
		n := rapid.IntRange(1, 2).Draw(rt, "nflips")
		for i := 0; i < n && len(b) > 0; i++ {
			p := rapid.IntRange(0, len(b)-1).Draw(rt, "flippos")
			b[p] = rapid.Byte().Draw(rt, "flipval")
		}
		return b, "byteflip"
	case 2:
		if len(valid) == 0 {
			return valid, "valid"
		}
		// truncation: biased to the first bytes and to just before the end
		var cut int
		switch rapid.IntRange(0, 2).Draw(rt, "cutclass") {
		case 0:
			cut = rapid.IntRange(0, min(len(valid)-1, 6)).Draw(rt, "cut")
		case 1:
			cut = len(valid) - 1 - rapid.IntRange(0, min(len(valid)-1, 9)).Draw(rt, "cutback")
		default:
			cut = rapid.IntRange(0, len(valid)-1).Draw(rt, "cut")
		}
		return append([]byte{}, valid[:cut]...), "truncate"
	case 3, 4:
		// rewrite one item's format byte
		offs := e5.HeaderOffsets(valid)
		if len(offs) == 0 {
			return valid, "valid"
		}
		b := append([]byte{}, valid...)
		p := offs[rapid.IntRange(0, len(offs)-1).Draw(rt, "hdr")]
		if kind == 3 {
			b[p] = rapid.Byte().Draw(rt, "formatbyte")
			return b, "formatbyte"
		}
		// keep the format code, change the number of length bytes (shifts the meaning of the field)
		b[p] = b[p]&^3 | byte(rapid.IntRange(0, 3).Draw(rt, "nlen"))
		return b, "lenbytecount"
	case 5, 6:
		// rewrite one item's length field
		offs := e5.HeaderOffsets(valid)
		if len(offs) == 0 {
			return valid, "valid"
		}
		b := append([]byte{}, valid...)
		p := offs[rapid.IntRange(0, len(offs)-1).Draw(rt, "hdr")]
		nlen := int(b[p] & 3)
		cur := 0
		for i := 0; i < nlen; i++ {
			cur = cur<<8 | int(b[p+1+i])
		}
		var nv int
		switch rapid.IntRange(0, 5).Draw(rt, "lenrewrite") {
		case 0:
			nv = 0
		case 1:
			nv = cur + 1
		case 2:
			nv = cur - 1
		case 3:
			nv = 1 << uint(rapid.IntRange(0, 23).Draw(rt, "pow"))
		case 4:
			nv = 1<<(8*uint(nlen)) - 1
		default:
			nv = rapid.IntRange(0, 1<<(8*uint(nlen))-1).Draw(rt, "len")
		}
		if nv < 0 {
			nv = 0
		}
		for i := 0; i < nlen; i++ {
			b[p+1+i] = byte(nv >> (8 * uint(nlen-1-i)))
		}
		return b, "lengthfield"
	case 7:
		// valid non-canonical encoding: longer length fields than necessary
		mode := rapid.IntRange(0, 2).Draw(rt, "ncmode")
		i := 0
		b := e5.EncodeWith(nil, v, func(minimal int) int {
			i++
			switch mode {
			case 0:
				return 3
			case 1:
				return minimal + 1
			default:
				return minimal + (i*7+mode)%3
			}
		})
		return b, "noncanonical"
	case 8:
		// wrap in k single-child lists so that the total depth lands on 63/64/65/66
		d := v.Depth()
		target := rapid.SampledFrom([]int{63, 64, 65, 66}).Draw(rt, "wrapdepth")
		if v.FC == e5.Empty {
			return valid, "valid"
		}
		k := target - d
		if k < 0 {
			k = 1
		}
		b := make([]byte, 0, 2*k+len(valid))
		for i := 0; i < k; i++ {
			b = append(b, 0x01, 0x01)
		}
		return append(b, valid...), "wrapdepth"
	case 9:
		b := append([]byte{}, valid...)
		n := rapid.IntRange(1, 8).Draw(rt, "ntrail")
		for i := 0; i < n; i++ {
			b = append(b, rapid.Byte().Draw(rt, "trail"))
		}
		return b, "trailing"
	case 10:
		n := rapid.IntRange(0, 40).Draw(rt, "nrand")
		b := make([]byte, n)
		for i := range b {
			b[i] = rapid.Byte().Draw(rt, "rand")
		}
		return b, "random"
	case 11:
		// hostile header: a huge claimed length with almost no data behind it
		fc := rapid.SampledFrom(e5.AllCodes).Draw(rt, "hostilefc")
		nlen := rapid.IntRange(1, 3).Draw(rt, "hostilenlen")
		b := []byte{fc<<2 | byte(nlen)}
		for i := 0; i < nlen; i++ {
			b = append(b, rapid.SampledFrom([]byte{0xff, 0xfe, 0x80, 0x7f, 0x01, 0x00}).Draw(rt, "hostilelen"))
		}
		n := rapid.IntRange(0, 12).Draw(rt, "hostiletail")
		for i := 0; i < n; i++ {
			b = append(b, rapid.Byte().Draw(rt, "tail"))
		}
		if rapid.Bool().Draw(rt, "hostilewrap") {
			b = append([]byte{0x01, 0x02}, b...) // as the first of two claimed children
		}
		return b, "hostile"
	case 12:
		// nested hostile: many list headers each claiming many children
		k := rapid.IntRange(1, 70).Draw(rt, "nestk")
		var b []byte
		for i := 0; i < k; i++ {
			b = append(b, 0x01, rapid.SampledFrom([]byte{1, 2, 0xff}).Draw(rt, "nestcount"))
		}
		return b, "nestedlists"
	default:
		// splice: valid encoding with a foreign valid encoding inserted at a header position
		offs := e5.HeaderOffsets(valid)
		if len(offs) == 0 {
			return valid, "valid"
		}
		p := offs[rapid.IntRange(0, len(offs)-1).Draw(rt, "splicepos")]
		ins := e5.Encode(e5.Value{FC: e5.U2, Uints: []uint64{7}})
		b := append([]byte{}, valid[:p]...)
		b = append(b, ins...)
		return append(b, valid[p:]...), "splice"
	}
}
