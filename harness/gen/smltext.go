package gen

import (
	"fmt"
	"math"
	"strconv"
	"strings"
	"unicode/utf8"

	"pgregory.net/rapid"
	"verif/harness/ref/e5"
)

// SMLCodes are the leaf types of the C13 grammar.
var SMLCodes = []byte{e5.Binary, e5.Boolean, e5.ASCII, e5.ASCII, e5.JIS8, e5.Local, e5.I8, e5.I1, e5.I2, e5.I4, e5.F8, e5.F4, e5.U8, e5.U1, e5.U2, e5.U4}

// SMLText draws item text for the C13 grammar: ASCII over all 256 byte values (biased to the
// characters that interact with the grammar), JIS-8 and localized text free of quotes, backslash,
// angle brackets and control characters.
func SMLText(excludeGT bool) func(rt *rapid.T, fc byte, n int, label string) []byte {
	return func(rt *rapid.T, fc byte, n int, label string) []byte {
		switch fc {
		case e5.ASCII:
			b := make([]byte, n)
			mode := rapid.IntRange(0, 3).Draw(rt, label+"amode")
			for i := range b {
				if i >= 40 {
					b[i] = b[i%40]
					continue
				}
				switch mode {
				case 0:
					b[i] = rapid.Byte().Draw(rt, label)
				case 1:
					b[i] = rapid.SampledFrom([]byte{'"', '\'', '\\', '<', '>', ' ', 0, 0x1f, 0x7f, 0x80, 0xff, '\n', '\t', 'a', '0', 'x', '.', '/', '*', '[', ']', ':'}).Draw(rt, label)
				case 2:
					b[i] = byte(rapid.IntRange(0x20, 0x7e).Draw(rt, label))
				default:
					b[i] = rapid.SampledFrom([]byte{'"', '\\', 'A'}).Draw(rt, label)
				}
				if excludeGT && b[i] == '>' {
					b[i] = 'g'
				}
			}
			return b
		case e5.JIS8:
			b := make([]byte, 0, n)
			for i := 0; i < n; i++ {
				if i >= 40 {
					b = append(b, b[i%40])
					continue
				}
				var c byte
				if rapid.IntRange(0, 3).Draw(rt, label+"jhi") == 0 {
					c = byte(rapid.IntRange(0xA1, 0xDF).Draw(rt, label)) // JIS X 0201 katakana
				} else {
					c = byte(rapid.IntRange(0x20, 0x7e).Draw(rt, label))
				}
				if c == '"' || c == '\'' || c == '\\' || c == '<' || c == '>' {
					c = '_'
				}
				b = append(b, c)
			}
			return b
		default: // localized: valid UTF-8, printable runes only
			var sb strings.Builder
			for sb.Len() < n {
				var r rune
				switch rapid.IntRange(0, 3).Draw(rt, label+"wclass") {
				case 0:
					r = rune(rapid.IntRange(0x20, 0x7e).Draw(rt, label))
				case 1:
					r = rapid.SampledFrom([]rune{'é', 'ß', '漢', '字', 'カ', 'Ω', '€', '✓', '한', 'ñ'}).Draw(rt, label)
				case 2:
					r = rune(rapid.IntRange(0xA1, 0x24F).Draw(rt, label))
				default:
					r = rapid.SampledFrom([]rune{' ', 'A', 'z', '0', ':', '.', '/', '*', '[', ']'}).Draw(rt, label)
				}
				if r == '"' || r == '\'' || r == '\\' || r == '<' || r == '>' || !strconv.IsPrint(r) || !utf8.ValidRune(r) {
					r = '_'
				}
				if sb.Len()+utf8.RuneLen(r) > n {
					r = '_'
				}
				sb.WriteRune(r)
			}
			return []byte(sb.String())
		}
	}
}

// SMLStyle holds the stylistic choices of the independent SML writer below.
type SMLStyle struct {
	rt       *rapid.T
	Comments bool
	Loose    bool // no size hints / alternative hint forms / alternative number bases / case variants
	NoGT     bool // never put '>' inside a quoted run (render it as a numeric token instead)
}

func (s SMLStyle) ws() string {
	if !s.Loose {
		return " "
	}
	return rapid.SampledFrom([]string{" ", "  ", "\t", "\n", " \r\n ", "\n\n"}).Draw(s.rt, "ws")
}

func (s SMLStyle) gap() string {
	if s.Comments && rapid.IntRange(0, 4).Draw(s.rt, "comment") == 0 {
		return rapid.SampledFrom([]string{" // note\n", " /* note */ ", "\n// x\n", " /* a\nb */\n"}).Draw(s.rt, "commenttext")
	}
	return s.ws()
}

func (s SMLStyle) typeName(n string) string {
	if s.Loose && rapid.IntRange(0, 3).Draw(s.rt, "lower") == 0 {
		return strings.ToLower(n)
	}
	return n
}

func (s SMLStyle) hint(n int) string {
	if !s.Loose {
		return fmt.Sprintf("[%d]", n)
	}
	switch rapid.IntRange(0, 5).Draw(s.rt, "hintform") {
	case 0:
		return ""
	case 1:
		return fmt.Sprintf("[%d..%d]", n, n)
	case 2:
		return fmt.Sprintf("[..%d]", n)
	case 3:
		return fmt.Sprintf("[0..%d]", n+rapid.IntRange(0, 3).Draw(s.rt, "hintslack"))
	case 4:
		return fmt.Sprintf("[ %d ]", n)
	default:
		return fmt.Sprintf("[%d]", n)
	}
}

func (s SMLStyle) intTok(x int64) string {
	if s.Loose && rapid.IntRange(0, 3).Draw(s.rt, "ibase") == 0 {
		neg := x < 0
		var mag uint64
		if neg {
			mag = uint64(-(x + 1)) + 1
		} else {
			mag = uint64(x)
		}
		t := "0x" + strconv.FormatUint(mag, 16)
		if neg {
			return "-" + t
		}
		return t
	}
	return strconv.FormatInt(x, 10)
}

func (s SMLStyle) uintTok(x uint64) string {
	if s.Loose {
		switch rapid.IntRange(0, 5).Draw(s.rt, "ubase") {
		case 0:
			return "0x" + strconv.FormatUint(x, 16)
		case 1:
			return "0o" + strconv.FormatUint(x, 8)
		case 2:
			return "0b" + strconv.FormatUint(x, 2)
		}
	}
	return strconv.FormatUint(x, 10)
}

func (s SMLStyle) floatTok(x float64, w int) string {
	switch {
	case math.IsNaN(x):
		return "NaN"
	case math.IsInf(x, 1):
		if s.Loose && rapid.Bool().Draw(s.rt, "infform") {
			return "Inf"
		}
		return "+Inf"
	case math.IsInf(x, -1):
		return "-Inf"
	}
	prec := 17
	if w == 4 {
		prec = 9
	}
	if s.Loose {
		switch rapid.IntRange(0, 3).Draw(s.rt, "ffmt") {
		case 0:
			return strconv.FormatFloat(x, 'e', prec-1, 8*w)
		case 1:
			return strconv.FormatFloat(x, 'g', -1, 8*w)
		}
	}
	return strconv.FormatFloat(x, 'G', prec, 8*w)
}

// asciiStrict renders bytes the way the strict grammar reads them: quoted printable runs with
// backslash escapes for the quote and the backslash, other bytes as numeric tokens.
func (s SMLStyle) asciiStrict(b []byte) string {
	q := byte('"')
	if s.Loose && rapid.Bool().Draw(s.rt, "aquote") {
		q = '\''
	}
	if len(b) == 0 {
		if s.Loose && rapid.Bool().Draw(s.rt, "emptyform") {
			return ""
		}
		return string([]byte{q, q})
	}
	var parts []string
	var run []byte
	flush := func() {
		if run != nil {
			parts = append(parts, string(q)+string(run)+string(q))
			run = nil
		}
	}
	for _, c := range b {
		printable := c >= 0x20 && c < 0x7f
		asTok := !printable || (s.NoGT && c == '>') || (s.Loose && rapid.IntRange(0, 9).Draw(s.rt, "forcetok") == 0)
		if asTok {
			flush()
			switch {
			case s.Loose && rapid.IntRange(0, 2).Draw(s.rt, "tokbase") == 0:
				parts = append(parts, strconv.Itoa(int(c)))
			default:
				parts = append(parts, fmt.Sprintf("0x%02X", c))
			}
			continue
		}
		if run == nil {
			run = []byte{}
		}
		if c == q || c == '\\' || (c == '>' && s.Loose) {
			run = append(run, '\\')
		}
		run = append(run, c)
		if s.Loose && len(run) > 3 && rapid.IntRange(0, 9).Draw(s.rt, "splitrun") == 0 {
			flush()
		}
	}
	flush()
	return strings.Join(parts, " ")
}

// Item renders one item tree as SML text with the style's variations; level is the nesting level.
func (s SMLStyle) Item(v e5.Value, level int) string {
	ind := strings.Repeat("  ", level)
	switch {
	case v.FC == e5.Empty:
		return ""
	case v.FC == e5.List:
		var sb strings.Builder
		sb.WriteString(ind + "<" + s.typeName("L") + s.hint(len(v.List)))
		for _, c := range v.List {
			sb.WriteString(s.gap())
			if !strings.HasSuffix(sb.String(), "\n") {
				sb.WriteString("\n")
			}
			sb.WriteString(s.Item(c, level+1))
		}
		if len(v.List) > 0 {
			sb.WriteString("\n" + ind)
		}
		sb.WriteString(">")
		return sb.String()
	case v.FC == e5.ASCII:
		return ind + "<" + s.typeName("A") + s.hint(len(v.Bytes)) + " " + s.asciiStrict(v.Bytes) + ">"
	case v.FC == e5.JIS8:
		return ind + "<" + s.typeName("J") + s.hint(len(v.Bytes)) + " \"" + string(v.Bytes) + "\">"
	case v.FC == e5.Local:
		return ind + "<" + s.typeName("W") + " \"" + string(v.Bytes) + "\">"
	}
	var toks []string
	var name string
	switch {
	case v.FC == e5.Binary:
		name = "B"
		for _, c := range v.Bytes {
			if s.Loose && rapid.IntRange(0, 2).Draw(s.rt, "bbase") == 0 {
				toks = append(toks, "0b"+strconv.FormatUint(uint64(c), 2))
			} else if s.Loose && rapid.IntRange(0, 3).Draw(s.rt, "bdec") == 0 {
				toks = append(toks, strconv.Itoa(int(c)))
			} else {
				toks = append(toks, fmt.Sprintf("0x%02X", c))
			}
		}
	case v.FC == e5.Boolean:
		name = "BOOLEAN"
		for _, b := range v.Bools {
			t, f := "True", "False"
			if s.Loose {
				switch rapid.IntRange(0, 3).Draw(s.rt, "boolform") {
				case 0:
					t, f = "T", "F"
				case 1:
					t, f = "true", "false"
				case 2:
					t, f = "TRUE", "f"
				}
			}
			if b {
				toks = append(toks, t)
			} else {
				toks = append(toks, f)
			}
		}
	case e5.IsInt(v.FC):
		name = fmt.Sprintf("I%d", e5.Width(v.FC))
		for _, x := range v.Ints {
			toks = append(toks, s.intTok(x))
		}
	case e5.IsUint(v.FC):
		name = fmt.Sprintf("U%d", e5.Width(v.FC))
		for _, x := range v.Uints {
			toks = append(toks, s.uintTok(x))
		}
	default:
		name = fmt.Sprintf("F%d", e5.Width(v.FC))
		for _, x := range v.Floats {
			toks = append(toks, s.floatTok(x, e5.Width(v.FC)))
		}
	}
	out := ind + "<" + s.typeName(name) + s.hint(len(toks))
	for _, t := range toks {
		out += s.ws() + t
	}
	return out + ">"
}

// Message renders a whole message: optional name, optional quotes around SxFy, W flag, body, dot.
func (s SMLStyle) Message(stream, function int, w bool, body e5.Value) string {
	var sb strings.Builder
	if s.Comments && rapid.IntRange(0, 3).Draw(s.rt, "leadcomment") == 0 {
		sb.WriteString("// leading comment\n")
	}
	if s.Loose && rapid.IntRange(0, 3).Draw(s.rt, "msgname") == 0 {
		sb.WriteString(rapid.SampledFrom([]string{"Name:", "AreYouThere : ", ":"}).Draw(s.rt, "name"))
	}
	q := ""
	if s.Loose {
		q = rapid.SampledFrom([]string{"", "", "'", "\""}).Draw(s.rt, "sfquote")
	}
	fmt.Fprintf(&sb, "%sS%dF%d%s", q, stream, function, q)
	if w {
		sb.WriteString(" W")
	}
	sb.WriteString("\n")
	if body.FC != e5.Empty {
		sb.WriteString(s.Item(body, 0))
		sb.WriteString(s.gap())
	}
	sb.WriteString(".")
	return sb.String()
}

// NewSMLStyle draws a style.
func NewSMLStyle(rt *rapid.T, loose, comments, noGT bool) SMLStyle {
	return SMLStyle{rt: rt, Loose: loose, Comments: comments, NoGT: noGT}
}
