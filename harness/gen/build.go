package gen

import (
	"fmt"
	"math"
	"strconv"

	"github.com/arloliu/go-secs/v2/secs2"
	"pgregory.net/rapid"
	"verif/harness/ref/e5"
)

// Shape describes how a leaf was realised (for class histograms).
type Shape struct {
	Classes map[string]int
}

func (s *Shape) add(c string) {
	if s == nil {
		return
	}
	if s.Classes == nil {
		s.Classes = map[string]int{}
	}
	s.Classes[c]++
}

// BuildCanonical realises v with the plainest constructor call for each type (one slice argument).
func BuildCanonical(v e5.Value) secs2.Item {
	switch {
	case v.FC == e5.Empty:
		return secs2.NewEmptyItem()
	case v.FC == e5.List:
		ch := make([]secs2.Item, len(v.List))
		for i, c := range v.List {
			ch[i] = BuildCanonical(c)
		}
		return secs2.NewListItem(ch...)
	case v.FC == e5.Binary:
		return secs2.NewBinaryItem(append([]byte{}, v.Bytes...))
	case v.FC == e5.ASCII:
		return secs2.NewASCIIItem(string(v.Bytes))
	case v.FC == e5.JIS8:
		return secs2.NewJIS8Item(string(v.Bytes))
	case v.FC == e5.Local:
		return secs2.NewLocalizedStrItem(v.LSH, string(v.Bytes))
	case v.FC == e5.Boolean:
		return secs2.NewBooleanItem(append([]bool{}, v.Bools...))
	case e5.IsInt(v.FC):
		return secs2.NewIntItem(e5.Width(v.FC), append([]int64{}, v.Ints...))
	case e5.IsUint(v.FC):
		return secs2.NewUintItem(e5.Width(v.FC), append([]uint64{}, v.Uints...))
	case e5.IsFloat(v.FC):
		return secs2.NewFloatItem(e5.Width(v.FC), append([]float64{}, v.Floats...))
	}
	panic(fmt.Sprintf("gen: unknown format code %d", v.FC))
}

// Build realises v through drawn constructor shapes: shortcut vs full constructor, scalar
// arguments, one slice, mixed scalars and slices, numeric strings, and every Go numeric type
// able to hold the values. All arguments are valid and in range, so the item's logical value is v.
func Build(rt *rapid.T, v e5.Value, sh *Shape) secs2.Item {
	switch {
	case v.FC == e5.Empty:
		return secs2.NewEmptyItem()
	case v.FC == e5.List:
		ch := make([]secs2.Item, 0, len(v.List)+2)
		nils := 0
		for _, c := range v.List {
			if len(v.List) < 50 && rapid.IntRange(0, 19).Draw(rt, "nilchild") == 0 {
				ch = append(ch, nil) // nil children are documented to be skipped
				nils++
			}
			ch = append(ch, Build(rt, c, sh))
		}
		// nil arguments that carry the ARGUMENT count across a length-field boundary (255/256) while
		// the real child count stays below it: sizes derived from len(args) instead of the children
		// kept go wrong exactly here
		if n := len(v.List); n >= 128 && n <= 255 && rapid.Bool().Draw(rt, "nilpad") {
			pad := 256 - n + rapid.IntRange(0, 3).Draw(rt, "nilpadExtra")
			at := rapid.IntRange(0, len(ch)).Draw(rt, "nilpadAt")
			padded := make([]secs2.Item, 0, len(ch)+pad)
			padded = append(padded, ch[:at]...)
			padded = append(padded, make([]secs2.Item, pad)...)
			padded = append(padded, ch[at:]...)
			ch = padded
			nils += pad
			sh.add("list-nil-across-256")
		}
		if nils > 0 {
			sh.add("list-nil-skipped")
		}
		if rapid.Bool().Draw(rt, "Lshort") {
			return secs2.L(ch...)
		}
		return secs2.NewListItem(ch...)
	case v.FC == e5.ASCII:
		if rapid.Bool().Draw(rt, "Ashort") {
			return secs2.A(string(v.Bytes))
		}
		return secs2.NewASCIIItem(string(v.Bytes))
	case v.FC == e5.JIS8:
		if rapid.Bool().Draw(rt, "Jshort") {
			return secs2.J(string(v.Bytes))
		}
		return secs2.NewJIS8Item(string(v.Bytes))
	case v.FC == e5.Local:
		if v.LSH == secs2.LSHUTF8 && rapid.Bool().Draw(rt, "Wshort") {
			if rapid.Bool().Draw(rt, "Wshort2") {
				return secs2.W(string(v.Bytes))
			}
			return secs2.NewUTF8StrItem(string(v.Bytes))
		}
		return secs2.NewLocalizedStrItem(v.LSH, string(v.Bytes))
	case v.FC == e5.Binary:
		args := binaryArgs(rt, v.Bytes, sh)
		if rapid.Bool().Draw(rt, "Bshort") {
			return secs2.B(args...)
		}
		return secs2.NewBinaryItem(args...)
	case v.FC == e5.Boolean:
		args := boolArgs(rt, v.Bools, sh)
		if rapid.Bool().Draw(rt, "BOOLshort") {
			return secs2.BOOLEAN(args...)
		}
		return secs2.NewBooleanItem(args...)
	case e5.IsInt(v.FC):
		w := e5.Width(v.FC)
		args := intArgs(rt, v.Ints, sh)
		if rapid.Bool().Draw(rt, "Ishort") {
			return map[int]func(...any) secs2.Item{1: secs2.I1, 2: secs2.I2, 4: secs2.I4, 8: secs2.I8}[w](args...)
		}
		return secs2.NewIntItem(w, args...)
	case e5.IsUint(v.FC):
		w := e5.Width(v.FC)
		args := uintArgs(rt, v.Uints, sh)
		if rapid.Bool().Draw(rt, "Ushort") {
			return map[int]func(...any) secs2.Item{1: secs2.U1, 2: secs2.U2, 4: secs2.U4, 8: secs2.U8}[w](args...)
		}
		return secs2.NewUintItem(w, args...)
	case e5.IsFloat(v.FC):
		w := e5.Width(v.FC)
		args := floatArgs(rt, v.Floats, w, sh)
		if rapid.Bool().Draw(rt, "Fshort") {
			return map[int]func(...any) secs2.Item{4: secs2.F4, 8: secs2.F8}[w](args...)
		}
		return secs2.NewFloatItem(w, args...)
	}
	panic(fmt.Sprintf("gen: unknown format code %d", v.FC))
}

// partition splits n elements into argument groups: returns group lengths. Mode 0: one group
// (single slice), mode 1: all singletons (scalars), mode 2: mixed.
func partition(rt *rapid.T, n int) (groups []int, scalar []bool) {
	if n == 0 {
		switch rapid.IntRange(0, 2).Draw(rt, "emptyshape") {
		case 0:
			return nil, nil // no arguments at all
		case 1:
			return []int{0}, []bool{false} // one empty slice
		default:
			return []int{0, 0}, []bool{false, false}
		}
	}
	mode := rapid.IntRange(0, 2).Draw(rt, "argshape")
	if n > 64 && mode == 1 {
		mode = 2
	}
	switch mode {
	case 0:
		return []int{n}, []bool{false}
	case 1:
		for i := 0; i < n; i++ {
			groups = append(groups, 1)
			scalar = append(scalar, true)
		}
		return
	default:
		rest := n
		for rest > 0 {
			var g int
			if len(groups) > 6 {
				g = rest
			} else {
				g = rapid.IntRange(1, rest).Draw(rt, "grp")
			}
			if g == 1 && rapid.Bool().Draw(rt, "grpscalar") {
				groups, scalar = append(groups, 1), append(scalar, true)
			} else {
				groups, scalar = append(groups, g), append(scalar, false)
				if rapid.IntRange(0, 5).Draw(rt, "emptyslice") == 0 {
					groups, scalar = append(groups, 0), append(scalar, false)
				}
			}
			rest -= g
		}
		return
	}
}

func binaryArgs(rt *rapid.T, b []byte, sh *Shape) []any {
	groups, scalar := partition(rt, len(b))
	var args []any
	pos := 0
	for gi, g := range groups {
		seg := b[pos : pos+g]
		pos += g
		if scalar[gi] {
			switch rapid.IntRange(0, 2).Draw(rt, "binscalar") {
			case 0:
				args = append(args, seg[0])
				sh.add("bin-byte")
			case 1:
				args = append(args, int(seg[0]))
				sh.add("bin-int")
			default:
				args = append(args, magStringBases(rt, uint64(seg[0]), false, 5))
				sh.add("bin-string")
			}
		} else {
			args = append(args, append([]byte{}, seg...))
			sh.add("bin-slice")
		}
	}
	return args
}

func boolArgs(rt *rapid.T, b []bool, sh *Shape) []any {
	groups, scalar := partition(rt, len(b))
	var args []any
	pos := 0
	for gi, g := range groups {
		seg := b[pos : pos+g]
		pos += g
		if scalar[gi] {
			args = append(args, seg[0])
			sh.add("bool-scalar")
		} else {
			args = append(args, append([]bool{}, seg...))
			sh.add("bool-slice")
		}
	}
	return args
}

// intString renders x as a numeric literal in a drawn base accepted by strconv with base 0.
func intString(rt *rapid.T, x int64) string {
	neg := x < 0
	var mag uint64
	if neg {
		mag = uint64(-(x + 1)) + 1
	} else {
		mag = uint64(x)
	}
	return magString(rt, mag, neg)
}

func magString(rt *rapid.T, mag uint64, neg bool) string {
	return magStringBases(rt, mag, neg, 4)
}

// magStringBases renders the magnitude in a drawn base: decimal, hex (0x/0X), octal (0o and the
// legacy leading-0 form) and - only where the documentation lists it (BinaryItem) - binary.
func magStringBases(rt *rapid.T, mag uint64, neg bool, maxBase int) string {
	var s string
	switch rapid.IntRange(0, maxBase).Draw(rt, "base") {
	case 0:
		s = strconv.FormatUint(mag, 10)
	case 1:
		s = "0x" + strconv.FormatUint(mag, 16)
	case 2:
		s = "0X" + strconv.FormatUint(mag, 16)
	case 3:
		s = "0o" + strconv.FormatUint(mag, 8)
	case 4:
		s = "0" + strconv.FormatUint(mag, 8)
	default:
		s = "0b" + strconv.FormatUint(mag, 2)
	}
	if neg {
		return "-" + s
	}
	return s
}

// intTypes that can hold every element of xs.
func intTypeChoices(lo, hi int64) []string {
	var t []string
	fits := func(a, b int64) bool { return lo >= a && hi <= b }
	if fits(math.MinInt8, math.MaxInt8) {
		t = append(t, "int8")
	}
	if fits(math.MinInt16, math.MaxInt16) {
		t = append(t, "int16")
	}
	if fits(math.MinInt32, math.MaxInt32) {
		t = append(t, "int32")
	}
	t = append(t, "int64", "int", "string")
	if lo >= 0 {
		if hi <= math.MaxUint8 {
			t = append(t, "uint8")
		}
		if hi <= math.MaxUint16 {
			t = append(t, "uint16")
		}
		if hi <= math.MaxUint32 {
			t = append(t, "uint32")
		}
		t = append(t, "uint64", "uint")
	}
	return t
}

func rangeOf(xs []int64) (lo, hi int64) {
	if len(xs) == 0 {
		return 0, 0
	}
	lo, hi = xs[0], xs[0]
	for _, x := range xs {
		lo, hi = min(lo, x), max(hi, x)
	}
	return
}

func convInts(rt *rapid.T, typ string, seg []int64, scalar bool) any {
	if scalar {
		x := seg[0]
		switch typ {
		case "int8":
			return int8(x)
		case "int16":
			return int16(x)
		case "int32":
			return int32(x)
		case "int64":
			return x
		case "int":
			return int(x)
		case "uint8":
			return uint8(x)
		case "uint16":
			return uint16(x)
		case "uint32":
			return uint32(x)
		case "uint64":
			return uint64(x)
		case "uint":
			return uint(x)
		case "string":
			return intString(rt, x)
		}
	}
	switch typ {
	case "int8":
		return mapSlice(seg, func(x int64) int8 { return int8(x) })
	case "int16":
		return mapSlice(seg, func(x int64) int16 { return int16(x) })
	case "int32":
		return mapSlice(seg, func(x int64) int32 { return int32(x) })
	case "int64":
		return mapSlice(seg, func(x int64) int64 { return x })
	case "int":
		return mapSlice(seg, func(x int64) int { return int(x) })
	case "uint8":
		return mapSlice(seg, func(x int64) uint8 { return uint8(x) })
	case "uint16":
		return mapSlice(seg, func(x int64) uint16 { return uint16(x) })
	case "uint32":
		return mapSlice(seg, func(x int64) uint32 { return uint32(x) })
	case "uint64":
		return mapSlice(seg, func(x int64) uint64 { return uint64(x) })
	case "uint":
		return mapSlice(seg, func(x int64) uint { return uint(x) })
	case "string":
		return mapSlice(seg, func(x int64) string { return intString(rt, x) })
	}
	panic("gen: bad type " + typ)
}

func mapSlice[A, B any](xs []A, f func(A) B) []B {
	out := make([]B, len(xs))
	for i, x := range xs {
		out[i] = f(x)
	}
	return out
}

func intArgs(rt *rapid.T, xs []int64, sh *Shape) []any {
	groups, scalar := partition(rt, len(xs))
	var args []any
	pos := 0
	for gi, g := range groups {
		seg := xs[pos : pos+g]
		pos += g
		lo, hi := rangeOf(seg)
		typ := rapid.SampledFrom(intTypeChoices(lo, hi)).Draw(rt, "inttype")
		if typ == "string" && g > 64 {
			typ = "int64"
		}
		args = append(args, convInts(rt, typ, seg, scalar[gi]))
		if scalar[gi] {
			sh.add("int-scalar-" + typ)
		} else {
			sh.add("int-slice-" + typ)
		}
	}
	return args
}

func uintTypeChoices(hi uint64) []string {
	var t []string
	if hi <= math.MaxUint8 {
		t = append(t, "uint8")
	}
	if hi <= math.MaxUint16 {
		t = append(t, "uint16")
	}
	if hi <= math.MaxUint32 {
		t = append(t, "uint32")
	}
	t = append(t, "uint64", "uint", "string")
	if hi <= math.MaxInt8 {
		t = append(t, "int8")
	}
	if hi <= math.MaxInt16 {
		t = append(t, "int16")
	}
	if hi <= math.MaxInt32 {
		t = append(t, "int32")
	}
	if hi <= math.MaxInt64 {
		t = append(t, "int64", "int")
	}
	return t
}

func uintArgs(rt *rapid.T, xs []uint64, sh *Shape) []any {
	groups, scalar := partition(rt, len(xs))
	var args []any
	pos := 0
	for gi, g := range groups {
		seg := xs[pos : pos+g]
		pos += g
		var hi uint64
		for _, x := range seg {
			hi = max(hi, x)
		}
		typ := rapid.SampledFrom(uintTypeChoices(hi)).Draw(rt, "uinttype")
		if typ == "string" && g > 64 {
			typ = "uint64"
		}
		var a any
		if typ == "string" {
			if scalar[gi] {
				a = magString(rt, seg[0], false)
			} else {
				a = mapSlice(seg, func(x uint64) string { return magString(rt, x, false) })
			}
		} else if typ == "uint64" || typ == "uint" {
			if scalar[gi] {
				if typ == "uint" {
					a = uint(seg[0])
				} else {
					a = seg[0]
				}
			} else if typ == "uint" {
				a = mapSlice(seg, func(x uint64) uint { return uint(x) })
			} else {
				a = append([]uint64{}, seg...)
			}
		} else {
			a = convInts(rt, typ, mapSlice(seg, func(x uint64) int64 { return int64(x) }), scalar[gi])
		}
		args = append(args, a)
		if scalar[gi] {
			sh.add("uint-scalar-" + typ)
		} else {
			sh.add("uint-slice-" + typ)
		}
	}
	return args
}

func floatTypeChoices(seg []float64, w int) []string {
	t := []string{"float64"}
	f32, integral, finite := true, true, true
	var lo, hi float64
	for _, x := range seg {
		if !(float64(float32(x)) == x || math.IsNaN(x)) {
			f32 = false
		}
		if math.IsNaN(x) || math.IsInf(x, 0) || x != math.Trunc(x) || math.Abs(x) > 1<<53 || (x == 0 && math.Signbit(x)) {
			integral = false
		}
		if math.IsNaN(x) || math.IsInf(x, 0) {
			finite = false
		}
		lo, hi = math.Min(lo, x), math.Max(hi, x)
	}
	if finite {
		t = append(t, "string") // documented: "a string containing a decimal floating-point literal"
	}
	if f32 {
		t = append(t, "float32")
	}
	if integral && len(seg) > 0 {
		for _, c := range intTypeChoices(int64(lo), int64(hi)) {
			if c != "string" {
				t = append(t, c)
			}
		}
	}
	return t
}

func floatString(rt *rapid.T, x float64) string {
	if rapid.Bool().Draw(rt, "ffmt") {
		return strconv.FormatFloat(x, 'g', -1, 64)
	}
	return strconv.FormatFloat(x, 'e', -1, 64)
}

func floatArgs(rt *rapid.T, xs []float64, w int, sh *Shape) []any {
	groups, scalar := partition(rt, len(xs))
	var args []any
	pos := 0
	for gi, g := range groups {
		seg := xs[pos : pos+g]
		pos += g
		typ := rapid.SampledFrom(floatTypeChoices(seg, w)).Draw(rt, "floattype")
		if typ == "string" && g > 64 {
			typ = "float64"
		}
		var a any
		switch typ {
		case "float64":
			src := seg
			if w == 4 && rapid.Bool().Draw(rt, "f4unrounded") {
				// an F4 item is documented to take float64 arguments: pass values that are NOT float32-exact
				// but round (to nearest) to the intended float32, so the logical value is unchanged
				// ... either barely off the float32 value, or almost half a float32 ulp away from it (close
				// to the midpoint between two neighbouring float32 values: a renderer or a comparison that
				// works on the float64 instead of the float32 the item stands for goes wrong exactly there)
				near := rapid.Bool().Draw(rt, "f4nearMidpoint")
				src = mapSlice(seg, func(x float64) float64 {
					if x == 0 || math.IsNaN(x) || math.IsInf(x, 0) {
						return x
					}
					factors := []float64{1 + 1e-9, 1 - 1e-9}
					if near {
						factors = []float64{1 + 2.95e-8, 1 - 2.95e-8, 1 + 2.2e-8, 1 - 2.2e-8, 1 + 1.48e-8, 1 - 1.48e-8, 1 + 1e-9, 1 - 1e-9}
					}
					for _, f := range factors {
						if y := x * f; float64(float32(y)) == x && y != x {
							return y
						}
					}
					return x
				})
				sh.add("float-f4-unrounded")
			}
			if scalar[gi] {
				a = src[0]
			} else {
				a = append([]float64{}, src...)
			}
		case "float32":
			if scalar[gi] {
				a = float32(seg[0])
			} else {
				a = mapSlice(seg, func(x float64) float32 { return float32(x) })
			}
		case "string":
			if scalar[gi] {
				a = floatString(rt, seg[0])
			} else {
				a = mapSlice(seg, func(x float64) string { return floatString(rt, x) })
			}
		default:
			a = convInts(rt, typ, mapSlice(seg, func(x float64) int64 { return int64(x) }), scalar[gi])
		}
		args = append(args, a)
		if scalar[gi] {
			sh.add("float-scalar-" + typ)
		} else {
			sh.add("float-slice-" + typ)
		}
	}
	return args
}
