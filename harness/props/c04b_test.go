package props

// C04 (on a connection): a well-framed data message whose body is not valid SECS-II is accepted at
// the frame level and handed to its rightful holder, which sees the body error: the sender waiting
// for it if it is the reply to an open transaction (documented: "a malformed reply to a synchronous
// SendDataMessage / SendSECS2Message is surfaced to that call's error return", the message
// alongside), the decode-error handlers if it is a primary and such a handler is registered, the
// data handlers otherwise - with the same body error on every call.

import (
	"bytes"
	"context"
	"fmt"
	"sync"
	"testing"
	"testing/synctest"
	"time"

	"github.com/arloliu/go-secs/v2/hsms"
	"github.com/arloliu/go-secs/v2/secs2"
	"pgregory.net/rapid"
	"verif/harness/ev"
	"verif/harness/netsim"
	"verif/harness/ref/e37"
	"verif/harness/ref/e5"
	"verif/harness/vt"
)

func c04BadBody(rt *rapid.T) []byte {
	for {
		var body []byte
		switch rapid.IntRange(0, 4).Draw(rt, "garbage") {
		case 0: // ASCII item claiming more bytes than follow
			n := rapid.IntRange(1, 40).Draw(rt, "have")
			body = append([]byte{0x41, byte(n + 1 + rapid.IntRange(0, 100).Draw(rt, "missing"))}, bytes.Repeat([]byte{'x'}, n)...)
		case 1: // list claiming children that are not there
			body = []byte{0x01, byte(rapid.IntRange(1, 200).Draw(rt, "children"))}
		case 2: // unknown format code
			body = []byte{0x3d, 0x01, 0x00}
		case 3: // a U4 of three bytes
			body = []byte{0xb1, 0x03, 1, 2, 3}
		default: // zero length-byte count
			body = []byte{0x40, 0x00}
		}
		if _, _, err := e5.Decode(body); err != nil {
			return body
		}
	}
}

func TestC04BadBodyHolders(t *testing.T) {
	ev.Rule("HSMS-SS, both roles, virtual time, a Selected connection with a data handler and (2 of 3 cases) a decode-error handler; 1-5 events: the library sends a reply-expected primary and the peer answers it with a secondary whose body the E5 reference rejects (or a valid one); the peer sends a primary with such a body (or a valid one). Oracle: the sender gets the reply message together with its body error (equal to msg.DecodeErr() and Item()'s error, on every call) and no handler sees it; an undecodable primary goes to the decode-error handlers exactly once (error = msg.DecodeErr()) and not to the data handlers, or - without a decode-error handler - to the data handlers, reporting the same body error on every call; valid messages are delivered normally; non-trivial = at least one undecodable body")
	vt.Bubble(t, func(t *testing.T) {
		vt.CheckBubble(t, 1500, 60000, func(rt *rapid.T) {
			active := rapid.Bool().Draw(rt, "active")
			withDEH := rapid.IntRange(0, 2).Draw(rt, "decodeErrorHandler") > 0
			const session = 0x0101
			w, err := newWorld(worldOpt{active: active, connOpts: []hsms.ConnOption{hsms.WithSessionID(session), hsms.WithT3(time.Second), hsms.WithT6(time.Hour), hsms.WithT7(time.Hour), hsms.WithT8(time.Hour)}})
			if err != nil {
				rt.Fatalf("VERIF-INFRA: %v", err)
			}
			type dehRec struct {
				m   *hsms.DataMessage
				err error
			}
			var mu sync.Mutex
			var deh []dehRec
			var del []*hsms.DataMessage
			if withDEH {
				w.conn.AddDecodeErrorHandler(func(m *hsms.DataMessage, e error, _ hsms.SECS2Endpoint) {
					mu.Lock()
					deh = append(deh, dehRec{m, e})
					mu.Unlock()
				})
			}
			w.conn.AddDataMessageHandler(func(m *hsms.DataMessage, _ hsms.SECS2Endpoint) {
				mu.Lock()
				del = append(del, m)
				mu.Unlock()
			})
			var p *netsim.Peer
			var bg sync.WaitGroup
			defer func() {
				_ = w.conn.Close()
				if p != nil {
					p.Close()
				}
				if w.ln != nil {
					_ = w.ln.Close()
				}
				bg.Wait()
				synctest.Wait()
			}()
			if err := w.conn.Open(context.Background(), hsms.OpenBackground); err != nil {
				rt.Fatalf("VERIF-INFRA: %v", err)
			}
			if p, err = w.peerUp(time.Second); err != nil {
				rt.Fatalf("VERIF-INFRA: %v", err)
			}
			if err := w.selectAsPeer(p, 0x5e1ec7); err != nil {
				rt.Fatalf("VERIF-INFRA: %v", err)
			}
			var hist []string
			fail := func(f string, a ...any) {
				rt.Fatalf("C04 violated (active=%v decode-error handler=%v): %s\nevents:\n  %s\nwire:\n%s", active, withDEH, fmt.Sprintf(f, a...), joinLines(hist), p.Transcript())
			}
			counts := func() (int, int) {
				mu.Lock()
				defer mu.Unlock()
				return len(deh), len(del)
			}
			// sameBodyError: every call on the message reports the same body error text
			bodyErr := func(m *hsms.DataMessage) string {
				var first string
				for k := 0; k < 3; k++ {
					_, e1 := m.Item()
					e2 := m.DecodeErr()
					if (e1 == nil) != (e2 == nil) || (e1 != nil && e1.Error() != e2.Error()) {
						fail("Item() reports %v but DecodeErr() reports %v for one message", e1, e2)
					}
					s := ""
					if e2 != nil {
						s = e2.Error()
					}
					if k == 0 {
						first = s
					} else if s != first {
						fail("the body error of one message changed between calls: %q then %q", first, s)
					}
				}
				return first
			}
			bad := 0
			n := rapid.IntRange(1, 5).Draw(rt, "events")
			for i := 0; i < n; i++ {
				kind := rapid.SampledFrom([]string{"reply-bad", "reply-bad", "reply-good", "primary-bad", "primary-good"}).Draw(rt, "event")
				stream := byte(rapid.IntRange(1, 127).Draw(rt, "stream"))
				function := byte(2*rapid.IntRange(0, 126).Draw(rt, "fn") + 1)
				var body []byte
				if kind == "reply-bad" || kind == "primary-bad" {
					body = c04BadBody(rt)
					bad++
				} else {
					body = e5.Encode(e5.Value{FC: e5.ASCII, Bytes: []byte(fmt.Sprintf("ok-%d", i))})
				}
				d0, l0 := counts()
				hist = append(hist, fmt.Sprintf("%s S%dF%d body %x", kind, stream, function, body))
				switch kind {
				case "reply-bad", "reply-good":
					type res struct {
						m *hsms.DataMessage
						e error
					}
					done := make(chan res, 1)
					from := len(p.Frames())
					bg.Add(1)
					go func() {
						defer bg.Done()
						ctx, cancel := ctxT(5 * time.Second)
						defer cancel()
						m, e := w.conn.SendDataMessage(ctx, stream, function, true, secs2.A("q"))
						done <- res{m, e}
					}()
					synctest.Wait()
					var prim *e37.Frame
					for _, rf := range p.Frames()[from:] {
						if rf.F.IsData() && rf.F.Stream() == stream && rf.F.Function() == function {
							f := rf.F
							prim = &f
						}
					}
					if prim == nil {
						fail("the primary S%dF%d W never reached the peer", stream, function)
					}
					_ = p.Send(e37.DataFrame(prim.Session, stream, function+1, false, prim.Sys, body))
					synctest.Wait()
					var r res
					select {
					case r = <-done:
					default:
						fail("the sender of S%dF%d is still waiting although the peer has answered its transaction (system bytes %08x)", stream, function, prim.Sys)
					}
					if r.m == nil {
						fail("the sender of S%dF%d got no reply message (error %v) although the peer answered its transaction", stream, function, r.e)
					}
					if hb := r.m.HeaderBytes(); hb != e37.DataFrame(prim.Session, stream, function+1, false, prim.Sys, nil).Header() {
						fail("the sender of S%dF%d got a reply with header %x", stream, function, hb)
					}
					if got := r.m.AppendBodyTo(nil); !bytes.Equal(got, body) {
						fail("the reply handed to the sender carries body %x, the peer sent %x", got, body)
					}
					be := bodyErr(r.m)
					if kind == "reply-bad" {
						if r.e == nil || be == "" || r.e.Error() != be {
							fail("the reply's body is not valid SECS-II: the send returned error %v, the reply reports body error %q; both must be the body's decode error", r.e, be)
						}
					} else if r.e != nil || be != "" {
						fail("a valid reply was reported as %v / body error %q", r.e, be)
					}
					if d1, l1 := counts(); d1 != d0 || l1 != l0 {
						fail("the reply of an open transaction was ALSO handed to %d decode-error / %d data handler calls", d1-d0, l1-l0)
					}
				default:
					sys := 0x70000000 + uint32(i)
					wbit := false
					f := e37.DataFrame(session, stream, function, wbit, sys, body)
					_ = p.Send(f)
					synctest.Wait()
					d1, l1 := counts()
					mu.Lock()
					var m *hsms.DataMessage
					var herr error
					switch {
					case d1 == d0+1 && l1 == l0:
						m, herr = deh[d0].m, deh[d0].err
					case d1 == d0 && l1 == l0+1:
						m = del[l0]
					}
					mu.Unlock()
					if m == nil {
						fail("the primary %v was handed to %d decode-error and %d data handler calls, want exactly one in total", f, d1-d0, l1-l0)
					}
					if m.HeaderBytes() != f.Header() || !bytes.Equal(m.AppendBodyTo(nil), body) {
						fail("the primary %v was delivered as header %x body %x", f, m.HeaderBytes(), m.AppendBodyTo(nil))
					}
					be := bodyErr(m)
					switch {
					case kind == "primary-good" && (be != "" || d1 != d0):
						fail("a valid primary was reported with body error %q (decode-error handler calls: %d)", be, d1-d0)
					case kind == "primary-bad" && be == "":
						fail("a primary whose body the E5 reference rejects reports no body error")
					case kind == "primary-bad" && withDEH && d1 != d0+1:
						fail("an undecodable primary went to the data handlers although a decode-error handler is registered")
					case kind == "primary-bad" && withDEH && (herr == nil || herr.Error() != be):
						fail("the decode-error handler was given error %v, the message reports %q", herr, be)
					}
				}
			}
			role := "passive"
			if active {
				role = "active"
			}
			ev.Case(bad > 0, fmt.Sprint(hist, active, withDEH), func() any { return hist }, "c04h:role:"+role, fmt.Sprintf("c04h:decode-error-handler:%v", withDEH))
		})
	})
}

func joinLines(h []string) string {
	out := ""
	for i, s := range h {
		if i > 0 {
			out += "\n  "
		}
		out += s
	}
	return out
}
