package props

import (
	"testing"
	"testing/synctest"
	"time"

	"github.com/arloliu/go-secs/v2/hsms"
	"github.com/arloliu/go-secs/v2/secs2"
	"verif/harness/ref/e37"
)

func TestSmokeBubble(t *testing.T) {
	synctest.Test(t, func(t *testing.T) {
		for _, active := range []bool{false, true} {
			w, err := newWorld(worldOpt{active: active, connOpts: []hsms.ConnOption{hsms.WithT3(time.Second)}})
			if err != nil {
				t.Fatal(err)
			}
			w.conn.AddDataMessageHandler(func(m *hsms.DataMessage, ep hsms.SECS2Endpoint) {
				if m.WaitBit() {
					_ = ep.ReplyDataMessage(t.Context(), m, secs2.A("ok"))
				}
			})
			if err := w.conn.Open(t.Context(), hsms.OpenBackground); err != nil {
				t.Fatal(err)
			}
			p, err := w.peerUp(time.Second)
			if err != nil {
				t.Fatal(err)
			}
			if err := w.selectAsPeer(p, 77); err != nil {
				t.Fatal(err)
			}
			if w.conn.State() != hsms.SelectedState {
				t.Fatalf("state %v", w.conn.State())
			}
			_ = p.Send(e37.DataFrame(0xffff, 1, 1, true, 1234, nil))
			f, ok := p.WaitFrame(0, func(f e37.Frame) bool { return f.IsData() }, time.Second)
			if !ok {
				t.Fatalf("no reply\n%s", p.Transcript())
			}
			t.Logf("active=%v reply %v at %v", active, f.F, f.At)
			start := time.Now()
			_, err = w.conn.SendDataMessage(t.Context(), 1, 3, true, secs2.A("x"))
			t.Logf("send err=%v after %v", err, time.Since(start))
			if !barrier(p, 1, time.Second) {
				t.Fatal("barrier")
			}
			if err := w.conn.Close(); err != nil {
				t.Fatal(err)
			}
			p.Close()
			t.Logf("%s", p.Transcript())
		}
	})
}
