package props

// C17: SECS-I sends well-formed E4 blocks and delivers only complete messages.
//   TestC17Blocks     pure: the real splitter / block parser vs ref/e4 over generated messages and
//                     mutated block images (hook).
//   TestC17Assembler  pure: generated inbound block sequences with an injected clock through the REAL
//                     assembler (hook) vs the reference E4 section 9.4 assembler.
//   TestC17Line       end to end in virtual time: a real secs1 connection (host/equipment x
//                     active/passive) against the reference line peer, both directions.

import (
	"bytes"
	"context"
	"fmt"
	"strings"
	"sync"
	"testing"
	"testing/synctest"
	"time"

	"github.com/arloliu/go-secs/v2/hsms"
	"github.com/arloliu/go-secs/v2/secs1"
	"github.com/arloliu/go-secs/v2/secs2"
	"pgregory.net/rapid"
	"verif/harness/ev"
	"verif/harness/ref/e4"
	"verif/harness/ref/e5"
	"verif/harness/vt"
)

var c17Lengths = []int{0, 2, 3, 243, 244, 245, 246, 487, 488, 489, 490, 731, 732, 733, 976, 977}

// binaryOfEncodedLen returns a binary item whose SECS-II encoding is exactly n bytes (n = 0: no body).
func binaryOfEncodedLen(n int) (secs2.Item, []byte) {
	if n == 0 {
		return secs2.NewEmptyItem(), nil
	}
	payload := n - 2
	if payload > 255 {
		payload = n - 3
	}
	if payload < 0 {
		payload = 0
	}
	b := make([]byte, payload)
	for i := range b {
		b[i] = byte(i*7 + 1)
	}
	return secs2.B(b), e5.Encode(e5.Value{FC: e5.Binary, Bytes: b})
}

func genBodyLen(rt *rapid.T, max int) int {
	if rapid.IntRange(0, 2).Draw(rt, "boundaryLen") > 0 {
		return rapid.SampledFrom(c17Lengths).Draw(rt, "len")
	}
	n := rapid.IntRange(2, max).Draw(rt, "lenAny")
	if n == 258 { // 2-byte length header: 258 is not reachable (255+2=257, 256+3=259)
		n = 259
	}
	return n
}

func TestC17Blocks(t *testing.T) {
	ev.Rule("messages over (device 0..0x7FFF, direction, stream, function, W, system bytes, body length 0..8 KiB biased to 243/244/245/488/489/732/733) through the real splitBody+appendTo, compared block image by block image with ref/e4.Split (<= 244 body bytes, numbers 1..N, E-bit on the last only, checksum = 16-bit sum of header+body); block images with flipped characters, wrong length bytes, truncation and extension through the real parseBlock vs ref/e4.Parse; non-trivial = the message spans >= 2 blocks or the image was mutated")
	vt.Check(t, 20000, 500000, func(rt *rapid.T) {
		m := e4.Message{Device: uint16(rapid.IntRange(0, 0x7fff).Draw(rt, "device")), R: rapid.Bool().Draw(rt, "r"), Stream: byte(rapid.IntRange(0, 127).Draw(rt, "stream")),
			W: rapid.Bool().Draw(rt, "w"), Function: rapid.Byte().Draw(rt, "function"), Sys: genHeaderWord32(rt, "sys")}
		n := genBodyLen(rt, 8192)
		m.Body = make([]byte, n)
		for i := range m.Body {
			m.Body[i] = byte(rapid.IntRange(0, 255).Draw(rt, "fill")) + byte(i)
			if i > 8 {
				m.Body[i] = byte(i * 13)
			}
		}
		got, err := secs1.VerifSplit(m.Device, m.R, m.Stream, m.Function, m.W, sysArr(m.Sys), m.Body)
		if err != nil {
			rt.Fatalf("C17 violated: splitting a valid message failed: %v", err)
		}
		want := e4.Split(m)
		if len(got) != len(want) {
			rt.Fatalf("C17 violated: %d-byte body split into %d blocks, E4 prescribes %d", n, len(got), len(want))
		}
		var body []byte
		for i := range want {
			if !bytes.Equal(got[i], want[i].Bytes()) {
				rt.Fatalf("C17 violated: block %d of a %d-byte message:\n got  %x\n want %x", i+1, n, trunc(got[i]), trunc(want[i].Bytes()))
			}
			blk, perr := e4.Parse(got[i])
			if perr != nil || len(blk.Body) > 244 || int(blk.Number) != i+1 || blk.E != (i == len(want)-1) {
				rt.Fatalf("C17 violated: block %d is not a well-formed E4 block (%v, %v)", i+1, blk, perr)
			}
			body = append(body, blk.Body...)
		}
		if !bytes.Equal(body, m.Body) {
			rt.Fatalf("C17 violated: block bodies do not concatenate to the message body")
		}
		// parser differential on a mutated image of one block
		img := append([]byte(nil), got[rapid.IntRange(0, len(got)-1).Draw(rt, "which")]...)
		mut := rapid.SampledFrom([]string{"none", "flip", "length", "truncate", "extend"}).Draw(rt, "mutation")
		switch mut {
		case "flip":
			img[rapid.IntRange(0, len(img)-1).Draw(rt, "at")] ^= byte(1 << rapid.IntRange(0, 7).Draw(rt, "bit"))
		case "length":
			img[0] = rapid.Byte().Draw(rt, "lengthByte")
		case "truncate":
			img = img[:rapid.IntRange(0, len(img)-1).Draw(rt, "cut")]
		case "extend":
			img = append(img, rapid.Byte().Draw(rt, "extra"))
		}
		rb, rerr := e4.Parse(img)
		hdr, pbody, perr := secs1.VerifParseBlock(img)
		if (perr == nil) != (rerr == nil) {
			rt.Fatalf("C17 violated: parseBlock(%x) error=%v, E4 reference error=%v", trunc(img), perr, rerr)
		}
		if perr == nil && (hdr != rb.Header() || !bytes.Equal(pbody, rb.Body)) {
			rt.Fatalf("C17 violated: parseBlock(%x) header %x body %d bytes, reference %x / %d", trunc(img), hdr, len(pbody), rb.Header(), len(rb.Body))
		}
		ev.Case(len(want) >= 2 || mut != "none", fmt.Sprint(m.Device, m.R, m.Stream, m.Function, m.W, m.Sys, n, mut, len(img)), func() any {
			return fmt.Sprintf("S%dF%d W=%v dev=%d R=%v body=%dB -> %d blocks; parser mutation %s", m.Stream, m.Function, m.W, m.Device, m.R, n, len(want), mut)
		}, fmt.Sprintf("c17:blocks:%d", min(len(want), 4)), "c17:parse:"+mut)
	})
}

// --- inbound block sequences -------------------------------------------------------------------

type c17Event struct {
	blk   e4.Block
	gap   time.Duration // time before the block
	what  string
	raw   []byte // nil: well-formed image of blk; else a corrupted image (line level)
	valid bool
}

// genInbound draws a block sequence over the alphabet of the statement.
func genInbound(rt *rapid.T, device uint16, toEquip bool, t4 time.Duration, allowCorrupt bool) []c17Event {
	n := rapid.IntRange(1, 25).Draw(rt, "events")
	var out []c17Event
	var cur []e4.Block // remaining blocks of the message being sent
	var lastSent *e4.Block
	sys := uint32(rapid.IntRange(1, 1<<20).Draw(rt, "sys0"))
	newMsg := func() {
		sys++
		k := rapid.IntRange(1, 4).Draw(rt, "msgBlocks")
		blen := (k-1)*244 + rapid.IntRange(0, 244).Draw(rt, "lastLen")
		if k > 1 && blen == (k-1)*244 {
			blen++
		}
		body := make([]byte, blen)
		for i := range body {
			body[i] = byte(int(sys) + i)
		}
		cur = e4.Split(e4.Message{Device: device, R: !toEquip, Stream: byte(rapid.IntRange(0, 127).Draw(rt, "stream")), W: rapid.Bool().Draw(rt, "w"),
			Function: rapid.Byte().Draw(rt, "function"), Sys: sys, Body: body})
	}
	for len(out) < n {
		if len(cur) == 0 {
			newMsg()
		}
		e := c17Event{valid: true}
		switch k := rapid.IntRange(0, 19).Draw(rt, "eventKind"); {
		case k < 9:
			e.blk, e.what = cur[0], "next"
			cur = cur[1:]
		case k == 9 && lastSent != nil:
			e.blk, e.what = *lastSent, "duplicate"
		case k == 10 && len(cur) > 1:
			e.blk, e.what = cur[1], "skipped-number"
			cur = cur[2:]
		case k == 11:
			e.blk, e.what = cur[0], "changed-header"
			switch rapid.IntRange(0, 3).Draw(rt, "field") {
			case 0:
				e.blk.Stream ^= 1
			case 1:
				e.blk.Function++
			case 2:
				e.blk.Sys ^= 0x100
			default:
				e.blk.W = !e.blk.W
			}
			cur = cur[1:]
		case k == 12:
			e.blk, e.what = cur[0], "wrong-device"
			e.blk.Device = (e.blk.Device + 1 + uint16(rapid.IntRange(0, 100).Draw(rt, "devOff"))) & 0x7fff
			if e.blk.Device == device {
				e.blk.Device ^= 1
			}
		case k == 13:
			e.blk, e.what = cur[0], "wrong-direction"
			e.blk.R = !e.blk.R
		case k == 14:
			e.blk, e.what = cur[0], "block-0"
			e.blk.Number = 0
			if rapid.Bool().Draw(rt, "lone") {
				e.blk.E = true
				e.what = "block-0-lone"
			} else {
				e.blk.E = false
			}
			cur = nil
		case k == 15:
			e.blk, e.what = cur[0], "next-after-T4"
			e.gap = 3 * t4
			cur = cur[1:]
		case k == 16:
			// abandon the message in progress and start another
			newMsg()
			e.blk, e.what = cur[0], "new-message"
			cur = cur[1:]
		case k == 17 && allowCorrupt:
			e.blk, e.what, e.valid = cur[0], "bad-checksum", false
			e.raw = e.blk.Bytes()
			e.raw[len(e.raw)-1] ^= 0x55
		case k == 18 && allowCorrupt && rapid.Bool().Draw(rt, "shortLen"):
			// the length character is corrupted DOWNWARD (still >= 10): the receiver reads fewer
			// characters than were sent, the checksum fails, and what is left on the line - here ENQ
			// and the complete image of another well-formed block addressed to the receiver - is the
			// rest of THIS transmission, not new traffic: nothing of it may be acknowledged or delivered
			ghost := e4.Split(e4.Message{Device: device, R: !toEquip, Stream: 9, Function: 9, Sys: 0x6805aaaa, Body: []byte{0x41, 0x05, 'G', 'H', 'O', 'S', 'T'}})[0].Bytes()
			blk := cur[0]
			blk.Body = append(append([]byte{0x21, byte(2 + len(ghost))}, 0x05), ghost...)
			blk.Body = append(blk.Body, 0x00)
			e.blk, e.what, e.valid = blk, "short-length-with-ghost", false
			e.raw = blk.Bytes()
			e.raw[0] = 10 + byte(rapid.IntRange(0, 3).Draw(rt, "shortBy"))
		case k == 18 && allowCorrupt:
			e.blk, e.what, e.valid = cur[0], "bad-length", false
			e.raw = e.blk.Bytes()
			e.raw[0] = rapid.SampledFrom([]byte{0, 5, 9, 255}).Draw(rt, "badLen")
		default:
			e.blk, e.what = cur[0], "next"
			cur = cur[1:]
		}
		if e.gap == 0 {
			// mostly quick; sometimes a long gap that is still inside T4 - several of those in one message
			// add up to more than T4, and T4 counts from the PREVIOUS block, not from the first
			switch g := rapid.IntRange(0, 9).Draw(rt, "gapKind"); {
			case g == 0:
				e.gap = t4 * 6 / 10
			case g == 1:
				e.gap = t4 * 8 / 10
			case g == 2 && !allowCorrupt: // injected clock only: the line's 10 ms poll blurs the last millisecond
				e.gap = t4 - time.Millisecond
			case g == 3 && !allowCorrupt:
				e.gap, e.what = t4+time.Millisecond, e.what+"+just-past-T4"
			default:
				e.gap = time.Duration(rapid.IntRange(0, 20).Draw(rt, "gapMs")) * time.Millisecond
			}
		}
		if e.valid {
			b := e.blk
			lastSent = &b
		}
		out = append(out, e)
	}
	return out
}

func frameOf(m *e4.Message) []byte {
	h := []byte{byte(m.Device >> 8), byte(m.Device), m.Stream & 0x7f, m.Function, 0, 0, byte(m.Sys >> 24), byte(m.Sys >> 16), byte(m.Sys >> 8), byte(m.Sys)}
	if m.W {
		h[2] |= 0x80
	}
	return append(h, m.Body...)
}

func TestC17Assembler(t *testing.T) {
	ev.Rule("inbound block sequences (1-25 events over: valid next, duplicate of the last accepted block, skipped number, changed header field mid-message, wrong device, wrong direction, block 0 lone / non-lone, next block after a 3xT4 gap, a new message cutting in; gaps of 0-20 ms, 0.6 T4, 0.8 T4, T4 - 1 ms, T4 + 1 ms, so that one message may take longer than T4 in total) with an injected clock through the REAL assembler (hook), both roles; oracle: the delivered messages equal, byte for byte and in order, those of the reference E4 section 9.4 assembler; non-trivial = a message spans >= 2 blocks, or >= 1 non-valid block is followed by a delivered message")
	vt.Check(t, 20000, 500000, func(rt *rapid.T) {
		device := uint16(rapid.IntRange(0, 0x7fff).Draw(rt, "device"))
		isEquip := rapid.Bool().Draw(rt, "equip")
		t4 := 150 * time.Millisecond
		evs := genInbound(rt, device, isEquip, t4, false)
		real := secs1.NewVerifAssembler(device, isEquip, t4)
		ref := &e4.Assembler{Device: device, IsEquip: isEquip, T4: t4}
		now := real.Now
		var want [][]byte
		var hist []string
		multi, badThenGood, sawBad := false, false, false
		for i, e := range evs {
			now = now.Add(e.gap)
			real.Now = now
			if err := real.AcceptRaw(e.blk.Bytes()); err != nil {
				rt.Fatalf("C17 violated: the assembler path rejected a well-formed block %v: %v", e.blk, err)
			}
			msg, rule := ref.Accept(e.blk, now)
			hist = append(hist, fmt.Sprintf("+%v %s %v => %s", e.gap, e.what, e.blk, rule))
			if msg != nil {
				want = append(want, frameOf(msg))
				if len(msg.Body) > 244 {
					multi = true
				}
				if sawBad {
					badThenGood = true
				}
			}
			if e.what != "next" && e.what != "new-message" {
				sawBad = true
			}
			if len(real.Delivered) != len(want) {
				rt.Fatalf("C17 violated: after event %d the assembler has delivered %d messages, E4 prescribes %d\n  %s", i, len(real.Delivered), len(want), strings.Join(hist, "\n  "))
			}
			if k := len(want); k > 0 && !bytes.Equal(real.Delivered[k-1], want[k-1]) {
				rt.Fatalf("C17 violated: message %d delivered altered:\n got  %x\n want %x\n  %s", k, trunc(real.Delivered[k-1]), trunc(want[k-1]), strings.Join(hist, "\n  "))
			}
		}
		cls := map[string]bool{}
		for _, e := range evs {
			cls["c17a:"+e.what] = true
		}
		var cl []string
		for k := range cls {
			cl = append(cl, k)
		}
		ev.Case(multi || badThenGood, strings.Join(hist, "|"), func() any { return hist }, cl...)
	})
}

// --- end to end --------------------------------------------------------------------------------

type s1Deliveries struct {
	mu sync.Mutex
	d  [][]byte
}

func (d *s1Deliveries) handler(m *hsms.DataMessage, _ hsms.SECS2Endpoint) {
	h := m.HeaderBytes()
	f := append(h[:], m.AppendBodyTo(nil)...)
	d.mu.Lock()
	d.d = append(d.d, f)
	d.mu.Unlock()
}

func (d *s1Deliveries) snapshot() [][]byte {
	d.mu.Lock()
	defer d.mu.Unlock()
	return append([][]byte(nil), d.d...)
}

func TestC17Line(t *testing.T) {
	ev.Rule("a real secs1 connection (host/equipment x active/passive, device id 0..0x7FFF) against the reference E4 line peer in virtual time (T1 50 ms, T2 150 ms, T4 150 ms). Outbound: messages with body lengths 0, 2, 243..246, 487..490, 731..733, 976, 977 and drawn lengths to 8 KiB, every stream/function/W/system-bytes value, sent by SendDataMessage and ForwardDataMessage, with the peer NAK-ing a drawn block once; every acknowledged block image must equal the reference split. Inbound (optionally after T4 was changed at runtime to 60 / 400 ms through UpdateConfigOptions): block sequences over the statement's alphabet plus bad checksum / bad length images (incl. a length character lowered so that ENQ and a complete ghost block image are left over on the line), sent character by character by the peer; well-formed blocks must be ACKed, corrupt ones NAKed, the handler must receive exactly the messages of the reference assembler, and afterwards the link must still be Selected and deliver a probe message. Duplex (library = host): the application starts a send between two blocks of an inbound 2-4 block message, the peer (master) contends, the remaining inbound blocks are taken inside the library's yielded send; the inbound message must be delivered once and intact and the postponed send must follow with reference block images; non-trivial = a message spans >= 2 blocks or a non-valid block is followed by a delivered message")
	vt.Bubble(t, func(t *testing.T) {
		vt.CheckBubble(t, 6000, 300000, func(rt *rapid.T) { runC17Line(rt) })
	})
}

func runC17Line(rt *rapid.T) {
	active, equip := rapid.Bool().Draw(rt, "active"), rapid.Bool().Draw(rt, "equip")
	device := uint16(rapid.IntRange(0, 0x7fff).Draw(rt, "device"))
	const T1, T2, T4 = 50 * time.Millisecond, 150 * time.Millisecond, 150 * time.Millisecond
	w, err := newS1World(s1Opt{active: active, equip: equip, device: device, opts: []secs1.Option{secs1.WithT1(T1), secs1.WithT2(T2), secs1.WithT4(T4), secs1.WithRetryLimit(3),
		secs1.WithConnectionOption(hsms.WithT3(time.Second)), secs1.WithConnectionOption(hsms.WithT5(50 * time.Millisecond)), secs1.WithConnectionOption(hsms.WithCloseTimeout(2 * time.Second))}})
	if err != nil {
		rt.Fatalf("VERIF-INFRA: %v", err)
	}
	dl := &s1Deliveries{}
	w.conn.AddDataMessageHandler(dl.handler)
	var p *e4.Peer
	defer func() {
		_ = w.conn.Close()
		if p != nil {
			_ = p.C.Close()
		}
		if w.ln != nil {
			_ = w.ln.Close()
		}
		synctest.Wait()
	}()
	if err := w.conn.Open(context.Background(), hsms.OpenBackground); err != nil {
		rt.Fatalf("VERIF-INFRA: open: %v", err)
	}
	c, err := w.lineUp(time.Second)
	if err != nil {
		rt.Fatalf("VERIF-INFRA: %v", err)
	}
	p = &e4.Peer{C: c, IsMaster: !equip, T1: T1, T2: T2}
	if !waitState(w.conn, hsms.SelectedState, time.Second) {
		rt.Fatalf("C17 violated: the SECS-I connection never reported Selected on a live line")
	}
	fail := func(f string, a ...any) {
		rt.Fatalf("C17 violated (active=%v equip=%v device=%d): %s\nline:\n  %s", active, equip, device, fmt.Sprintf(f, a...), strings.Join(p.Trace, "\n  "))
	}
	nontrivial := false
	var cls []string
	parts := []string{"outbound", "inbound"}
	if !equip {
		parts = append(parts, "duplex") // the library is the host (slave): it yields when both ends request the line
	}
	part := rapid.SampledFrom(parts).Draw(rt, "direction")
	if part == "duplex" {
		// An inbound multi-block message is under way when the application starts a send: the library
		// requests the line, the equipment (master, the peer) contends with the ENQ of its NEXT block,
		// the library yields and takes that block inside its own send. The block belongs to the message
		// begun on the idle line: it must be assembled with the earlier blocks, and the postponed send
		// must follow, block images unchanged.
		nb := rapid.IntRange(2, 4).Draw(rt, "inboundBlocks")
		after := rapid.IntRange(1, nb-1).Draw(rt, "sendStartsAfterBlock")
		inBody := make([]byte, (nb-1)*244+rapid.IntRange(1, 244).Draw(rt, "lastLen"))
		for i := range inBody {
			inBody[i] = byte(i*7 + nb)
		}
		in := e4.Message{Device: device, R: true, Stream: 5, Function: 1, W: false, Sys: 0x51000000 | uint32(nb)<<8 | uint32(after), Body: inBody}
		inBlocks := e4.Split(in)
		n := genBodyLen(rt, 1200)
		item, enc := binaryOfEncodedLen(n)
		out := e4.Message{Device: device, R: false, Stream: 6, Function: 11, Body: enc}
		p.Respond = nil
		errCh := make(chan error, 1)
		for i, b := range inBlocks {
			if i == after {
				go func() {
					ctx, cancel := ctxT(10 * time.Second)
					defer cancel()
					_, serr := w.conn.SendDataMessage(ctx, out.Stream, out.Function, false, item)
					errCh <- serr
				}()
				time.Sleep(25 * time.Millisecond) // the line engine picks the request up and writes its ENQ
				synctest.Wait()
			}
			if i >= after && rapid.IntRange(0, 2).Draw(rt, "corruptInYield") == 0 {
				// the master's block arrives damaged INSIDE the yield (bad checksum, or a shortened length
				// character with the rest of the block left on the line): NAK, and the retransmission
				// follows; whatever the receive path does with its buffers meanwhile, the library's own
				// postponed block must still go out unchanged afterwards
				raw := b.Bytes()
				if rapid.Bool().Draw(rt, "shortLen") && raw[0] > 12 {
					raw[0] = 10 + byte(rapid.IntRange(0, 2).Draw(rt, "shortBy"))
				} else {
					raw[len(raw)-1] ^= 0x55
				}
				if res := p.SendRaw(raw, nil); res.Err != nil || res.Resp != e4.NAK {
					fail("a damaged block sent inside the library's yield was answered %+v, want NAK", res)
				}
				cls = append(cls, "c17l:duplex:corrupt-in-yield")
			}
			res := p.SendRaw(b.Bytes(), nil)
			if res.Err != nil || !res.Granted || res.Resp != e4.ACK {
				fail("inbound block %d of %d (the library's own send started after block %d): %+v", i+1, len(inBlocks), after, res)
			}
		}
		synctest.Wait()
		got := dl.snapshot()
		if len(got) != 1 {
			fail("an inbound %d-block message whose blocks %d.. were taken while the library was itself requesting the line was delivered %d times", len(inBlocks), after+1, len(got))
		}
		if want := frameOf(&in); !bytes.Equal(got[0], want) {
			fail("the inbound message was delivered altered:\n got  %x\n want %x", trunc(got[0]), trunc(want))
		}
		// now the postponed send
		blocks, rerr := p.ReceiveMessage(2 * time.Second)
		serr := <-errCh
		if serr != nil || rerr != nil {
			fail("the send postponed by the contention failed: send=%v peer=%v", serr, rerr)
		}
		out.Sys = blocks[0].Sys
		ref := e4.Split(out)
		if len(blocks) != len(ref) {
			fail("the postponed %d-byte message arrived in %d blocks, E4 prescribes %d", n, len(blocks), len(ref))
		}
		for j := range ref {
			if !bytes.Equal(blocks[j].Bytes(), ref[j].Bytes()) {
				fail("block %d of the postponed message: got %v, E4 prescribes %v", j+1, blocks[j], ref[j])
			}
		}
		synctest.Wait()
		if got := dl.snapshot(); len(got) != 1 {
			fail("%d messages delivered after the duplex exchange, expected 1", len(got))
		}
		nontrivial = true
		cls = append(cls, fmt.Sprintf("c17l:duplex:inbound-blocks:%d", nb))
	} else if part == "outbound" {
		k := rapid.IntRange(1, 3).Draw(rt, "messages")
		for i := 0; i < k; i++ {
			n := genBodyLen(rt, 8192)
			item, enc := binaryOfEncodedLen(n)
			stream, function := byte(rapid.IntRange(0, 127).Draw(rt, "stream")), rapid.Byte().Draw(rt, "function")
			via := rapid.SampledFrom([]string{"send", "forward"}).Draw(rt, "via")
			want := e4.Message{Device: device, R: equip, Stream: stream, Function: function, Body: enc}
			nakBlock := -1
			nblocks := len(e4.Split(want))
			if rapid.IntRange(0, 2).Draw(rt, "nakOne") == 0 {
				nakBlock = rapid.IntRange(0, nblocks-1).Draw(rt, "nakWhich")
			}
			naked := false
			acked := 0
			p.Respond = func(rb e4.RecvBlock) byte {
				if rb.Err != nil {
					return e4.NAK
				}
				if acked == nakBlock && !naked {
					naked = true
					return e4.NAK
				}
				acked++
				return e4.ACK
			}
			errCh := make(chan error, 1)
			go func() {
				ctx, cancel := ctxT(10 * time.Second)
				defer cancel()
				if via == "forward" {
					want.W = function%2 == 1
					want.Sys = 0xF0000000 | uint32(i)<<8 | uint32(function)
					m, merr := hsms.NewDataMessage(stream, function, want.W, 0x7777, sysArr(want.Sys), item)
					if merr != nil {
						errCh <- fmt.Errorf("VERIF-INFRA: %w", merr)
						return
					}
					errCh <- w.conn.ForwardDataMessage(ctx, m)
					return
				}
				_, serr := w.conn.SendDataMessage(ctx, stream, function, false, item)
				errCh <- serr
			}()
			blocks, rerr := p.ReceiveMessage(2 * time.Second)
			serr := <-errCh
			if serr != nil || rerr != nil {
				fail("sending a %d-byte message failed: send=%v peer=%v", n, serr, rerr)
			}
			if via == "send" {
				want.Sys = blocks[0].Sys // library-chosen
			}
			ref := e4.Split(want)
			if len(blocks) != len(ref) {
				fail("a %d-byte body arrived in %d blocks, E4 prescribes %d", n, len(blocks), len(ref))
			}
			for j := range ref {
				if !bytes.Equal(blocks[j].Bytes(), ref[j].Bytes()) {
					fail("block %d of a %d-byte S%dF%d message: got %v (%x), E4 prescribes %v (%x)", j+1, n, stream, function, blocks[j], trunc(blocks[j].Bytes()), ref[j], trunc(ref[j].Bytes()))
				}
			}
			// every transmission attempt on the line (including the NAK-ed one) must be a correct image
			for _, rb := range p.Received {
				if rb.Err != nil {
					fail("the library transmitted a malformed block image: %v (%x)", rb.Err, trunc(rb.Raw))
				}
			}
			if nakBlock >= 0 && !naked {
				fail("harness: the planned NAK was never applied")
			}
			p.Received = nil
			if len(ref) >= 2 {
				nontrivial = true
			}
			cls = append(cls, fmt.Sprintf("c17l:out:blocks:%d", min(len(ref), 4)), "c17l:out:"+via)
			if nakBlock >= 0 {
				cls = append(cls, "c17l:out:nak-retry")
			}
		}
	} else {
		p.Respond = nil
		// T4 may be re-configured on the live connection: the assembler must follow the live value
		liveT4 := T4
		if rapid.IntRange(0, 2).Draw(rt, "retuneT4") == 0 {
			liveT4 = time.Duration(rapid.SampledFrom([]int{60, 400}).Draw(rt, "liveT4Ms")) * time.Millisecond
			if err := w.conn.UpdateConfigOptions(hsms.WithT4(liveT4)); err != nil {
				fail("UpdateConfigOptions(WithT4(%v)) on a live SECS-I connection: %v", liveT4, err)
			}
			cls = append(cls, "c17l:t4-changed-at-runtime")
		}
		evs := genInbound(rt, device, equip, liveT4, true)
		ref := &e4.Assembler{Device: device, IsEquip: equip, T4: liveT4}
		var want [][]byte
		sawBad := false
		for i, e := range evs {
			if e.gap > 0 {
				if err := p.Idle(e.gap); err != nil {
					fail("line error while idle: %v", err)
				}
			}
			raw := e.raw
			if raw == nil {
				raw = e.blk.Bytes()
			}
			res := p.SendRaw(raw, nil)
			if res.Err != nil || !res.Granted {
				fail("event %d (%s %v): the library did not take the block: %+v", i, e.what, e.blk, res)
			}
			if e.valid {
				if res.Resp != e4.ACK {
					fail("event %d: a well-formed block (%s %v) was answered %#x, not ACK", i, e.what, e.blk, res.Resp)
				}
				msg, _ := ref.Accept(e.blk, time.Now())
				if msg != nil {
					want = append(want, frameOf(msg))
					if len(msg.Body) > 244 || sawBad {
						nontrivial = true
					}
				}
				if e.what != "next" && e.what != "new-message" {
					sawBad = true
				}
			} else {
				sawBad = true
				if res.Resp != e4.NAK {
					fail("event %d: a corrupt block image (%s) was answered %#x, not NAK", i, e.what, res.Resp)
				}
			}
			cls = append(cls, "c17l:in:"+e.what)
			synctest.Wait()
			got := dl.snapshot()
			if len(got) != len(want) {
				fail("after event %d (%s %v) %d messages were delivered, E4 prescribes %d", i, e.what, e.blk, len(got), len(want))
			}
			if k := len(want); k > 0 && !bytes.Equal(got[k-1], want[k-1]) {
				fail("message %d was delivered altered:\n got  %x\n want %x", k, trunc(got[k-1]), trunc(want[k-1]))
			}
		}
		// the link is still up and delivers a final probe
		if err := p.Idle(30 * time.Millisecond); err != nil {
			fail("line error: %v", err)
		}
		if got := w.conn.State(); got != hsms.SelectedState {
			fail("State()=%v after the block sequence: the link was taken down", got)
		}
		probe := e4.Split(e4.Message{Device: device, R: !equip, Stream: 1, Function: 1, Sys: 0x7fffff01, Body: []byte{0x21, 0x01, 0xaa}})[0]
		if time.Since(time.Time{}) > 0 {
			time.Sleep(4 * max(T4, liveT4)) // any stale partial is past T4 now
		}
		res := p.SendRaw(probe.Bytes(), nil)
		if res.Resp != e4.ACK {
			fail("the final probe block was not acknowledged: %+v", res)
		}
		synctest.Wait()
		got := dl.snapshot()
		if len(got) != len(want)+1 {
			fail("the final probe message was not delivered (%d deliveries, expected %d)", len(got), len(want)+1)
		}
	}
	role := "host"
	if equip {
		role = "equipment"
	}
	cls = append(cls, "c17l:"+part, "c17l:role:"+role)
	ev.Case(nontrivial, strings.Join(p.Trace, "|")+fmt.Sprint(device, active, equip), func() any {
		tr := p.Trace
		if len(tr) > 40 {
			tr = tr[:40]
		}
		return map[string]any{"role": role, "active": active, "device": device, "direction": part, "line": tr}
	}, cls...)
}
