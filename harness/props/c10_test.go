package props

// C10: Open/Close from any state. This check runs in REAL time (no synctest bubble): the calls it
// overlaps contend on the connection's lifecycle mutex while a timer must fire, which a bubble
// cannot schedule. Timers are small (tens of ms) and every timing assertion is an upper bound with
// seconds of slack; leak detectors poll with a grace period.

import (
	"context"
	"errors"
	"fmt"
	"runtime"
	"strings"
	"sync"
	"testing"
	"time"

	"github.com/arloliu/go-secs/v2/hsms"
	"github.com/arloliu/go-secs/v2/secs1"
	"github.com/arloliu/go-secs/v2/secs2"
	"pgregory.net/rapid"
	"verif/harness/ev"
	"verif/harness/netsim"
	"verif/harness/ref/e37"
	"verif/harness/ref/e4"
	"verif/harness/vt"
)

const (
	c10CloseTimeout = time.Second
	c10MaxLag       = 100 * time.Millisecond // see runC10.fail
	c10Bound        = 4 * time.Second        // any single call: closeTimeout + lock waits + scheduling slack
)

// libGoroutines returns the stacks of goroutines that are executing library code.
func libGoroutines() []string {
	buf := make([]byte, 4<<20)
	n := runtime.Stack(buf, true)
	var out []string
	for _, g := range strings.Split(string(buf[:n]), "\n\n") {
		if strings.Contains(g, "github.com/arloliu/go-secs/v2/hsms") || strings.Contains(g, "github.com/arloliu/go-secs/v2/secs1") {
			// harness goroutines that merely CALL into the library are not leaks of the library
			if strings.Contains(g, "verif/harness/props.") {
				continue
			}
			out = append(out, g)
		}
	}
	return out
}

type c10Op struct {
	kind string
	pre  time.Duration
}

type c10Done struct {
	g, i     int
	kind     string
	err      error
	dur      time.Duration
	start    time.Time
	finished time.Time
}

// lifeW is the transport-independent view of a library connection that the lifecycle check needs.
type lifeW struct {
	nw       *netsim.Net
	addr     string
	active   bool
	secs1    bool
	equip    bool
	conn     hsms.Connection
	ln       *netsim.Listener
	leakedFn func() []string
}

func (w *lifeW) leaked() []string { return w.leakedFn() }

func (w *lifeW) listen() error {
	l, err := w.nw.Listen(w.addr)
	if err != nil {
		return err
	}
	w.ln = l
	return nil
}

// c10Serve plays the cooperative side of one established link until the library ends it or stop closes.
func c10Serve(w *lifeW, c *netsim.Conn, behaviour string, round int, stop <-chan struct{}) {
	if w.secs1 {
		// a live line IS the session; the reference line peer grants and acknowledges whatever is sent
		ep := &e4.Peer{C: c, IsMaster: !w.equip, T1: 40 * time.Millisecond, T2: 100 * time.Millisecond}
		deadline := time.Now().Add(time.Hour)
		switch behaviour {
		case "drop":
			deadline = time.Now().Add(40 * time.Millisecond)
		case "flap":
			deadline = time.Now().Add(8 * time.Millisecond)
		}
		for time.Now().Before(deadline) {
			select {
			case <-stop:
				_ = c.Close()
				return
			default:
			}
			if behaviour == "silent" {
				time.Sleep(5 * time.Millisecond)
				b := make([]byte, 64)
				_ = c.SetReadDeadline(time.Now().Add(5 * time.Millisecond))
				if _, err := c.Read(b); err != nil && !strings.Contains(err.Error(), "timeout") {
					break
				}
				continue
			}
			if _, _, err := ep.ServeOne(10 * time.Millisecond); err != nil {
				break
			}
		}
		_ = c.Close()
		return
	}
	p := netsim.NewPeer(c)
	if !w.active && behaviour != "silent" {
		_ = p.Send(e37.Control(e37.SelectReq, 0xffff, 0, 0, 0x51000000+uint32(round)))
	}
	p.SetAuto(true, behaviour != "silent")
	if behaviour != "silent" {
		p.SetOnFrame(func(f e37.Frame) {
			if f.IsData() && f.WBit() {
				_ = p.Send(e37.DataFrame(f.Session, f.Stream(), f.Function()+1, false, f.Sys, nil))
			}
		})
	}
	switch behaviour {
	case "drop", "flap":
		d := 40 * time.Millisecond
		if behaviour == "flap" {
			d = 8 * time.Millisecond
		}
		select {
		case <-time.After(d):
		case <-stop:
		}
	default:
		done := make(chan struct{})
		go func() { p.WaitEOF(time.Hour); close(done) }()
		select {
		case <-done:
		case <-stop:
		}
	}
	p.Close()
}

// c10Peer plays the drawn peer behaviour until stop is closed.
func c10Peer(w *lifeW, behaviour string, at time.Duration, stop <-chan struct{}, wg *sync.WaitGroup) {
	defer wg.Done()
	select {
	case <-time.After(at):
	case <-stop:
		return
	}
	// The peer keeps going until stop. (It used to give up after 50 connections; a passive endpoint that
	// is tearing a generation down still has its old listener bound for a few ms, every dial to it
	// succeeds and is reset at once, and 50 such connections were used up in 3 ms - before the
	// library listened again. Connections are paced instead: at most one per millisecond.)
	for round := 0; ; {
		select {
		case <-stop:
			return
		default:
		}
		var conn *netsim.Conn
		if w.active {
			if behaviour == "absent" {
				<-stop
				return
			}
			if w.ln == nil || w.ln.Closed() {
				if err := w.listen(); err != nil {
					time.Sleep(5 * time.Millisecond)
					continue
				}
			}
			ln := w.ln
			type res struct {
				c   *netsim.Conn
				err error
			}
			ch := make(chan res, 1)
			go func() {
				c, err := ln.Accept()
				if err != nil {
					ch <- res{nil, err}
					return
				}
				ch <- res{c.(*netsim.Conn), nil}
			}()
			select {
			case r := <-ch:
				if r.err != nil {
					continue
				}
				conn = r.c
			case <-stop:
				_ = ln.Close()
				<-ch
				return
			}
		} else {
			if behaviour == "absent" {
				<-stop
				return
			}
			c, err := w.nw.Dial(context.Background(), w.addr)
			if err != nil {
				select {
				case <-time.After(3 * time.Millisecond):
				case <-stop:
					return
				}
				continue
			}
			conn = c
		}
		began := time.Now()
		c10Serve(w, conn, behaviour, round, stop)
		round++
		if time.Since(began) < time.Millisecond {
			select {
			case <-time.After(time.Millisecond):
			case <-stop:
				return
			}
		}
	}
}

func TestC10Lifecycle(t *testing.T) {
	ev.Rule("1-3 open/close cycles; in each, 1-5 goroutines run 1-3 API calls each (Open blocking with a 250 ms ctx / Open background / Close / reply-expected send with a 150 ms ctx / async send / UpdateConfigOptions valid and invalid / State / Metrics) at drawn offsets 0-60 ms against a peer that is absent, cooperative, silent, drops after 40 ms, or flaps every 8 ms (HSMS-SS and SECS-I, both roles; real time, timers of tens of ms; the dial/listen seams given to the library return 0-40 ms late); oracle: no panic; every call returns within 4 s; then sequentially: Close returns within closeTimeout + 3 s, a second Close returns the same result within 200 ms, State() is NotConnected, no goroutine runs library code after a 2 s grace, every socket and listener handed to the library is closed, no dial/listen happens for 3xT5; a re-Open against a cooperative peer reaches Selected, a second Open returns ErrAlreadyOpen and changes nothing, a round trip works; non-trivial = two API calls of different goroutines overlapped in time (intervals widened by 1 ms)")
	vt.Check(t, 160, 4000, func(rt *rapid.T) { runC10(rt) })
}

func runC10(rt *rapid.T) {
	active := rapid.Bool().Draw(rt, "active")
	useSecs1 := rapid.IntRange(0, 2).Draw(rt, "transport") == 0
	equip := rapid.Bool().Draw(rt, "equip")
	lt := time.Duration(rapid.SampledFrom([]int{0, 50}).Draw(rt, "linktestMs")) * time.Millisecond
	// the library's dial / listen seams return this much late: a Close (or a drop) can then overtake a
	// dial or a bind that is still in flight, and whatever it returns afterwards must not be leaked
	slowSeams := time.Duration(rapid.SampledFrom([]int{0, 0, 2, 15, 40}).Draw(rt, "slowSeamsMs")) * time.Millisecond
	core := []hsms.ConnOption{hsms.WithT3(300 * time.Millisecond), hsms.WithT5(40 * time.Millisecond), hsms.WithCloseTimeout(c10CloseTimeout), hsms.WithReconnectBackoff(10*time.Millisecond, 2)}
	var w *lifeW
	if useSecs1 {
		lt = 0
		var so []secs1.Option
		for _, o := range core {
			so = append(so, secs1.WithConnectionOption(o))
		}
		so = append(so, secs1.WithT1(40*time.Millisecond), secs1.WithT2(100*time.Millisecond), secs1.WithT4(200*time.Millisecond), secs1.WithRetryLimit(1))
		b, err := newS1World(s1Opt{active: active, equip: equip, device: 3, noListen: true, opts: so})
		if err != nil {
			rt.Fatalf("VERIF-INFRA: %v", err)
		}
		w = &lifeW{nw: b.nw, addr: b.addr, active: active, secs1: true, equip: equip, conn: b.conn, leakedFn: b.leaked}
		b.slow.Store(int64(slowSeams))
	} else {
		b, err := newWorld(worldOpt{active: active, equip: equip, noListen: true, connOpts: append(core, hsms.WithT6(150*time.Millisecond), hsms.WithT7(200*time.Millisecond),
			hsms.WithT8(150*time.Millisecond), hsms.WithWriteTimeout(300*time.Millisecond), hsms.WithLinktestInterval(lt))})
		if err != nil {
			rt.Fatalf("VERIF-INFRA: %v", err)
		}
		w = &lifeW{nw: b.nw, addr: b.addr, active: active, equip: equip, conn: b.conn, leakedFn: b.leaked}
		b.slow.Store(int64(slowSeams))
	}
	w.conn.AddDataMessageHandler(func(m *hsms.DataMessage, ep hsms.SECS2Endpoint) {})
	w.conn.AddConnStateChangeHandler(func(prev, next hsms.ConnState) {})
	var hist []string
	var hmu sync.Mutex
	var stop chan struct{}
	var pwg sync.WaitGroup
	cleanup := func() {
		if stop != nil {
			close(stop)
			stop = nil
		}
		// bounded: a Close that hangs has been reported already and must not wedge the run
		cd := make(chan struct{})
		go func() { _ = w.conn.Close(); close(cd) }()
		select {
		case <-cd:
		case <-time.After(c10CloseTimeout + 3*time.Second):
		}
		if w.ln != nil {
			_ = w.ln.Close()
		}
		pwg.Wait()
	}
	defer cleanup()
	// REAL time with timers of tens to hundreds of ms (T3 is 300 ms): if this process was scheduled
	// more than c10MaxLag late during the case, a failure says more about the machine than about the
	// library - it is counted and discarded (see vt.Lag; only failures are affected)
	lag := vt.StartLag()
	defer lag.Stop()
	fail := func(f string, a ...any) {
		hmu.Lock()
		h := strings.Join(hist, "\n  ")
		hmu.Unlock()
		if lag.Max() > c10MaxLag {
			ev.Count("inconclusive_starved_machine", 1)
			rt.Skip(fmt.Sprintf("inconclusive: this process was scheduled %v late (limit %v)", lag.Max(), c10MaxLag))
		}
		rt.Fatalf("C10 violated (secs1=%v active=%v linktest=%v, worst scheduling lag %v): %s\nhistory:\n  %s", useSecs1, active, lt, lag.Max(), fmt.Sprintf(f, a...), h)
	}
	// closeBounded is Close with a watchdog: a Close that does not return is a violation of C10 (not a
	// test timeout), reported with the goroutine dump that shows where it is stuck
	closeBounded := func(what string) (error, time.Duration) {
		st := time.Now()
		ch := make(chan error, 1)
		go func() { ch <- w.conn.Close() }()
		select {
		case err := <-ch:
			return err, time.Since(st)
		case <-time.After(c10CloseTimeout + 3*time.Second):
			buf := make([]byte, 1<<20)
			n := runtime.Stack(buf, true)
			fail("%s has not returned after %v (close timeout %v)\n%s", what, c10CloseTimeout+3*time.Second, c10CloseTimeout, buf[:n])
			return nil, 0
		}
	}
	t0 := time.Now()
	logf := func(f string, a ...any) {
		hmu.Lock()
		hist = append(hist, fmt.Sprintf("+%4dms ", time.Since(t0).Milliseconds())+fmt.Sprintf(f, a...))
		hmu.Unlock()
	}
	cycles := rapid.IntRange(1, 3).Draw(rt, "cycles")
	overlapped := false
	var cls []string
	for cy := 0; cy < cycles; cy++ {
		behaviour := rapid.SampledFrom([]string{"absent", "select", "select", "silent", "drop", "flap"}).Draw(rt, "peer")
		peerAt := time.Duration(rapid.SampledFrom([]int{0, 0, 5, 20, 50}).Draw(rt, "peerAtMs")) * time.Millisecond
		cls = append(cls, "c10:peer:"+behaviour)
		ng := rapid.IntRange(1, 5).Draw(rt, "goroutines")
		progs := make([][]c10Op, ng)
		for g := range progs {
			no := rapid.IntRange(1, 3).Draw(rt, "ops")
			for i := 0; i < no; i++ {
				progs[g] = append(progs[g], c10Op{
					kind: rapid.SampledFrom([]string{"openWait", "openBG", "openBG", "close", "close", "sendW", "sendAsync", "updateValid", "updateInvalid", "state", "metrics"}).Draw(rt, "op"),
					pre:  time.Duration(rapid.SampledFrom([]int{0, 0, 1, 5, 20, 60}).Draw(rt, "preMs")) * time.Millisecond,
				})
			}
		}
		logf("cycle %d: peer=%s at +%v, %d goroutines", cy, behaviour, peerAt, ng)
		stop = make(chan struct{})
		pwg.Add(1)
		go c10Peer(w, behaviour, peerAt, stop, &pwg)
		var dmu sync.Mutex
		var dones []c10Done
		var wg sync.WaitGroup
		for g := range progs {
			wg.Add(1)
			go func(g int) {
				defer wg.Done()
				for i, op := range progs[g] {
					time.Sleep(op.pre)
					st := time.Now()
					var err error
					switch op.kind {
					case "openWait":
						ctx, cancel := ctxT(250 * time.Millisecond)
						err = w.conn.Open(ctx, hsms.OpenWaitSelected)
						cancel()
					case "openBG":
						err = w.conn.Open(context.Background(), hsms.OpenBackground)
					case "close":
						err = w.conn.Close()
					case "sendW":
						ctx, cancel := ctxT(150 * time.Millisecond)
						_, err = w.conn.SendDataMessage(ctx, 1, 1, true, secs2.A("c10"))
						cancel()
					case "sendAsync":
						ctx, cancel := ctxT(150 * time.Millisecond)
						err = w.conn.SendDataMessageAsync(ctx, 1, 3, false, secs2.A("c10"))
						cancel()
					case "updateValid":
						err = w.conn.UpdateConfigOptions(hsms.WithT3(300*time.Millisecond), hsms.WithCloseTimeout(c10CloseTimeout))
						if err != nil {
							err = fmt.Errorf("UNEXPECTED: valid options refused: %w", err)
						}
					case "updateInvalid":
						e := w.conn.UpdateConfigOptions(hsms.WithT3(0), hsms.WithT5(time.Hour))
						if e == nil {
							err = errors.New("UNEXPECTED: invalid options accepted")
						} else if w.conn.(interface {
							Metrics() *hsms.ConnectionMetrics
						}) == nil {
							err = e
						}
					case "state":
						_ = w.conn.State()
					case "metrics":
						m := w.conn.Metrics()
						if m.DataMsgInflightCount() < 0 || m.Reconnecting() < 0 {
							err = fmt.Errorf("UNEXPECTED: negative gauge inflight=%d reconnecting=%d", m.DataMsgInflightCount(), m.Reconnecting())
						}
					}
					d := c10Done{g: g, i: i, kind: op.kind, err: err, dur: time.Since(st), start: st, finished: time.Now()}
					dmu.Lock()
					dones = append(dones, d)
					dmu.Unlock()
					logf("g%d %s -> %v (%v)", g, op.kind, err, d.dur.Round(time.Millisecond))
				}
			}(g)
		}
		allDone := make(chan struct{})
		go func() { wg.Wait(); close(allDone) }()
		select {
		case <-allDone:
		case <-time.After(3 * c10Bound):
			buf := make([]byte, 1<<20)
			n := runtime.Stack(buf, true)
			fail("an API call is still blocked %v after the program started\n%s", 3*c10Bound, buf[:n])
		}
		for _, d := range dones {
			if d.dur > c10Bound {
				fail("g%d %s took %v (bound %v)", d.g, d.kind, d.dur, c10Bound)
			}
			if d.err != nil && strings.HasPrefix(d.err.Error(), "UNEXPECTED") {
				fail("g%d %s: %v", d.g, d.kind, d.err)
			}
		}
		for a := range dones {
			for b := range dones {
				// calls of different goroutines whose intervals intersect (widened by 1 ms: most calls last microseconds)
				if a != b && dones[a].g != dones[b].g && dones[a].start.Before(dones[b].finished.Add(time.Millisecond)) && dones[b].start.Before(dones[a].finished.Add(time.Millisecond)) {
					overlapped = true
				}
			}
		}
		// ---- sequential phase: Close is bounded and idempotent, nothing is left behind ----
		err1, d1 := closeBounded("Close")
		err2, d2 := closeBounded("the second Close")
		logf("Close -> %v (%v); Close again -> %v (%v)", err1, d1.Round(time.Millisecond), err2, d2.Round(time.Millisecond))
		if d1 > c10CloseTimeout+3*time.Second {
			fail("Close took %v, close timeout is %v", d1, c10CloseTimeout)
		}
		if d2 > 200*time.Millisecond {
			fail("the second Close took %v", d2)
		}
		neverOpened := errors.Is(err1, hsms.ErrNotOpen)
		if fmt.Sprint(err1) != fmt.Sprint(err2) {
			fail("the second Close returned %v, the first %v", err2, err1)
		}
		if err1 != nil && !neverOpened {
			fail("Close returned %v although every handler returns", err1)
		}
		if got := w.conn.State(); got != hsms.NotConnectedState {
			fail("State()=%v after Close", got)
		}
		// The peer is STILL THERE and keeps its ends open: a socket the library forgot must be found
		// while nobody else can close it for the library (once the peer hangs up, a forgotten receive
		// loop reads EOF and tidies up after itself).
		settle := func(what string) {
			deadline := time.Now().Add(2 * time.Second)
			for {
				gs := libGoroutines()
				leaked := w.leaked()
				if len(gs) == 0 && len(leaked) == 0 {
					return
				}
				if time.Now().After(deadline) {
					if len(gs) > 0 {
						fail("%d goroutine(s) still run library code 2 s after Close (%s):\n%s", len(gs), what, strings.Join(gs, "\n\n"))
					}
					fail("left open after Close (%s): %v", what, leaked)
				}
				time.Sleep(5 * time.Millisecond)
			}
		}
		settle("the peer still up")
		close(stop)
		stop = nil
		if w.ln != nil {
			_ = w.ln.Close()
		}
		pwg.Wait()
		settle("the peer gone")
		ne := len(w.nw.Events())
		time.Sleep(3 * 40 * time.Millisecond)
		if evs := w.nw.Events(); len(evs) != ne {
			fail("a dial/listen was attempted after Close: %v", evs[ne:])
		}
		if got := w.conn.State(); got != hsms.NotConnectedState {
			fail("State()=%v some time after Close", got)
		}
		// ---- reopen: behaves like a fresh connection ----
		if cy == cycles-1 || rapid.Bool().Draw(rt, "reopenCheck") {
			stop = make(chan struct{})
			pwg.Add(1)
			go c10Peer(w, "select", 0, stop, &pwg)
			ctx, cancel := ctxT(3 * time.Second)
			var oerr error
			if active {
				// an active Open fails synchronously while the peer is not listening yet: retry briefly
				for i := 0; i < 200; i++ {
					if oerr = w.conn.Open(ctx, hsms.OpenWaitSelected); oerr == nil {
						break
					}
					_, _ = closeBounded("Close after a failed re-Open")
					time.Sleep(5 * time.Millisecond)
				}
			} else {
				oerr = w.conn.Open(ctx, hsms.OpenBackground)
				if oerr == nil && !waitState(w.conn, hsms.SelectedState, 3*time.Second) {
					oerr = errors.New("never reached Selected")
				}
			}
			cancel()
			if oerr != nil {
				fail("a closed connection could not be opened again: %v", oerr)
			}
			if e := w.conn.Open(context.Background(), hsms.OpenBackground); !errors.Is(e, hsms.ErrAlreadyOpen) {
				fail("Open on an open connection returned %v, want ErrAlreadyOpen", e)
			}
			if got := w.conn.State(); got != hsms.SelectedState {
				fail("State()=%v after the refused second Open (was Selected)", got)
			}
			c2, cancel2 := ctxT(2 * time.Second)
			if useSecs1 {
				// the reference line peer grants and acknowledges the blocks: the send must succeed
				if _, serr := w.conn.SendDataMessage(c2, 1, 1, false, secs2.A("again")); serr != nil {
					cancel2()
					fail("a send on the reopened SECS-I connection failed: %v", serr)
				}
			} else {
				// (T3 is 300 ms of REAL time here: on a busy machine the harness peer may simply be late;
				// three attempts, one must succeed)
				var rep *hsms.DataMessage
				var serr error
				for attempt := 0; attempt < 3; attempt++ {
					rep, serr = w.conn.SendDataMessage(c2, 1, 1, true, secs2.A("again"))
					if serr == nil || !errors.Is(serr, hsms.ErrT3Timeout) {
						break
					}
				}
				if serr != nil || rep == nil || rep.Function() != 2 {
					cancel2()
					fail("round trip on the reopened connection failed: %v", serr)
				}
			}
			cancel2()
			logf("reopened, round trip ok")
			// a refused Open must have NO side effects - in particular it must not cancel a reconnect
			// that is pending after an involuntary drop
			close(stop)
			stop = nil
			if w.ln != nil {
				_ = w.ln.Close()
			}
			pwg.Wait() // the peer is gone: the link drops
			if !waitState(w.conn, hsms.NotConnectedState, 3*time.Second) {
				fail("State()=%v after the peer went away", w.conn.State())
			}
			time.Sleep(3 * time.Millisecond)
			neDrop := len(w.nw.Events())
			if e := w.conn.Open(context.Background(), hsms.OpenBackground); !errors.Is(e, hsms.ErrAlreadyOpen) {
				fail("Open while reconnecting returned %v, want ErrAlreadyOpen", e)
			}
			stop = make(chan struct{})
			pwg.Add(1)
			go c10Peer(w, "select", 0, stop, &pwg)
			if !waitState(w.conn, hsms.SelectedState, 5*time.Second) {
				fail("after a refused Open during reconnect the connection never came back within 5 s although the peer kept trying (State()=%v; dial/listen events since the refused Open: %v)", w.conn.State(), w.nw.Events()[neDrop:])
			}
			logf("recovered after drop + refused Open")
			if e, _ := closeBounded("Close of the reopened connection"); e != nil {
				fail("Close of the reopened connection: %v", e)
			}
			close(stop)
			stop = nil
			if w.ln != nil {
				_ = w.ln.Close()
			}
			pwg.Wait()
			cls = append(cls, "c10:reopened")
		}
	}
	role := "passive"
	if active {
		role = "active"
	}
	tr := "hsmsss"
	if useSecs1 {
		tr = "secs1"
	}
	cls = append(cls, "c10:role:"+role, fmt.Sprintf("c10:cycles:%d", cycles), "c10:transport:"+tr)
	hmu.Lock()
	h := append([]string(nil), hist...)
	hmu.Unlock()
	ev.Case(overlapped, strings.Join(h, "|"), func() any { return map[string]any{"role": role, "history": h} }, cls...)
}
