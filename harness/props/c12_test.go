package props

// C12: items and messages are immutable, alias-free and safe for concurrent readers. The test
// binary for this check is built with -race. Every item/message is produced through a drawn
// provenance that keeps hold of every slice handed to the library; a full observation snapshot is
// taken by 8 goroutines at once (first use of every lazy path), then again after each caller-side
// scribble over inputs and over every slice any accessor / serializer / append helper returned.

import (
	"bytes"
	"fmt"
	"sync"
	"sync/atomic"
	"testing"

	"github.com/arloliu/go-secs/v2/hsms"
	"github.com/arloliu/go-secs/v2/secs2"
	"pgregory.net/rapid"
	"verif/harness/ev"
	"verif/harness/gen"
	"verif/harness/obs"
	"verif/harness/ref/e37"
	"verif/harness/ref/e5"
	"verif/harness/vt"
)

// buildRetaining constructs v through constructors that take caller slices and returns the item
// together with closures that overwrite every slice the caller still holds.
func buildRetaining(rt *rapid.T, v e5.Value, scribbles *[]func(), nontrivial *bool) secs2.Item {
	keep := func(f func()) { *scribbles = append(*scribbles, f) }
	many := v.Size() >= 2
	switch {
	case v.FC == e5.Empty:
		return secs2.NewEmptyItem()
	case v.FC == e5.List:
		kids := make([]secs2.Item, len(v.List))
		for i, c := range v.List {
			kids[i] = buildRetaining(rt, c, scribbles, nontrivial)
		}
		it := secs2.L(kids...)
		if len(kids) > 0 {
			*nontrivial = true
			keep(func() {
				for i := range kids {
					kids[i] = secs2.A("scribbled")
				}
			})
		}
		return it
	case v.FC == e5.Binary:
		b := append([]byte(nil), v.Bytes...)
		keep(func() {
			for i := range b {
				b[i] ^= 0xff
			}
		})
		*nontrivial = *nontrivial || many
		if rapid.Bool().Draw(rt, "binAsAny") {
			return secs2.B(b)
		}
		return secs2.NewBinaryItem(b)
	case v.FC == e5.Boolean:
		b := append([]bool(nil), v.Bools...)
		keep(func() {
			for i := range b {
				b[i] = !b[i]
			}
		})
		*nontrivial = *nontrivial || many
		return secs2.BOOLEAN(b)
	case v.FC == e5.ASCII:
		return secs2.A(string(v.Bytes))
	case v.FC == e5.JIS8:
		return secs2.J(string(v.Bytes))
	case v.FC == e5.Local:
		return secs2.NewLocalizedStrItem(v.LSH, string(v.Bytes))
	case e5.IsInt(v.FC):
		w := e5.Width(v.FC)
		*nontrivial = *nontrivial || many
		switch rapid.IntRange(0, 1).Draw(rt, "intSliceType") {
		case 0:
			s := append([]int64(nil), v.Ints...)
			keep(func() {
				for i := range s {
					s[i] = ^s[i]
				}
			})
			return secs2.NewIntItem(w, s)
		default:
			switch w {
			case 1:
				s := make([]int8, len(v.Ints))
				for i, x := range v.Ints {
					s[i] = int8(x)
				}
				keep(func() {
					for i := range s {
						s[i] = ^s[i]
					}
				})
				return secs2.I1(s)
			case 2:
				s := make([]int16, len(v.Ints))
				for i, x := range v.Ints {
					s[i] = int16(x)
				}
				keep(func() {
					for i := range s {
						s[i] = ^s[i]
					}
				})
				return secs2.I2(s)
			case 4:
				s := make([]int32, len(v.Ints))
				for i, x := range v.Ints {
					s[i] = int32(x)
				}
				keep(func() {
					for i := range s {
						s[i] = ^s[i]
					}
				})
				return secs2.I4(s)
			default:
				s := append([]int64(nil), v.Ints...)
				keep(func() {
					for i := range s {
						s[i] = ^s[i]
					}
				})
				return secs2.I8(s)
			}
		}
	case e5.IsUint(v.FC):
		w := e5.Width(v.FC)
		*nontrivial = *nontrivial || many
		if w == 4 && rapid.Bool().Draw(rt, "u32slice") {
			s := make([]uint32, len(v.Uints))
			for i, x := range v.Uints {
				s[i] = uint32(x)
			}
			keep(func() {
				for i := range s {
					s[i] = ^s[i]
				}
			})
			return secs2.U4(s)
		}
		s := append([]uint64(nil), v.Uints...)
		keep(func() {
			for i := range s {
				s[i] = ^s[i] >> 1
			}
		})
		return secs2.NewUintItem(w, s)
	default: // floats
		w := e5.Width(v.FC)
		*nontrivial = *nontrivial || many
		if w == 4 && rapid.Bool().Draw(rt, "f32slice") {
			s := make([]float32, len(v.Floats))
			for i, x := range v.Floats {
				s[i] = float32(x)
			}
			keep(func() {
				for i := range s {
					s[i] = -s[i] + 1
				}
			})
			return secs2.F4(s)
		}
		s := append([]float64(nil), v.Floats...)
		keep(func() {
			for i := range s {
				s[i] = -s[i] + 1
			}
		})
		return secs2.NewFloatItem(w, s)
	}
}

// scribbleOutputs overwrites every slice the accessors / serializers / append helpers of the tree
// hand out (recursively), including the spare capacity of append results.
func scribbleOutputs(it secs2.Item) {
	wipe := func(b []byte) {
		b = b[:cap(b)]
		for i := range b {
			b[i] ^= 0xa5
		}
	}
	if b, err := it.ToBinary(); err == nil {
		for i := range b {
			b[i] ^= 0xff
		}
	}
	if b, err := it.ToBoolean(); err == nil {
		for i := range b {
			b[i] = !b[i]
		}
	}
	if s, err := it.ToInt(); err == nil {
		for i := range s {
			s[i] = ^s[i]
		}
	}
	if s, err := it.ToUint(); err == nil {
		for i := range s {
			s[i] = ^s[i]
		}
	}
	if s, err := it.ToFloat(); err == nil {
		for i := range s {
			s[i] = -s[i] + 3
		}
	}
	wipe(it.ToBytes())
	wipe(it.AppendTo(nil))
	wipe(it.AppendTo(make([]byte, 3, 3+2*it.EncodedLen()+8))[3:])
	wipe(it.AppendBinaryTo(nil))
	wipe(it.AppendBinaryTo(make([]byte, 1, 64)))
	if kids, err := it.ToList(); err == nil {
		for _, c := range kids {
			scribbleOutputs(c)
		}
		for i := range kids {
			kids[i] = secs2.B(byte(i))
		}
	}
}

func msgSnapshot(m *hsms.DataMessage) string {
	it, err := m.Item()
	s := fmt.Sprintf("H=%x S=%d F=%d W=%v ID=%d sess=%04x sys=%x T=%v BL=%d B=%x F=%x derr=%v ierr=%v ", m.HeaderBytes(), m.Stream(), m.Function(), m.WaitBit(), m.ID(), m.SessionID(),
		m.SystemBytes(), m.Type(), m.BodyLen(), m.AppendBodyTo([]byte{1}), m.ToBytes(), m.DecodeErr() != nil, err != nil)
	if err == nil && it != nil {
		s += obs.Snapshot(it)
	}
	return s
}

// concurrently takes n snapshots at once and requires them all equal; it returns that snapshot.
func concurrently(rt *rapid.T, what string, n int, snap func() string) string {
	out := make([]string, n)
	var wg sync.WaitGroup
	start := make(chan struct{})
	for i := 0; i < n; i++ {
		wg.Add(1)
		go func(i int) {
			defer wg.Done()
			<-start
			out[i] = snap()
		}(i)
	}
	close(start)
	wg.Wait()
	for i := 1; i < n; i++ {
		if out[i] != out[0] {
			rt.Fatalf("C12 violated: concurrent readers of one %s observed different values\n reader 0: %.300s\n reader %d: %.300s", what, out[0], i, out[i])
		}
	}
	return out[0]
}

type countingItem struct {
	secs2.Item
	encodes *atomic.Int32
}

func (c countingItem) AppendTo(dst []byte) []byte {
	c.encodes.Add(1)
	return c.Item.AppendTo(dst)
}
func (c countingItem) ToBytes() []byte { c.encodes.Add(1); return c.Item.ToBytes() }

func TestC12Immutable(t *testing.T) {
	ev.Rule("items by provenance {constructed from retained caller slices (typed and untyped, nested lists built from a retained []Item), Decode of a caller buffer} and messages by provenance {NewDataMessage over such an item, DecodeHSMSMessage / DecodeHSMSPayload / DataMessageCodec.UnmarshalBinary of a caller buffer, re-stamped and derived copies}; plan: 8 goroutines snapshot every public observation at once (first use of all lazy paths), then the caller scribbles over every retained input and over every slice returned by ToBinary/ToBoolean/ToInt/ToUint/ToFloat/ToList/ToBytes/AppendTo (incl. spare capacity)/AppendBinaryTo/AppendBodyTo, re-snapshotting after each; oracle: all snapshots equal, no race report (binary built with -race), Item() returns one instance to every holder and copy, a counting Item wrapper is serialized at most once per message; non-trivial = a scribbled slice belongs to a leaf with >= 2 elements or to a list")
	vt.Check(t, 1600, 24000, func(rt *rapid.T) {
		v := gen.Value(rt, gen.Opts{MaxDepth: 5, Budget: 1200, NoBigCounts: true})
		var scribbles []func()
		nontrivial := false
		var it secs2.Item
		prov := rapid.SampledFrom([]string{"constructed", "constructed", "decoded"}).Draw(rt, "itemProvenance")
		var buf []byte
		if prov == "decoded" && v.FC != e5.Empty {
			buf = e5.Encode(v)
			d, err := secs2.Decode(buf)
			if err != nil {
				rt.Fatalf("VERIF-INFRA: decode of a reference encoding failed: %v", err)
			}
			it = d
			scribbles = append(scribbles, func() {
				for i := range buf {
					buf[i] ^= 0xff
				}
			})
			nontrivial = len(buf) > 2
		} else {
			prov = "constructed"
			it = buildRetaining(rt, v, &scribbles, &nontrivial)
		}
		if it.Error() != nil {
			rt.Fatalf("VERIF-INFRA: generated item carries an error: %v", it.Error())
		}
		// ---- item: concurrent first observation, then scribbles ----
		base := concurrently(rt, "item", 8, func() string { return obs.Snapshot(it) })
		check := func(after string) {
			if got := obs.Snapshot(it); got != base {
				rt.Fatalf("C12 violated: the item (%s) changed after the caller %s\n before: %.400s\n after:  %.400s", prov, after, base, got)
			}
		}
		for i, s := range scribbles {
			s()
			check(fmt.Sprintf("overwrote input slice %d", i))
		}
		scribbleOutputs(it)
		check("overwrote every slice returned by the accessors and serializers")
		// the decoder moves on to other inputs - rejected and accepted ones - while the caller keeps
		// the item: whatever the decoder recycles internally, a kept item does not change
		for i := 0; i < 3; i++ {
			_, _ = secs2.Decode([]byte{0x01, 0x03, 0x41, 0x02, 'a'})                                   // a list whose children are missing: rejected
			_, _ = secs2.Decode([]byte{0x01, 0x02, 0x41, 0x03, 'n', 'e', 'w', 0xa5, 0x02, 0xff, 0xfe}) // accepted
			_, _ = secs2.DecodeOwned([]byte{0x21, 0x05, 1, 2})                                         // truncated: rejected
			_, _ = secs2.DecodeOwned([]byte{0x01, 0x01, 0x21, 0x03, 9, 9, 9})                          // accepted
		}
		check("went on to decode other inputs (some of them rejected)")

		// ---- message over the item ----
		stream, function := byte(rapid.IntRange(0, 127).Draw(rt, "stream")), byte(rapid.IntRange(0, 255).Draw(rt, "function"))
		wbit := function%2 == 1 && rapid.Bool().Draw(rt, "w")
		var enc atomic.Int32
		var body secs2.Item = it
		counted := rapid.Bool().Draw(rt, "countingWrapper")
		if counted {
			body = countingItem{Item: it, encodes: &enc}
		}
		m, err := hsms.NewDataMessage(stream, function, wbit, 0x1234, [4]byte{1, 2, 3, 4}, body)
		if err != nil {
			rt.Fatalf("VERIF-INFRA: NewDataMessage: %v", err)
		}
		copies := []*hsms.DataMessage{m, m.WithSessionID(9), m.WithSystemBytes([4]byte{9, 9, 9, 9}), m.WithID(77).WithSessionID(3)}
		var wg sync.WaitGroup
		frames := make([][]byte, 8)
		for g := 0; g < 8; g++ {
			wg.Add(1)
			go func(g int) {
				defer wg.Done()
				c := copies[g%len(copies)]
				frames[g] = c.ToBytes()
				_ = c.AppendBodyTo(nil)
				_ = c.BodyLen()
			}(g)
		}
		wg.Wait()
		if counted && enc.Load() > 1 {
			rt.Fatalf("C12 violated: the body item was serialized %d times for one message shared by 4 copies and 8 callers", enc.Load())
		}
		for g := 0; g < 8; g++ {
			if !bytes.Equal(frames[g][14:], frames[g%len(copies)][14:]) || !bytes.Equal(frames[g][14:], frames[0][14:]) {
				rt.Fatalf("C12 violated: copies of one message serialize different bodies")
			}
		}
		mbase := msgSnapshot(m)
		for _, f := range frames {
			for i := range f[:cap(f)] {
				f[:cap(f)][i] ^= 0x5a
			}
		}
		wipe := m.AppendBodyTo(make([]byte, 2, 2+2*m.BodyLen()+16))
		for i := range wipe[:cap(wipe)] {
			wipe[:cap(wipe)][i] = 0xee
		}
		h := m.HeaderBytes()
		h[0], h[9] = ^h[0], ^h[9]
		sb := m.SystemBytes()
		sb[0] = ^sb[0]
		if got := msgSnapshot(m); got != mbase {
			rt.Fatalf("C12 violated: the message changed after the caller overwrote the slices its serializers returned\n before: %.400s\n after:  %.400s", mbase, got)
		}

		// ---- decoded message: lazy body decode happens once, for every holder ----
		frame := e37.DataFrame(0x4321, stream, function, wbit, 0x0a0b0c0d, e5.Encode(v)).Bytes()
		wire := append([]byte(nil), frame...)
		var dm *hsms.DataMessage
		switch rapid.IntRange(0, 2).Draw(rt, "decodeEntry") {
		case 2:
			// the encoding.BinaryUnmarshaler wrapper (storage layers): documented to behave exactly like
			// assigning the result of DecodeHSMSMessage
			codec := &hsms.DataMessageCodec{}
			if uerr := codec.UnmarshalBinary(wire); uerr != nil {
				rt.Fatalf("VERIF-INFRA: UnmarshalBinary: %v", uerr)
			}
			dm = codec.Message
			out, merr := codec.MarshalBinary()
			if merr != nil || !bytes.Equal(out, frame) {
				rt.Fatalf("C12 violated: DataMessageCodec.MarshalBinary after UnmarshalBinary does not return the frame (%v)", merr)
			}
			for i := range out {
				out[i] ^= 0xa5 // the caller owns what MarshalBinary returned
			}
		case 0:
			d, derr := hsms.DecodeHSMSMessage(wire)
			if derr != nil {
				rt.Fatalf("VERIF-INFRA: %v", derr)
			}
			dm, _ = d.ToDataMessage()
		default:
			d, derr := hsms.DecodeHSMSPayload(wire[4:])
			if derr != nil {
				rt.Fatalf("VERIF-INFRA: %v", derr)
			}
			dm, _ = d.ToDataMessage()
		}
		dcopies := []*hsms.DataMessage{dm, dm.WithSessionID(1), dm.WithSystemBytes([4]byte{7}), dm.WithID(5)}
		items := make([]secs2.Item, 8)
		snaps := make([]string, 8)
		for g := 0; g < 8; g++ {
			wg.Add(1)
			go func(g int) {
				defer wg.Done()
				items[g], _ = dcopies[g%4].Item()
				snaps[g] = fmt.Sprintf("%x|", dcopies[g%4].AppendBodyTo(nil)) + obs.Snapshot(items[g])
			}(g)
		}
		wg.Wait()
		for g := 1; g < 8; g++ {
			if items[g] != items[0] {
				rt.Fatalf("C12 violated: Item() returned different instances to holders of one decoded message (lazy decode ran more than once)")
			}
			if snaps[g] != snaps[0] {
				rt.Fatalf("C12 violated: holders of one decoded message observed different bodies")
			}
		}
		for i := range wire {
			wire[i] ^= 0xff // the caller reuses its buffer: a copying decode entry point must not care
		}
		if got := fmt.Sprintf("%x|", dm.AppendBodyTo(nil)) + obs.Snapshot(items[0]); got != snaps[0] {
			rt.Fatalf("C12 violated: a message decoded by a copying entry point changed when the caller reused its buffer")
		}
		if !bytes.Equal(dm.ToBytes(), frame) {
			rt.Fatalf("C12 violated: decoded message no longer serializes to the received frame after the caller reused its buffer")
		}
		// Derive shares nothing mutable either
		der, derr := dm.Derive().WithSessionID(0x0102).Build()
		if derr != nil {
			rt.Fatalf("C12 violated: Derive().Build() of a decoded valid message failed: %v", derr)
		}
		dit, _ := der.Item()
		scribbleOutputs(dit)
		if got := fmt.Sprintf("%x|", dm.AppendBodyTo(nil)) + obs.Snapshot(items[0]); got != snaps[0] {
			rt.Fatalf("C12 violated: scribbling over the outputs of a derived message changed the message it was derived from")
		}
		ev.Case(nontrivial, prov+v.String(), func() any {
			return fmt.Sprintf("%s item %s, %d retained inputs scribbled, message S%dF%d", prov, v.String(), len(scribbles), stream, function)
		},
			"c12:"+prov, fmt.Sprintf("c12:counted:%v", counted))
	})
}
