package props

// C06: concurrent reply-expected sends against a raw peer whose behaviour on the reply side is a
// generated policy per transaction. Virtual time makes every timer exact, delays are drawn from a
// lattice on which no two causes coincide, so each call has one predicted outcome; on top of that
// a ledger accounts for every inbound data frame (exactly one recipient).

import (
	"context"
	"errors"
	"fmt"
	"sort"
	"strings"
	"sync"
	"testing"
	"testing/synctest"
	"time"

	"github.com/arloliu/go-secs/v2/hsms"
	"github.com/arloliu/go-secs/v2/hsmsss"
	"github.com/arloliu/go-secs/v2/secs2"
	"pgregory.net/rapid"
	"verif/harness/ev"
	"verif/harness/netsim"
	"verif/harness/ref/e37"
	"verif/harness/vt"
)

const c06T3 = time.Second

type c06Policy struct {
	kind     string // reply dup dup-late none late reject abort collide-primary collide-control unsolicited
	delay    time.Duration
	reason   byte
	ctlType  byte
	ctx      string // none d100 d400 cancel60
	startOff time.Duration
	fn       byte
	stream   byte
}

type c06Result struct {
	reply    *hsms.DataMessage
	err      error
	start    time.Time
	returned time.Time
}

type recvNote struct {
	hdr  [10]byte
	blen int
	at   time.Time
}

type recvLog struct {
	mu sync.Mutex
	n  []recvNote
}

func (r *recvLog) handler(m *hsms.DataMessage, _ hsms.SECS2Endpoint) {
	r.mu.Lock()
	r.n = append(r.n, recvNote{m.HeaderBytes(), m.BodyLen(), time.Now()})
	r.mu.Unlock()
}

func tokenOf(f e37.Frame) (int, bool) {
	b := f.Body
	if len(b) < 3 || b[0] != 0x41 || int(b[1]) != len(b)-2 || b[2] != 't' {
		return 0, false
	}
	n := 0
	for _, c := range b[3:] {
		if c < '0' || c > '9' {
			return 0, false
		}
		n = n*10 + int(c-'0')
	}
	return n, true
}

func asciiBody(s string) []byte { return append([]byte{0x41, byte(len(s))}, s...) }

func genC06Policy(rt *rapid.T, allowCtl bool) c06Policy {
	kinds := []string{"reply", "reply", "reply", "dup", "dup-late", "none", "late", "reject", "abort", "collide-primary", "unsolicited"}
	if allowCtl {
		kinds = append(kinds, "collide-control", "collide-control")
	}
	p := c06Policy{kind: rapid.SampledFrom(kinds).Draw(rt, "policy")}
	p.delay = time.Duration(rapid.SampledFrom([]int{0, 3, 7, 11, 15, 19}).Draw(rt, "delayMs")) * time.Millisecond
	p.reason = rapid.Byte().Draw(rt, "reason")
	p.ctlType = rapid.SampledFrom([]byte{e37.SelectRsp, e37.DeselectRsp, e37.LinktestRsp}).Draw(rt, "ctlType")
	p.ctx = rapid.SampledFrom([]string{"none", "none", "d100", "d400", "cancel60"}).Draw(rt, "ctx")
	p.startOff = time.Duration(rapid.SampledFrom([]int{0, 0, 1, 2, 50}).Draw(rt, "startMs")) * time.Millisecond
	p.fn = byte(rapid.IntRange(0, 126).Draw(rt, "fn"))*2 + 1
	p.stream = byte(rapid.IntRange(1, 127).Draw(rt, "stream"))
	return p
}

func TestC06Replies(t *testing.T) {
	ev.Rule("1-12 concurrent reply-expected sends (unique payload tokens; caller deadline none / 100 ms / 400 ms / cancel at 60 ms; start offsets 0-50 ms) x a peer policy per transaction: reply after 0-19 ms (permuting replies across transactions), duplicate reply (at once or after T3), no reply, reply after 2.5xT3, Reject.req with reason 0..255, SxF0 abort, a peer PRIMARY reusing the in-flight system bytes, a control response reusing them, an unsolicited secondary; optional link drop at 33.5 ms or 600.5 ms; T3 = 1 s virtual; oracle: the single predicted outcome per call (own reply: secondary, same system bytes, the body the peer built for that token; RejectError.Reason; T3 exactly T3 after the write; ErrConnClosed; ctx error), never (nil,nil), plus the delivery ledger (every inbound data frame reaches the waiting sender or every handler exactly once, in arrival order; a duplicate reply may vanish) and pairwise distinct system bytes; non-trivial = >= 3 transactions overlap and the policies include a permutation, a duplicate or a collision")
	knownF1 := vt.Known("F1")
	vt.Bubble(t, func(t *testing.T) {
		vt.CheckBubble(t, 4000, 200000, func(rt *rapid.T) { runC06(rt, !knownF1) })
	})
}

func runC06(rt *rapid.T, allowCtl bool) {
	active := rapid.Bool().Draw(rt, "active")
	equip := rapid.Bool().Draw(rt, "equip")
	w, err := newWorld(worldOpt{active: active, equip: equip, connOpts: []hsms.ConnOption{hsms.WithT3(c06T3), hsms.WithT6(30 * time.Second),
		hsms.WithT7(30 * time.Second), hsms.WithT5(30 * time.Second), hsms.WithReconnectBackoff(30*time.Second, 1)}})
	if err != nil {
		rt.Fatalf("VERIF-INFRA: %v", err)
	}
	h1, h2 := &recvLog{}, &recvLog{}
	w.conn.AddDataMessageHandler(h1.handler, h2.handler)
	var p *netsim.Peer
	var hist []string
	var hmu sync.Mutex
	logf := func(f string, a ...any) {
		hmu.Lock()
		hist = append(hist, fmt.Sprintf(f, a...))
		hmu.Unlock()
	}
	defer func() {
		_ = w.conn.Close()
		if p != nil {
			p.Close()
		}
		if w.ln != nil {
			_ = w.ln.Close()
		}
		synctest.Wait()
	}()
	if err := w.conn.Open(context.Background(), hsms.OpenBackground); err != nil {
		rt.Fatalf("VERIF-INFRA: %v", err)
	}
	if p, err = w.peerUp(time.Second); err != nil {
		rt.Fatalf("VERIF-INFRA: %v", err)
	}
	if err := w.selectAsPeer(p, 0x5e1ec7ed); err != nil {
		rt.Fatalf("VERIF-INFRA: %v", err)
	}
	// the System Bytes generator is positioned just before its 32-bit wrap in a quarter of the cases
	// (hook): the transactions of the case then straddle the wrap, where uniqueness among the open
	// transactions matters as much as anywhere else
	wrapped := false
	framesBeforeSeed := 0
	if rapid.IntRange(0, 3).Draw(rt, "nearWrap") == 0 {
		framesBeforeSeed = len(p.Frames()) // a full cycle later values recur by design: uniqueness is asked of what follows the seeding
		wrapped = hsms.VerifSeedSystemBytes(hsmsss.VerifInner(w.conn), 0xFFFFFFFF-uint32(rapid.IntRange(0, 12).Draw(rt, "beforeWrap")))
		if !wrapped {
			rt.Fatalf("VERIF-INFRA: the System Bytes hook does not reach this connection")
		}
	}
	n := rapid.IntRange(1, 12).Draw(rt, "senders")
	// slow write: the peer's window stays closed for a while, so the (single) sender's write completes
	// late; T3 must run from the completed write, not from the call
	writeDelay := time.Duration(0)
	if rapid.IntRange(0, 6).Draw(rt, "slowWrite") == 0 {
		n = 1
		writeDelay = time.Duration(rapid.SampledFrom([]int{100, 300, 600}).Draw(rt, "writeDelayMs")) * time.Millisecond
	}
	pol := make([]c06Policy, n)
	for i := range pol {
		pol[i] = genC06Policy(rt, allowCtl)
		if writeDelay > 0 {
			pol[i].ctx, pol[i].startOff = "none", 0
		}
	}
	drop := rapid.SampledFrom([]string{"none", "none", "none", "early", "mid"}).Draw(rt, "drop")
	if writeDelay > 0 {
		drop = "none"
	}
	dropAt := time.Duration(0)
	switch drop {
	case "early":
		dropAt = 33500 * time.Microsecond
	case "mid":
		dropAt = 600500 * time.Microsecond
	}
	dropReset := rapid.Bool().Draw(rt, "dropReset")

	// --- the peer ---
	type sentData struct {
		f     e37.Frame
		at    time.Time
		role  string // reply dup abort primary unsolicited
		token int
	}
	var pmu sync.Mutex
	var peerSent []sentData
	sawAt := map[int]time.Time{}
	sawSys := map[int]uint32{}
	var primaries []e37.Frame
	var pwg sync.WaitGroup
	linkDown := false
	send := func(role string, token int, f e37.Frame) {
		pmu.Lock()
		if linkDown {
			pmu.Unlock()
			return
		}
		if f.IsData() {
			peerSent = append(peerSent, sentData{f, time.Now(), role, token})
		}
		// the write happens under the same lock as the ledger entry: two policies that fire at the
		// same virtual instant (two "late" replies) must be recorded in the order they hit the wire
		_ = p.Send(f)
		pmu.Unlock()
	}
	after := func(d time.Duration, fn func()) {
		if d == 0 {
			fn()
			return
		}
		pwg.Add(1)
		go func() {
			defer pwg.Done()
			time.Sleep(d)
			fn()
		}()
	}
	p.SetOnFrame(func(f e37.Frame) {
		if !f.IsData() {
			return
		}
		pmu.Lock()
		primaries = append(primaries, f)
		pmu.Unlock()
		tok, ok := tokenOf(f)
		if !ok || tok >= n || !f.WBit() {
			return
		}
		pmu.Lock()
		sawAt[tok], sawSys[tok] = time.Now(), f.Sys
		pmu.Unlock()
		pl := pol[tok]
		reply := e37.DataFrame(f.Session, f.Stream(), f.Function()+1, false, f.Sys, asciiBody(fmt.Sprintf("re%d", tok)))
		switch pl.kind {
		case "reply":
			after(pl.delay, func() { send("reply", tok, reply) })
		case "dup":
			after(pl.delay, func() { send("reply", tok, reply); send("dup", tok, reply) })
		case "dup-late":
			after(pl.delay, func() { send("reply", tok, reply) })
			after(2500*time.Millisecond, func() { send("dup", tok, reply) })
		case "late":
			after(2500*time.Millisecond, func() { send("reply", tok, reply) })
		case "reject":
			after(pl.delay, func() {
				send("reject", tok, e37.Frame{Session: f.Session, B2: 0, B3: pl.reason, SType: e37.RejectReq, Sys: f.Sys})
			})
		case "abort":
			after(pl.delay, func() { send("abort", tok, e37.DataFrame(f.Session, f.Stream(), 0, false, f.Sys, nil)) })
		case "collide-primary":
			w := tok%2 == 0
			send("primary", tok, e37.DataFrame(f.Session, 7, 5, w, f.Sys, asciiBody(fmt.Sprintf("pp%d", tok))))
			after(pl.delay, func() { send("reply", tok, reply) })
		case "collide-control":
			send("control", tok, e37.Frame{Session: f.Session, B3: 0, SType: pl.ctlType, Sys: f.Sys})
			after(pl.delay, func() { send("reply", tok, reply) })
		case "unsolicited":
			send("unsolicited", tok, e37.DataFrame(f.Session, 9, 4, false, 0xE0000000+uint32(tok), asciiBody(fmt.Sprintf("un%d", tok))))
			after(pl.delay, func() { send("reply", tok, reply) })
		}
	})

	if writeDelay > 0 {
		p.C.SetInboundWindow(4)
		p.C.StallInbound(true)
	}
	// --- the callers ---
	res := make([]c06Result, n)
	var swg sync.WaitGroup
	t0 := time.Now()
	for i := 0; i < n; i++ {
		swg.Add(1)
		go func(i int) {
			defer swg.Done()
			pl := pol[i]
			if pl.startOff > 0 {
				time.Sleep(pl.startOff)
			}
			ctx, cancel := context.WithCancel(context.Background())
			switch pl.ctx {
			case "d100":
				ctx, cancel = context.WithTimeout(context.Background(), 100*time.Millisecond)
			case "d400":
				ctx, cancel = context.WithTimeout(context.Background(), 400*time.Millisecond)
			case "cancel60":
				go func() { time.Sleep(60 * time.Millisecond); cancel() }()
			}
			defer cancel()
			res[i].start = time.Now()
			res[i].reply, res[i].err = w.conn.SendDataMessage(ctx, pl.stream, pl.fn, true, secs2.A(fmt.Sprintf("t%d", i)))
			res[i].returned = time.Now()
		}(i)
	}
	if writeDelay > 0 {
		time.Sleep(writeDelay)
		p.C.SetInboundWindow(netsim.DefaultWindow)
		p.C.StallInbound(false)
	}
	if drop != "none" {
		time.Sleep(dropAt)
		pmu.Lock()
		linkDown = true
		pmu.Unlock()
		if w.ln != nil {
			_ = w.ln.Close()
		}
		if dropReset {
			p.C.Reset()
		}
		_ = p.C.Close()
		logf("link dropped at +%v (reset=%v)", dropAt, dropReset)
	}
	swg.Wait()
	time.Sleep(3*time.Second - time.Since(t0)) // let the late replies arrive
	pwg.Wait()
	synctest.Wait()

	fail := func(f string, a ...any) {
		var sb strings.Builder
		for i, pl := range pol {
			fmt.Fprintf(&sb, "  sender %d: S%dF%d start+%v ctx=%s policy=%s delay=%v -> reply=%v err=%v after %v\n", i, pl.stream, pl.fn, pl.startOff, pl.ctx, pl.kind, pl.delay,
				res[i].reply != nil, res[i].err, res[i].returned.Sub(res[i].start))
		}
		rt.Fatalf("C06 violated (active=%v equip=%v drop=%s): %s\n%s%s\nwire:\n%s", active, equip, drop, fmt.Sprintf(f, a...), sb.String(), strings.Join(hist, "\n"), p.Transcript())
	}

	// --- per-call oracle ---
	gotReply := make([]bool, n)
	for i, pl := range pol {
		r := res[i]
		if r.reply == nil && r.err == nil {
			fail("sender %d: a reply-expected send returned a nil reply with a nil error", i)
		}
		if r.reply != nil && r.err != nil {
			fail("sender %d: returned both a reply and the error %v", i, r.err)
		}
		start := pl.startOff        // relative to t0
		wrote := start + writeDelay // when the primary was completely written
		// predicted outcome on the delay lattice
		type cause struct {
			at   time.Duration
			what string
		}
		var causes []cause
		switch pl.kind {
		case "reply", "dup", "dup-late", "collide-primary", "collide-control", "unsolicited":
			causes = append(causes, cause{wrote + pl.delay, "reply"})
		case "abort":
			causes = append(causes, cause{wrote + pl.delay, "abort"})
		case "reject":
			causes = append(causes, cause{wrote + pl.delay, "reject"})
		}
		causes = append(causes, cause{wrote + c06T3, "t3"})
		switch pl.ctx {
		case "d100":
			causes = append(causes, cause{start + 100*time.Millisecond, "deadline"})
		case "d400":
			causes = append(causes, cause{start + 400*time.Millisecond, "deadline"})
		case "cancel60":
			causes = append(causes, cause{start + 60*time.Millisecond, "canceled"})
		}
		if drop != "none" {
			if dropAt < start {
				causes = []cause{{start, "not-selected"}}
			} else {
				// a reply scheduled after the drop is never sent
				kept := causes[:0]
				for _, c := range causes {
					if (c.what == "reply" || c.what == "abort" || c.what == "reject") && c.at > dropAt {
						continue
					}
					kept = append(kept, c)
				}
				causes = append(kept, cause{dropAt, "closed"})
			}
		}
		sort.SliceStable(causes, func(a, b int) bool { return causes[a].at < causes[b].at })
		want := causes[0]
		got := "?"
		switch {
		case r.reply != nil && r.reply.Function() == 0:
			got = "abort"
		case r.reply != nil:
			got = "reply"
		case errors.Is(r.err, hsms.ErrT3Timeout):
			got = "t3"
		case errors.Is(r.err, hsms.ErrConnClosed):
			got = "closed"
		case errors.Is(r.err, context.DeadlineExceeded):
			got = "deadline"
		case errors.Is(r.err, context.Canceled):
			got = "canceled"
		case errors.Is(r.err, hsms.ErrNotSelectedState):
			got = "not-selected"
		default:
			var re *hsms.RejectError
			if errors.As(r.err, &re) {
				got = "reject"
				if re.Reason != pl.reason {
					fail("sender %d: RejectError.Reason=%d, the peer sent reason %d", i, re.Reason, pl.reason)
				}
			} else {
				got = "other:" + fmt.Sprint(r.err)
			}
		}
		if got != want.what {
			fail("sender %d: outcome %q, predicted %q at +%v (causes %v)", i, got, want.what, want.at, causes)
		}
		if d := r.returned.Sub(t0); d != want.at {
			fail("sender %d: outcome %q arrived at +%v, predicted +%v", i, got, d, want.at)
		}
		if got == "t3" {
			if saw, ok := sawAt[i]; !ok || r.returned.Sub(saw) < c06T3 {
				fail("sender %d: T3 error %v after the primary reached the peer (T3=%v)", i, r.returned.Sub(saw), c06T3)
			}
		}
		if r.reply != nil {
			gotReply[i] = true
			sys, ok := sawSys[i]
			if !ok {
				fail("sender %d got a reply although its primary never reached the peer", i)
			}
			if r.reply.WaitBit() || r.reply.Function()%2 != 0 {
				fail("sender %d: the returned message S%dF%d W=%v is not a secondary", i, r.reply.Stream(), r.reply.Function(), r.reply.WaitBit())
			}
			if r.reply.SystemBytes() != sysArr(sys) {
				fail("sender %d: reply carries system bytes %x, its primary carried %08x", i, r.reply.SystemBytes(), sys)
			}
			if got == "reply" {
				wantBody := asciiBody(fmt.Sprintf("re%d", i))
				if string(r.reply.AppendBodyTo(nil)) != string(wantBody) || r.reply.Stream() != pl.stream || r.reply.Function() != pl.fn+1 {
					fail("sender %d received another transaction's reply: S%dF%d body %q", i, r.reply.Stream(), r.reply.Function(), r.reply.AppendBodyTo(nil))
				}
			}
		}
	}
	// --- system bytes pairwise distinct among everything the library originated on this connection
	seen := map[uint32]bool{0x5e1ec7ed: !active && !wrapped}
	for fi, f := range p.Frames() {
		if wrapped && fi < framesBeforeSeed {
			continue
		}
		if f.F.IsData() && f.F.Function()%2 == 0 {
			continue // replies reuse the peer's system bytes by design
		}
		if f.F.SType == e37.Data || f.F.SType == e37.SelectReq || f.F.SType == e37.LinktestReq || f.F.SType == e37.SeparateReq {
			if seen[f.F.Sys] && f.F.Sys != 0x5e1ec7ed {
				fail("system bytes %08x used twice by the library on one connection", f.F.Sys)
			}
			seen[f.F.Sys] = true
		}
	}
	// --- delivery ledger ---
	var wantHandlers []sentData
	dupAllowed := 0
	for _, sd := range peerSent {
		switch sd.role {
		case "reply", "abort":
			r := res[sd.token]
			toSender := !sd.at.After(r.returned) && r.reply != nil
			if !toSender {
				wantHandlers = append(wantHandlers, sd)
			}
		case "dup":
			dupAllowed++
		case "primary", "unsolicited":
			wantHandlers = append(wantHandlers, sd)
		}
	}
	for hi, h := range []*recvLog{h1, h2} {
		got := h.n
		// match got against wantHandlers in order, allowing up to dupAllowed extra duplicate replies
		gi := 0
		extra := 0
		for _, wsd := range wantHandlers {
			for gi < len(got) && got[gi].hdr != wsd.f.Header() {
				extra++
				gi++
			}
			if gi >= len(got) {
				var gl, wl []string
				for _, g := range got {
					gl = append(gl, fmt.Sprintf("%x@+%v", g.hdr, g.at.Sub(t0)))
				}
				for _, x := range wantHandlers {
					wl = append(wl, fmt.Sprintf("%x(%s of token %d, sent +%v)", x.f.Header(), x.role, x.token, x.at.Sub(t0)))
				}
				fail("handler %d never received %v (%s of token %d) although no sender was waiting for it\n handler got (in order): %v\n expected at the handlers (in the order the peer sent them): %v", hi, wsd.f, wsd.role, wsd.token, gl, wl)
			}
			gi++
		}
		extra += len(got) - gi
		if extra > dupAllowed {
			fail("handler %d received %d messages that no rule routes to handlers (at most %d duplicate replies may appear): %v", hi, extra, dupAllowed, got)
		}
	}
	if len(h1.n) != len(h2.n) {
		fail("the two registered handlers received %d and %d messages", len(h1.n), len(h2.n))
	}
	for i := range h1.n {
		if h1.n[i].hdr != h2.n[i].hdr {
			fail("the two registered handlers saw different sequences at %d", i)
		}
	}
	// --- evidence ---
	overlap := 0
	kinds := map[string]bool{}
	for _, pl := range pol {
		if pl.startOff <= 2*time.Millisecond {
			overlap++
		}
		kinds[pl.kind] = true
	}
	distinctDelays := map[time.Duration]bool{}
	for _, pl := range pol {
		distinctDelays[pl.delay] = true
	}
	nontrivial := overlap >= 3 && (len(distinctDelays) >= 2 || kinds["dup"] || kinds["dup-late"] || kinds["collide-primary"] || kinds["collide-control"])
	cls := []string{"c06:drop:" + drop}
	if writeDelay > 0 {
		cls = append(cls, "c06:slow-write")
	}
	for k := range kinds {
		cls = append(cls, "c06:policy:"+k)
	}
	outc := map[string]bool{}
	for i := range res {
		switch {
		case res[i].reply != nil:
			outc["reply"] = true
		case errors.Is(res[i].err, hsms.ErrT3Timeout):
			outc["t3"] = true
		case errors.Is(res[i].err, hsms.ErrConnClosed):
			outc["closed"] = true
		case errors.Is(res[i].err, context.DeadlineExceeded), errors.Is(res[i].err, context.Canceled):
			outc["ctx"] = true
		default:
			outc["reject"] = true
		}
	}
	for k := range outc {
		cls = append(cls, "c06:outcome:"+k)
	}
	if wrapped {
		cls = append(cls, "c06:sysbytes-near-wrap")
	}
	key := fmt.Sprint(active, equip, drop, pol, wrapped)
	ev.Case(nontrivial, key, func() any {
		var out []string
		for i, pl := range pol {
			out = append(out, fmt.Sprintf("sender %d start+%v ctx=%s policy=%s delay=%v -> reply=%v err=%v", i, pl.startOff, pl.ctx, pl.kind, pl.delay, res[i].reply != nil, res[i].err))
		}
		return map[string]any{"active": active, "equip": equip, "drop": drop, "calls": out}
	}, cls...)
}
