package props

// C19 (end to end, the glue between the two reducers): life that appears exactly between the failure
// snapshot of the threshold-reaching probe timeout and the final pre-disconnect re-check. The
// window is two adjacent reads inside one evaluation of the linktest loop; the verif hook
// hsmsss.VerifObserveInflightReads runs a harness callback on the linktest goroutine right before
// each read of the in-flight gauge, so the harness can make a reply become outstanding (or a frame
// arrive) precisely there. Such a probe timeout is credited ("convert this to a credit" - the
// suppression rules' credit resets the run), so a peer that falls silent afterwards is dropped
// after exactly `threshold` further consecutive probe timeouts, not fewer.

import (
	"context"
	"fmt"
	"strings"
	"sync"
	"testing"
	"testing/synctest"
	"time"

	"github.com/arloliu/go-secs/v2/hsms"
	"github.com/arloliu/go-secs/v2/hsmsss"
	"github.com/arloliu/go-secs/v2/secs2"
	"pgregory.net/rapid"
	"verif/harness/ev"
	"verif/harness/netsim"
	"verif/harness/ref/e37"
	"verif/harness/vt"
)

func TestC19RecheckCredit(t *testing.T) {
	ev.Rule("HSMS-SS, both roles, virtual time, suppression on, threshold 1..4, interval 40/60/100 ms, T6 50/80 ms, T3 300 ms, silent peer; a plan of 1-3 re-check outcomes ending in `none`: at the k-th final pre-disconnect re-check (identified as the second read of the in-flight gauge at the instant a probe times out) the harness makes a reply-expected send outstanding (never answered), or a data frame arrive from the peer, or nothing. Oracle: every re-check comes after exactly `threshold` probe timeouts since the previous re-check (a credit resets the run), a credited re-check does not drop the link, the first re-check without life drops it at that very instant; non-trivial = at least one re-check was credited")
	vt.Bubble(t, func(t *testing.T) {
		vt.CheckBubble(t, 600, 24000, func(rt *rapid.T) {
			active := rapid.Bool().Draw(rt, "active")
			threshold := rapid.IntRange(1, 4).Draw(rt, "threshold")
			I := time.Duration(rapid.SampledFrom([]int{40, 60, 100}).Draw(rt, "intervalMs")) * time.Millisecond
			T6 := time.Duration(rapid.SampledFrom([]int{50, 80}).Draw(rt, "t6Ms")) * time.Millisecond
			const T3 = 300 * time.Millisecond
			plan := rapid.SliceOfN(rapid.SampledFrom([]string{"reply-outstanding", "reply-outstanding", "frame-received"}), 0, 2).Draw(rt, "lifeAtRecheck")
			plan = append(plan, "none")
			w, err := newWorld(worldOpt{active: active, connOpts: []hsms.ConnOption{hsms.WithLinktestInterval(I), hsms.WithT6(T6), hsms.WithLinktestFailThreshold(threshold),
				hsms.WithLinktestSuppression(true), hsms.WithT3(T3), hsms.WithT7(time.Hour), hsms.WithT8(time.Hour), hsms.WithT5(time.Hour), hsms.WithReconnectBackoff(time.Hour, 1)}})
			if err != nil {
				rt.Fatalf("VERIF-INFRA: %v", err)
			}
			var (
				mu        sync.Mutex
				p         *netsim.Peer
				lastRead  time.Time
				sameInst  int
				rechecks  []time.Time
				bg        sync.WaitGroup
				sendErrs  []error
				lifeToken int
			)
			lastProbeAt := func() (time.Time, bool) {
				fr := p.Frames()
				for i := len(fr) - 1; i >= 0; i-- {
					if fr[i].F.SType == e37.LinktestReq && fr[i].F.PType == 0 {
						return fr[i].At, true
					}
				}
				return time.Time{}, false
			}
			ok := hsmsss.VerifObserveInflightReads(w.conn, func() {
				mu.Lock()
				now := time.Now()
				if now.Equal(lastRead) {
					sameInst++
				} else {
					lastRead, sameInst = now, 1
				}
				at, seen := time.Time{}, false
				if p != nil {
					at, seen = lastProbeAt()
				}
				isRecheck := sameInst == 2 && seen && now.Equal(at.Add(T6))
				var life string
				if isRecheck {
					rechecks = append(rechecks, now)
					if k := len(rechecks) - 1; k < len(plan) {
						life = plan[k]
					}
				}
				mu.Unlock()
				switch life {
				case "reply-outstanding":
					bg.Add(1)
					go func() {
						defer bg.Done()
						ctx, cancel := ctxT(10 * time.Second)
						defer cancel()
						_, e := w.conn.SendDataMessage(ctx, 1, 1, true, secs2.A("never answered"))
						mu.Lock()
						sendErrs = append(sendErrs, e)
						mu.Unlock()
					}()
					time.Sleep(time.Millisecond)
				case "frame-received":
					mu.Lock()
					lifeToken++
					k := lifeToken
					mu.Unlock()
					_ = p.Send(e37.DataFrame(0xffff, 1, 1, false, 0x7c000000+uint32(k), nil))
					time.Sleep(time.Millisecond)
				}
			})
			if !ok {
				rt.Fatalf("VERIF-INFRA: the runtime of the connection could not be observed")
			}
			defer func() {
				_ = w.conn.Close()
				if p != nil {
					p.Close()
				}
				if w.ln != nil {
					_ = w.ln.Close()
				}
				bg.Wait()
				synctest.Wait()
			}()
			if err := w.conn.Open(context.Background(), hsms.OpenBackground); err != nil {
				rt.Fatalf("VERIF-INFRA: %v", err)
			}
			pp, err := w.peerUp(time.Second)
			if err != nil {
				rt.Fatalf("VERIF-INFRA: %v", err)
			}
			mu.Lock()
			p = pp
			mu.Unlock()
			if active && w.ln != nil {
				_ = w.ln.Close()
			}
			if err := w.selectAsPeer(p, 0x5e1ec7); err != nil {
				rt.Fatalf("VERIF-INFRA: %v", err)
			}
			t0 := time.Now()
			fail := func(f string, a ...any) {
				var probes, rcs []string
				for _, rf := range p.Frames() {
					if rf.F.SType == e37.LinktestReq && rf.F.PType == 0 {
						probes = append(probes, fmt.Sprintf("+%v", rf.At.Sub(t0)))
					}
				}
				mu.Lock()
				for i, r := range rechecks {
					l := "-"
					if i < len(plan) {
						l = plan[i]
					}
					rcs = append(rcs, fmt.Sprintf("+%v(%s)", r.Sub(t0), l))
				}
				mu.Unlock()
				eof, at, _ := p.EOF()
				rt.Fatalf("C19 violated (active=%v threshold=%d interval=%v T6=%v T3=%v life at the re-checks=%v): %s\nprobes seen at: %s\nfinal re-checks at: %s\nlink dropped: %v (+%v)",
					active, threshold, I, T6, T3, plan, fmt.Sprintf(f, a...), strings.Join(probes, " "), strings.Join(rcs, " "), eof, at.Sub(t0))
			}
			// everything is over after at most len(plan) runs of threshold probes, each preceded by a reply wait
			time.Sleep(time.Duration(len(plan))*(T3+time.Duration(threshold+2)*(I+T6)) + time.Second)
			synctest.Wait()
			mu.Lock()
			rc := append([]time.Time(nil), rechecks...)
			mu.Unlock()
			eof, droppedAt, _ := p.EOF()
			var probes []time.Time
			for _, rf := range p.Frames() {
				if rf.F.SType == e37.LinktestReq && rf.F.PType == 0 {
					probes = append(probes, rf.At)
				}
			}
			prev := t0
			for k, r := range rc {
				n := 0
				for _, at := range probes {
					if at.After(prev) && !at.After(r) {
						n++
					}
				}
				if n != threshold {
					what := "the session began"
					if k > 0 {
						what = fmt.Sprintf("the probe timeout credited at the re-check (%s)", plan[k-1])
					}
					fail("the consecutive-timeout run reached the threshold after %d probe timeouts since %s; the threshold is %d", n, what, threshold)
				}
				if eof && !droppedAt.After(r) && k < len(plan)-1 {
					fail("the link was dropped at +%v although %s appeared before the final re-check of that probe timeout", droppedAt.Sub(t0), plan[k])
				}
				prev = r
			}
			if len(rc) > len(plan) {
				fail("%d final re-checks, the link should have been dropped at number %d", len(rc), len(plan))
			}
			if !eof {
				if len(rc) < len(plan) {
					fail("the dead link was never dropped (only %d of the %d expected threshold crossings happened)", len(rc), len(plan))
				}
				fail("the dead link was not dropped at the re-check that saw no life")
			}
			if len(rc) < len(plan) {
				// dropped before the last planned re-check: either a credited one dropped it (reported above)
				// or the drop did not go through a re-check the harness could identify
				fail("the link was dropped at +%v after %d identified re-checks; %d were planned", droppedAt.Sub(t0), len(rc), len(plan))
			}
			if !droppedAt.Equal(rc[len(rc)-1]) {
				fail("the link was dropped at +%v, the re-check without life was at +%v", droppedAt.Sub(t0), rc[len(rc)-1].Sub(t0))
			}
			mu.Lock()
			for _, e := range sendErrs {
				if e == nil {
					mu.Unlock()
					fail("a reply-expected send the peer never answered reported success")
				}
			}
			mu.Unlock()
			ev.Case(len(plan) > 1, fmt.Sprint(active, threshold, I, T6, plan), func() any {
				return fmt.Sprintf("threshold %d interval %v T6 %v, life at the re-checks %v: %d probes, dropped at +%v", threshold, I, T6, plan, len(probes), droppedAt.Sub(t0))
			}, "c19c:rechecks:"+fmt.Sprint(len(plan)), "c19c:last-life:"+plan[max(0, len(plan)-2)])
		})
	})
}
