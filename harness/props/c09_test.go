package props

// C09: nothing crosses TCP connection generations. A program of sends (unique payload tokens)
// runs on each of 1-3 consecutive generations of one open connection; each generation is ended by
// a drawn fault placed so that sends are queued, mid-write or awaiting a reply. The raw peer
// records on which generation every frame is read; on the next generation it also plays stale
// replies carrying the previous generation's system bytes.

import (
	"context"
	"errors"
	"fmt"
	"net"
	"strings"
	"sync"
	"testing"
	"testing/synctest"
	"time"

	"github.com/arloliu/go-secs/v2/hsms"
	"github.com/arloliu/go-secs/v2/secs1"
	"github.com/arloliu/go-secs/v2/secs2"
	"pgregory.net/rapid"
	"verif/harness/ev"
	"verif/harness/netsim"
	"verif/harness/ref/e37"
	"verif/harness/ref/e4"
	"verif/harness/vt"
)

type c09Call struct {
	tok      int
	gen      int
	kind     string // syncW syncNoW async reply forward forwardAsync
	policy   string // for syncW: reply none
	start    time.Time
	returned time.Time
	err      error
	reply    *hsms.DataMessage
	done     bool
}

var c09Faults = []string{"peer-close", "peer-reset", "reply-then-close", "reply-then-close", "stall-queue-reset", "cut-mid-frame", "t8-stall", "linktest-dead", "separate", "write-timeout"}

func TestC09Generations(t *testing.T) {
	ev.Rule("1-3 consecutive TCP generations of one open connection (both roles); on each a program of 2-10 sends (sync W with reply / duplicate reply / no reply, sync no-W, async, reply, forward, forward-async; unique tokens) from concurrent goroutines, ended by a drawn fault: peer close / reset / reply-then-close in one instant / reader stalled with a 4-slot async queue full then reset / reset after a drawn number of bytes (mid-frame) / T8 stall / unanswered linktests / Separate.req / write timeout on a closed window; the final generation may instead end by Close(); on the next generation the peer replays stale replies with the old system bytes and answers nothing else unless asked; oracle: a frame read on generation g carries a token whose call had not returned before g began; a reply never completes a send of another generation (a no-reply send of g+1 must still hit T3 although stale replies arrive); every call pending when a generation ends returns at that very instant with ErrConnClosed / its own error; async frames accepted on g never appear later; non-trivial = at least one send was queued, mid-write or awaiting a reply at the fault")
	vt.Bubble(t, func(t *testing.T) {
		vt.CheckBubble(t, 12000, 600000, func(rt *rapid.T) { runC09(rt) })
	})
}

func runC09(rt *rapid.T) {
	active := rapid.Bool().Draw(rt, "active")
	const t3 = time.Second
	w, err := newWorld(worldOpt{active: active, connOpts: []hsms.ConnOption{hsms.WithT3(t3), hsms.WithT6(300 * time.Millisecond), hsms.WithT8(200 * time.Millisecond),
		hsms.WithT7(time.Hour), hsms.WithT5(50 * time.Millisecond), hsms.WithReconnectBackoff(20*time.Millisecond, 2), hsms.WithSenderQueueSize(4),
		hsms.WithWriteTimeout(400 * time.Millisecond), hsms.WithLinktestFailThreshold(2), hsms.WithCloseTimeout(2 * time.Second)}})
	if err != nil {
		rt.Fatalf("VERIF-INFRA: %v", err)
	}
	hl := &recvLog{}
	w.conn.AddDataMessageHandler(hl.handler)
	var peers []*netsim.Peer
	var hist []string
	var hmu sync.Mutex
	logf := func(f string, a ...any) {
		hmu.Lock()
		hist = append(hist, fmt.Sprintf("[%v] ", time.Now().Format("05.000"))+fmt.Sprintf(f, a...))
		hmu.Unlock()
	}
	var calls []*c09Call
	var cmu sync.Mutex
	defer func() {
		_ = w.conn.Close()
		for _, p := range peers {
			p.Close()
		}
		if w.ln != nil {
			_ = w.ln.Close()
		}
		synctest.Wait()
	}()
	fail := func(f string, a ...any) {
		var sb strings.Builder
		cmu.Lock()
		for _, c := range calls {
			fmt.Fprintf(&sb, "  call t%d gen %d %s/%s: start %s returned %s (done=%v) reply=%v err=%v\n", c.tok, c.gen, c.kind, c.policy,
				c.start.Format("05.000"), c.returned.Format("05.000"), c.done, c.reply != nil, c.err)
		}
		cmu.Unlock()
		var wire strings.Builder
		for g, p := range peers {
			fmt.Fprintf(&wire, " generation %d:\n%s", g+1, p.Transcript())
		}
		rt.Fatalf("C09 violated (active=%v): %s\n%s%s\nwire:\n%s", active, fmt.Sprintf(f, a...), sb.String(), strings.Join(hist, "\n"), wire.String())
	}
	if err := w.conn.Open(context.Background(), hsms.OpenBackground); err != nil {
		rt.Fatalf("VERIF-INFRA: %v", err)
	}
	gens := rapid.IntRange(1, 3).Draw(rt, "generations")
	tok := 0
	nontrivial := false
	var cls []string
	type oldTx struct {
		sys    uint32
		stream byte
		fn     byte
		tok    int
	}
	var stale []oldTx // transactions of earlier generations the peer saw (for stale replies)
	prevFault := ""
	prevDup, thisDup := false, false // a duplicate reply was played on the previous / this generation
	tokenGen := map[int]int{}
	for g := 1; g <= gens; g++ {
		fault := rapid.SampledFrom(c09Faults).Draw(rt, "fault")
		// the auto-linktest is read at each entry to Selected: enable it only where it is the fault
		lt := time.Duration(0)
		if fault == "linktest-dead" {
			lt = 100 * time.Millisecond
		}
		if err := w.conn.UpdateConfigOptions(hsms.WithLinktestInterval(lt)); err != nil {
			rt.Fatalf("VERIF-INFRA: %v", err)
		}
		p, err := w.peerUp(5 * time.Second)
		if err != nil {
			fail("generation %d was never established: %v", g, err)
		}
		peers = append(peers, p)
		p.SetAuto(true, false)
		begin := time.Now()
		if err := w.selectAsPeer(p, 0xA0000000+uint32(g)); err != nil {
			fail("generation %d: select failed: %v", g, err)
		}
		logf("generation %d selected", g)
		// the peer's reply policy for this generation
		policies := map[int]string{}
		var pmu sync.Mutex
		var sawTx []oldTx
		p.SetOnFrame(func(f e37.Frame) {
			if !f.IsData() {
				return
			}
			k, ok := tokenOf(f)
			if !ok {
				return
			}
			pmu.Lock()
			pol := policies[k]
			if f.WBit() {
				sawTx = append(sawTx, oldTx{f.Sys, f.Stream(), f.Function(), k})
			}
			pmu.Unlock()
			if pol == "reply" || pol == "reply-twice" {
				r := e37.DataFrame(f.Session, f.Stream(), f.Function()+1, false, f.Sys, asciiBody(fmt.Sprintf("re%d", k)))
				if pol == "reply-twice" {
					_ = p.Send(r, r) // a duplicate reply in the same TCP write: it may be left buffered
				} else {
					_ = p.Send(r)
				}
			}
		})
		// stale replies for the previous generations' transactions arrive first on the new link
		if len(stale) > 0 && rapid.Bool().Draw(rt, "playStale") {
			for _, s := range stale {
				_ = p.Send(e37.DataFrame(0xffff, s.stream, s.fn+1, false, s.sys, asciiBody(fmt.Sprintf("re%d", s.tok))))
			}
			cls = append(cls, "c09:stale-replies-played")
			synctest.Wait()
		}
		last := g == gens
		if last && rapid.IntRange(0, 2).Draw(rt, "endByClose") == 0 {
			fault = "close"
		}
		cls = append(cls, "c09:fault:"+fault)
		if fault == "stall-queue-reset" || fault == "write-timeout" {
			// the peer stops reading and its window is nearly closed: the library's writer blocks
			p.C.SetInboundWindow(8)
			p.C.StallInbound(true)
		}
		if fault == "cut-mid-frame" {
			p.C.CutAfterRead(p.C.BytesRead()+int64(rapid.IntRange(1, 60).Draw(rt, "cutBytes")), nil)
		}
		// the program. While the peer's window is closed only ONE goroutine of the library may write:
		// a second writer would wait on the write mutex, which testing/synctest does not count as
		// durably blocked, and virtual time could never advance (harness limitation, see DESIGN.md).
		stalled := fault == "stall-queue-reset" || fault == "write-timeout"
		stallMode := ""
		if stalled {
			stallMode = rapid.SampledFrom([]string{"all-async", "single-sync"}).Draw(rt, "stallMode")
		}
		n := rapid.IntRange(2, 10).Draw(rt, "sends")
		if stallMode == "single-sync" {
			n = 1
		}
		var wg sync.WaitGroup
		var mine []*c09Call
		for i := 0; i < n; i++ {
			c := &c09Call{tok: tok, gen: g}
			tok++
			c.kind = rapid.SampledFrom([]string{"syncW", "syncW", "syncNoW", "async", "async", "reply", "forward", "forwardAsync"}).Draw(rt, "kind")
			if (prevFault == "reply-then-close" || prevDup) && i < 3 && !stalled {
				c.kind = "syncW" // unanswered on this generation: only a reply of the OLD generation could complete it
			}
			switch stallMode {
			case "all-async":
				c.kind = rapid.SampledFrom([]string{"async", "reply", "forwardAsync"}).Draw(rt, "asyncKind")
			case "single-sync":
				c.kind = rapid.SampledFrom([]string{"syncW", "syncNoW", "forward"}).Draw(rt, "syncKind")
			}
			c.policy = "-"
			if c.kind == "syncW" {
				c.policy = rapid.SampledFrom([]string{"reply", "reply-twice", "none", "none"}).Draw(rt, "policy")
				if (prevFault == "reply-then-close" || prevDup) && i < 3 {
					c.policy = "none"
				}
				if c.policy == "reply-twice" {
					thisDup = true
				}
				if fault == "reply-then-close" {
					c.policy = "none" // the reply comes from the fault itself
				}
				pmu.Lock()
				policies[c.tok] = c.policy
				pmu.Unlock()
			}
			tokenGen[c.tok] = g
			cmu.Lock()
			calls = append(calls, c)
			cmu.Unlock()
			mine = append(mine, c)
			wg.Add(1)
			go func(c *c09Call) {
				defer wg.Done()
				body := secs2.A(fmt.Sprintf("t%d", c.tok))
				ctx := context.Background()
				cmu.Lock()
				c.start = time.Now()
				cmu.Unlock()
				var err error
				var rep *hsms.DataMessage
				switch c.kind {
				case "syncW":
					rep, err = w.conn.SendDataMessage(ctx, 1, 1, true, body)
				case "syncNoW":
					_, err = w.conn.SendDataMessage(ctx, 6, 11, false, body)
				case "async":
					err = w.conn.SendDataMessageAsync(ctx, 6, 13, false, body)
				case "reply":
					prim, _ := hsms.NewDataMessage(3, 1, true, 0xffff, sysArr(0xC0000000+uint32(c.tok)), nil)
					err = w.conn.ReplyDataMessage(ctx, prim, body)
				case "forward", "forwardAsync":
					m, _ := hsms.NewDataMessage(5, 1, false, 0xffff, sysArr(0xD0000000+uint32(c.tok)), body)
					if c.kind == "forward" {
						err = w.conn.ForwardDataMessage(ctx, m)
					} else {
						err = w.conn.ForwardDataMessageAsync(ctx, m)
					}
				}
				cmu.Lock()
				c.returned, c.err, c.reply, c.done = time.Now(), err, rep, true
				cmu.Unlock()
			}(c)
		}
		synctest.Wait() // every send is now on the wire, queued, blocked in a write, or awaiting its reply
		pending := 0
		cmu.Lock()
		for _, c := range mine {
			if !c.done {
				pending++
			}
		}
		cmu.Unlock()
		if pending > 0 {
			nontrivial = true
			cls = append(cls, "c09:pending-at-fault")
		}
		// --- the fault ---
		var endAt time.Time
		waitEnd := func(d time.Duration) {
			// the generation has ended when the peer sees the library's side go away
			if !p.WaitEOF(d) {
				fail("generation %d: fault %s did not end the connection within %v", g, fault, d)
			}
			_, endAt, _ = p.EOF()
		}
		switch fault {
		case "peer-close":
			_ = p.C.Close()
			endAt = time.Now()
		case "peer-reset", "stall-queue-reset":
			p.C.Reset()
			_ = p.C.Close()
			endAt = time.Now()
		case "reply-then-close":
			pmu.Lock()
			txs := append([]oldTx(nil), sawTx...)
			pmu.Unlock()
			var fs []e37.Frame
			for _, s := range txs {
				fs = append(fs, e37.DataFrame(0xffff, s.stream, s.fn+1, false, s.sys, asciiBody(fmt.Sprintf("re%d", s.tok))))
			}
			_ = p.Send(fs...)
			_ = p.C.Close()
			endAt = time.Now()
		case "cut-mid-frame":
			if eof, at, _ := p.EOF(); eof {
				endAt = at
			} else {
				// the cut point was not reached by this program: fall back to a reset
				p.C.Reset()
				_ = p.C.Close()
				endAt = time.Now()
			}
		case "t8-stall":
			_ = p.SendRaw([]byte{0, 0, 0}) // three bytes of a length field, then silence
			waitEnd(time.Second)
		case "linktest-dead":
			p.SetAuto(false, false)
			waitEnd(5 * time.Second)
		case "separate":
			_ = p.Send(e37.Control(e37.SeparateReq, 0xffff, 0, 0, 0xABCD))
			waitEnd(time.Second)
		case "write-timeout":
			time.Sleep(450 * time.Millisecond) // the write deadline (400 ms) expires on the closed window
			p.C.StallInbound(false)            // let the peer's reader observe what the library did
			waitEnd(time.Second)
		case "close":
			cerr := w.conn.Close()
			endAt = time.Now()
			if cerr != nil {
				fail("Close returned %v", cerr)
			}
		}
		logf("generation %d ended by %s", g, fault)
		prevFault = fault
		prevDup, thisDup = thisDup, false
		if active && !last && w.ln == nil {
			_ = w.listen()
		}
		done := make(chan struct{})
		go func() { wg.Wait(); close(done) }()
		select {
		case <-done:
		case <-time.After(10 * time.Second):
			fail("generation %d (%s): a send is still blocked 10 s after the generation ended", g, fault)
		}
		synctest.Wait()
		// --- per-call oracle for this generation ---
		cmu.Lock()
		for _, c := range mine {
			pendingAtEnd := c.returned.After(endAt) || c.returned.Equal(endAt)
			if c.kind == "syncW" && c.policy == "none" && fault != "reply-then-close" && c.reply != nil {
				cmu.Unlock()
				fail("call t%d received a reply although the peer never answered it on generation %d", c.tok, g)
			}
			if c.reply != nil {
				if got := string(c.reply.AppendBodyTo(nil)); got != string(asciiBody(fmt.Sprintf("re%d", c.tok))) {
					cmu.Unlock()
					fail("call t%d received the reply %q of another transaction", c.tok, got)
				}
			}
			if c.kind == "syncW" && c.reply == nil && c.err == nil {
				cmu.Unlock()
				fail("call t%d returned a nil reply with a nil error", c.tok)
			}
			if pendingAtEnd && c.returned.Sub(endAt) > time.Millisecond {
				// still waiting when the generation ended: must complete at once
				ok := errors.Is(c.err, hsms.ErrT3Timeout) && c.returned.Sub(c.start) >= t3
				if !ok {
					cmu.Unlock()
					fail("call t%d was pending when generation %d ended (%s) and returned only %v later with %v", c.tok, g, fault, c.returned.Sub(endAt), c.err)
				}
			}
			if pendingAtEnd && c.kind == "syncW" && c.reply == nil {
				if !errors.Is(c.err, hsms.ErrConnClosed) && !errors.Is(c.err, hsms.ErrT3Timeout) && !errors.Is(c.err, hsms.ErrNotSelectedState) && !isNetErr(c.err) {
					cmu.Unlock()
					fail("call t%d pending at the end of generation %d returned %v, want the connection-closed error", c.tok, g, c.err)
				}
			}
		}
		cmu.Unlock()
		pmu.Lock()
		stale = append(stale, sawTx...)
		pmu.Unlock()
		_ = begin
		if fault == "close" {
			break
		}
	}
	// --- cross-generation frame oracle ---
	for gi, p := range peers {
		for _, rf := range p.Frames() {
			if !rf.F.IsData() {
				continue
			}
			k, ok := tokenOf(rf.F)
			if !ok {
				continue
			}
			if tokenGen[k] != gi+1 {
				fail("a frame carrying token t%d, accepted for sending on generation %d, was transmitted on generation %d: %v", k, tokenGen[k], gi+1, rf.F)
			}
		}
	}
	// a stale reply must have gone to the handlers (or nowhere), never to a caller: checked above by
	// reply-body identity and by "no reply without an answer".
	role := "passive"
	if active {
		role = "active"
	}
	cls = append(cls, "c09:role:"+role, fmt.Sprintf("c09:gens:%d", len(peers)))
	ev.Case(nontrivial, strings.Join(hist, "|")+fmt.Sprint(role, tok), func() any {
		var out []string
		cmu.Lock()
		for _, c := range calls {
			out = append(out, fmt.Sprintf("t%d gen %d %s/%s -> reply=%v err=%v", c.tok, c.gen, c.kind, c.policy, c.reply != nil, c.err))
		}
		cmu.Unlock()
		return map[string]any{"role": role, "events": hist, "calls": out}
	}, cls...)
}

func isNetErr(err error) bool {
	if err == nil {
		return false
	}
	s := err.Error()
	return strings.Contains(s, "netsim:") || strings.Contains(s, "closed network connection") || strings.Contains(s, "i/o timeout")
}

// TestC09Secs1: the same generation property on the SECS-I transport. A send is issued at the very
// instant the line dies (or while the peer withholds EOT / ACK and then drops); it must complete
// promptly with an error, the connection must come back, and nothing of the old generation may be
// transmitted on the new line.
func TestC09Secs1(t *testing.T) {
	ev.Rule("a secs1 connection (host/equipment x active/passive) against the reference E4 line peer in virtual time; on each of 1-3 line generations 1-3 sequential sends; the generation is ended by the peer closing or resetting the line at a drawn point: while idle at the same instant as a send call, after the library's ENQ, after the peer's EOT (mid-block), or instead of the ACK; oracle: the pending send returns an error within T2 x (retry limit + 1) + 1 s (never hangs), a later send on the next generation succeeds, and no block carrying a token of an earlier generation appears on a later line; non-trivial = a send was pending when the line died")
	vt.Bubble(t, func(t *testing.T) {
		vt.CheckBubble(t, 4000, 200000, func(rt *rapid.T) { runC09Secs1(rt) })
	})
}

func runC09Secs1(rt *rapid.T) {
	active, equip := rapid.Bool().Draw(rt, "active"), rapid.Bool().Draw(rt, "equip")
	const T1, T2 = 50 * time.Millisecond, 150 * time.Millisecond
	rty := rapid.IntRange(0, 2).Draw(rt, "retryLimit")
	w, err := newS1World(s1Opt{active: active, equip: equip, device: 7, opts: []secs1.Option{secs1.WithT1(T1), secs1.WithT2(T2), secs1.WithT4(time.Second), secs1.WithRetryLimit(rty),
		secs1.WithConnectionOption(hsms.WithT5(40 * time.Millisecond)), secs1.WithConnectionOption(hsms.WithReconnectBackoff(10*time.Millisecond, 2)), secs1.WithConnectionOption(hsms.WithCloseTimeout(2 * time.Second))}})
	if err != nil {
		rt.Fatalf("VERIF-INFRA: %v", err)
	}
	var conns []net.Conn
	var hist []string
	defer func() {
		_ = w.conn.Close()
		for _, c := range conns {
			_ = c.Close()
		}
		if w.ln != nil {
			_ = w.ln.Close()
		}
		synctest.Wait()
	}()
	fail := func(p *e4.Peer, f string, a ...any) {
		tr := ""
		if p != nil {
			tr = strings.Join(p.Trace, "\n  ")
		}
		rt.Fatalf("C09 violated (secs1 active=%v equip=%v retry limit %d): %s\nhistory:\n  %s\nlast line:\n  %s", active, equip, rty, fmt.Sprintf(f, a...), strings.Join(hist, "\n  "), tr)
	}
	if err := w.conn.Open(context.Background(), hsms.OpenBackground); err != nil {
		rt.Fatalf("VERIF-INFRA: %v", err)
	}
	gens := rapid.IntRange(1, 3).Draw(rt, "generations")
	tok := 0
	tokGen := map[int]int{}
	pendingAtDrop := false
	for g := 1; g <= gens; g++ {
		synctest.Wait()
		c, err := w.lineUp(5 * time.Second)
		if err != nil {
			fail(nil, "line generation %d was never established: %v", g, err)
		}
		conns = append(conns, c)
		p := &e4.Peer{C: c, IsMaster: !equip, T1: T1, T2: T2}
		if !waitState(w.conn, hsms.SelectedState, time.Second) {
			fail(p, "generation %d never reported Selected", g)
		}
		// a healthy send first: tokens of this generation only
		for i, k := 0, rapid.IntRange(0, 2).Draw(rt, "healthy"); i < k; i++ {
			id := tok
			tok++
			tokGen[id] = g
			errCh := make(chan error, 1)
			go func() {
				ctx, cancel := ctxT(5 * time.Second)
				defer cancel()
				_, e := w.conn.SendDataMessage(ctx, 1, 1, false, secs2.A(fmt.Sprintf("t%d", id)))
				errCh <- e
			}()
			blocks, rerr := p.ReceiveMessage(time.Second)
			if e := <-errCh; e != nil || rerr != nil {
				fail(p, "a send on a healthy line failed: %v / %v", e, rerr)
			}
			for _, b := range blocks {
				if n, ok := tokenOfBody(b.Body); ok && tokGen[n] != g {
					fail(p, "a block carrying token t%d of generation %d appeared on generation %d", n, tokGen[n], g)
				}
			}
		}
		// the generation-ending fault, with a send in flight
		where := rapid.SampledFrom([]string{"same-instant", "after-enq", "after-eot", "instead-of-ack"}).Draw(rt, "dropAt")
		id := tok
		tok++
		tokGen[id] = g
		start := time.Now()
		errCh := make(chan error, 1)
		go func() {
			ctx, cancel := ctxT(30 * time.Second)
			defer cancel()
			_, e := w.conn.SendDataMessage(ctx, 1, 3, false, secs2.A(fmt.Sprintf("t%d", id)))
			errCh <- e
		}()
		drop := func() {
			if rapid.Bool().Draw(rt, "reset") {
				c.Reset()
			}
			_ = c.Close()
		}
		switch where {
		case "same-instant":
			drop()
		case "after-enq":
			b := make([]byte, 1)
			_ = c.SetReadDeadline(time.Now().Add(time.Second))
			if n, _ := c.Read(b); n != 1 || b[0] != e4.ENQ {
				fail(p, "expected ENQ from the library, got %v", b[:n])
			}
			drop()
		case "after-eot":
			b := make([]byte, 1)
			_ = c.SetReadDeadline(time.Now().Add(time.Second))
			if n, _ := c.Read(b); n != 1 || b[0] != e4.ENQ {
				fail(p, "expected ENQ from the library, got %v", b[:n])
			}
			_, _ = c.Write([]byte{e4.EOT})
			buf := make([]byte, 5)
			_ = c.SetReadDeadline(time.Now().Add(time.Second))
			_, _ = c.Read(buf) // a few characters of the block
			drop()
		case "instead-of-ack":
			p.Respond = func(e4.RecvBlock) byte { return 0 } // take the block, answer nothing
			_, _, _ = p.ServeOne(time.Second)
			drop()
		}
		hist = append(hist, fmt.Sprintf("generation %d: send t%d in flight, line dropped %s", g, id, where))
		bound := T2*time.Duration(rty+1) + time.Second
		select {
		case e := <-errCh:
			if e == nil && where != "same-instant" {
				fail(p, "the send returned success although the line died before its block was acknowledged")
			}
			if d := time.Since(start); d > bound {
				fail(p, "the pending send returned only after %v (bound %v)", d, bound)
			}
			if errors.Is(e, context.Canceled) || errors.Is(e, context.DeadlineExceeded) {
				fail(p, "the pending send ended with %v after %v although its own context (30 s) was neither cancelled nor expired", e, time.Since(start))
			}
			pendingAtDrop = true
		case <-time.After(bound + 5*time.Second):
			fail(p, "the send pending when the line died never returned")
		}
		if active {
			_ = w.listen()
		}
	}
	// a final generation: works, and carries nothing old
	synctest.Wait()
	c, err := w.lineUp(5 * time.Second)
	if err != nil {
		fail(nil, "the line was never re-established: %v", err)
	}
	conns = append(conns, c)
	p := &e4.Peer{C: c, IsMaster: !equip, T1: T1, T2: T2}
	waitState(w.conn, hsms.SelectedState, time.Second)
	errCh := make(chan error, 1)
	go func() {
		ctx, cancel := ctxT(5 * time.Second)
		defer cancel()
		_, e := w.conn.SendDataMessage(ctx, 1, 5, false, secs2.A("final"))
		errCh <- e
	}()
	blocks, rerr := p.ReceiveMessage(time.Second)
	if e := <-errCh; e != nil || rerr != nil {
		fail(p, "after the drops a send on the new line fails: %v / %v", e, rerr)
	}
	for _, b := range blocks {
		if _, ok := tokenOfBody(b.Body); ok {
			fail(p, "a block of an earlier generation appeared on the final line: %v", b)
		}
	}
	_ = p.Idle(20 * time.Millisecond)
	for _, rb := range p.Received {
		if n, ok := tokenOfBody(rb.Block.Body); ok {
			fail(p, "a block carrying token t%d of an earlier generation was transmitted on the final line", n)
		}
	}
	role := "host"
	if equip {
		role = "equipment"
	}
	ev.Case(pendingAtDrop, strings.Join(hist, "|")+fmt.Sprint(active, equip, rty), func() any {
		return map[string]any{"role": role, "active": active, "retryLimit": rty, "history": hist}
	}, "c09s1:role:"+role, fmt.Sprintf("c09s1:gens:%d", gens))
}

func tokenOfBody(b []byte) (int, bool) {
	if len(b) < 3 || b[0] != 0x41 || b[2] != 't' {
		return 0, false
	}
	n := 0
	for _, c := range b[3:] {
		if c < '0' || c > '9' {
			return 0, false
		}
		n = n*10 + int(c-'0')
	}
	return n, len(b) > 3
}
