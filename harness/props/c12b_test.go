package props

// C12 (end to end, virtual time): messages DELIVERED by a connection - HSMS-SS and SECS-I - are as
// immutable as any other: an application may keep them past the handler; whatever the connection
// receives, sends or re-assembles afterwards must not change them.

import (
	"bytes"
	"context"
	"fmt"
	"sync"
	"testing"
	"testing/synctest"
	"time"

	"github.com/arloliu/go-secs/v2/hsms"
	"github.com/arloliu/go-secs/v2/secs1"
	"pgregory.net/rapid"
	"verif/harness/ev"
	"verif/harness/netsim"
	"verif/harness/obs"
	"verif/harness/ref/e37"
	"verif/harness/ref/e4"
	"verif/harness/vt"
)

type kept struct {
	m     *hsms.DataMessage
	frame []byte // header + body as observed INSIDE the handler
	snap  string // full observation snapshot of the body item inside the handler
}

func TestC12Delivered(t *testing.T) {
	ev.Rule("a Selected HSMS-SS connection or a live SECS-I line (both roles); the peer sends 3-8 messages whose body sizes are drawn so that later ones are often equal to or smaller than earlier ones (0 B .. 3 blocks / 800 B, binary and ASCII and list bodies); the data handler keeps every *DataMessage and records, inside the handler, its header+body bytes and a full observation snapshot of Item(); after all traffic (and a final outbound message) every kept message is observed again. Oracle: bytes and snapshot are unchanged and equal what the peer sent; non-trivial = some later message is no larger than an earlier one")
	vt.Bubble(t, func(t *testing.T) {
		vt.CheckBubble(t, 2000, 100000, func(rt *rapid.T) {
			useSecs1 := rapid.Bool().Draw(rt, "secs1")
			active, equip := rapid.Bool().Draw(rt, "active"), rapid.Bool().Draw(rt, "equip")
			var mu sync.Mutex
			var keep []kept
			handler := func(m *hsms.DataMessage, _ hsms.SECS2Endpoint) {
				h := m.HeaderBytes()
				k := kept{m: m, frame: append(h[:], m.AppendBodyTo(nil)...)}
				if it, err := m.Item(); err == nil && it != nil {
					k.snap = obs.Snapshot(it)
				}
				mu.Lock()
				keep = append(keep, k)
				mu.Unlock()
			}
			n := rapid.IntRange(3, 8).Draw(rt, "messages")
			bodies := make([][]byte, n)
			shrinks := false
			for i := range bodies {
				size := rapid.SampledFrom([]int{0, 1, 5, 40, 200, 244, 245, 500, 800}).Draw(rt, "size")
				var b []byte
				switch {
				case size == 0:
				case rapid.Bool().Draw(rt, "ascii"):
					b = append([]byte{0x41, 0x02, byte(size >> 8), byte(size)}, bytes.Repeat([]byte{byte('a' + i)}, size)...)
					b[0] = 0x42 // ASCII, 2 length bytes
					b = append(b[:1], b[2:]...)
				default:
					b = append([]byte{0x22, byte(size >> 8), byte(size)}, bytes.Repeat([]byte{byte(0x10 + i)}, size)...)
				}
				bodies[i] = b
				if i > 0 && len(b) <= len(bodies[i-1]) {
					shrinks = true
				}
			}
			var want [][]byte
			if useSecs1 {
				const T1, T2 = 50 * time.Millisecond, 150 * time.Millisecond
				w, err := newS1World(s1Opt{active: active, equip: equip, device: 12, opts: []secs1.Option{secs1.WithT1(T1), secs1.WithT2(T2), secs1.WithT4(time.Second), secs1.WithRetryLimit(1),
					secs1.WithConnectionOption(hsms.WithT3(time.Second)), secs1.WithConnectionOption(hsms.WithCloseTimeout(2 * time.Second))}})
				if err != nil {
					rt.Fatalf("VERIF-INFRA: %v", err)
				}
				w.conn.AddDataMessageHandler(handler)
				var c *netsim.Conn
				defer func() {
					_ = w.conn.Close()
					if c != nil {
						_ = c.Close()
					}
					if w.ln != nil {
						_ = w.ln.Close()
					}
					synctest.Wait()
				}()
				if err := w.conn.Open(context.Background(), hsms.OpenBackground); err != nil {
					rt.Fatalf("VERIF-INFRA: %v", err)
				}
				if c, err = w.lineUp(time.Second); err != nil {
					rt.Fatalf("VERIF-INFRA: %v", err)
				}
				p := &e4.Peer{C: c, IsMaster: !equip, T1: T1, T2: T2}
				if !waitState(w.conn, hsms.SelectedState, time.Second) {
					rt.Fatalf("VERIF-INFRA: never Selected")
				}
				for i, b := range bodies {
					msg := e4.Message{Device: 12, R: !equip, Stream: byte(1 + i), Function: 1, Sys: 0x12000000 + uint32(i), Body: b}
					for _, blk := range e4.Split(msg) {
						if r := p.SendRaw(blk.Bytes(), nil); r.Err != nil || r.Resp != e4.ACK {
							rt.Fatalf("VERIF-INFRA: block not acknowledged: %+v", r)
						}
					}
					want = append(want, frameOf(&msg))
				}
				synctest.Wait()
			} else {
				w, err := newWorld(worldOpt{active: active, equip: equip, connOpts: []hsms.ConnOption{hsms.WithT3(time.Second)}})
				if err != nil {
					rt.Fatalf("VERIF-INFRA: %v", err)
				}
				w.conn.AddDataMessageHandler(handler)
				var p *netsim.Peer
				defer func() {
					_ = w.conn.Close()
					if p != nil {
						p.Close()
					}
					if w.ln != nil {
						_ = w.ln.Close()
					}
					synctest.Wait()
				}()
				if err := w.conn.Open(context.Background(), hsms.OpenBackground); err != nil {
					rt.Fatalf("VERIF-INFRA: %v", err)
				}
				if p, err = w.peerUp(time.Second); err != nil {
					rt.Fatalf("VERIF-INFRA: %v", err)
				}
				if err := w.selectAsPeer(p, 99); err != nil {
					rt.Fatalf("VERIF-INFRA: %v", err)
				}
				oneWrite := rapid.Bool().Draw(rt, "oneWrite")
				var frames []e37.Frame
				for i, b := range bodies {
					f := e37.DataFrame(0xffff, byte(1+i), 1, false, 0x12000000+uint32(i), b)
					frames = append(frames, f)
					want = append(want, f.Bytes()[4:])
				}
				if oneWrite {
					_ = p.Send(frames...)
				} else {
					for _, f := range frames {
						_ = p.Send(f)
						synctest.Wait()
					}
				}
				synctest.Wait()
			}
			mu.Lock()
			got := append([]kept(nil), keep...)
			mu.Unlock()
			if len(got) != n {
				rt.Fatalf("VERIF-INFRA: %d messages delivered, %d sent", len(got), n)
			}
			for i, k := range got {
				if !bytes.Equal(k.frame, want[i]) {
					rt.Fatalf("C12 violated: message %d as seen inside the handler differs from what the peer sent", i)
				}
				h := k.m.HeaderBytes()
				now := append(h[:], k.m.AppendBodyTo(nil)...)
				if !bytes.Equal(now, k.frame) {
					rt.Fatalf("C12 violated (secs1=%v): message %d of %d (%d body bytes), kept past its handler, changed after later messages were received: first difference at byte %d", useSecs1, i, n, len(bodies[i]), firstDiffAt(now, k.frame))
				}
				if it, err := k.m.Item(); err == nil && it != nil {
					if s := obs.Snapshot(it); s != k.snap {
						rt.Fatalf("C12 violated (secs1=%v): the body item of message %d, kept past its handler, changed after later messages were received", useSecs1, i)
					}
				}
			}
			tr := "hsms-ss"
			if useSecs1 {
				tr = "secs1"
			}
			ev.Case(shrinks, fmt.Sprint(useSecs1, active, equip, len(bodies), bodies), func() any {
				var sz []int
				for _, b := range bodies {
					sz = append(sz, len(b))
				}
				return fmt.Sprintf("%s: body sizes %v", tr, sz)
			}, "c12d:"+tr)
		})
	})
}

func firstDiffAt(a, b []byte) int {
	for i := 0; i < len(a) && i < len(b); i++ {
		if a[i] != b[i] {
			return i
		}
	}
	return min(len(a), len(b))
}
