package props

// C19 (pure part): generated observation histories folded through the library's two real linktest
// reducers exactly as the probe loop folds them, compared step by step with the reference model
// ref/fsm.Linktest and with two history-level invariants stated independently of both.

import (
	"fmt"
	"strings"
	"testing"

	"github.com/arloliu/go-secs/v2/hsmsss"
	"pgregory.net/rapid"
	"verif/harness/ev"
	"verif/harness/ref/fsm"
	"verif/harness/vt"
)

type ltObs struct {
	success                    bool
	sentAt, recvNow, inflight  int64
	recvFinal, inflightFinal   int64
	lifeAfterProbe, lifeBefore bool
}

func TestC19Reducers(t *testing.T) {
	ev.Rule("histories of probe outcomes with monotone clocks (receive before the probe / after the probe / exactly at the send stamp / none; in-flight 0 or >0 at evaluation and at the re-check), threshold 1..6, suppression on/off, folded through the real linktestFailureStep + linktestDisconnectRecheck as the loop folds them; oracle = ref/fsm.Linktest step by step + windowed history invariants; non-trivial = history has >=1 timeout with life before it and >=1 without")
	vt.Check(t, 100000, 5000000, func(rt *rapid.T) {
		suppress := rapid.Bool().Draw(rt, "suppress")
		threshold := rapid.IntRange(1, 6).Draw(rt, "threshold")
		n := rapid.IntRange(1, 24).Draw(rt, "n")
		model := &fsm.Linktest{Suppress: suppress, Threshold: threshold}
		// the loop's own run state
		fails, recvAtLastFail := 0, int64(0)
		clock, lastRecv := int64(1000), int64(0)
		var hist []ltObs
		var lines []string
		withLife, withoutLife, credits, restarts := 0, 0, 0, 0
		for i := 0; i < n; i++ {
			o := ltObs{}
			clock += int64(rapid.IntRange(1, 1000).Draw(rt, "gap"))
			if rapid.IntRange(0, 3).Draw(rt, "recvBefore") == 0 { // a frame arrives between probes
				lastRecv = clock
				o.lifeBefore = true
				clock += int64(rapid.IntRange(0, 5).Draw(rt, "gap2")) // 0: the frame carries the very stamp of the send
			}
			o.sentAt = clock
			o.success = rapid.IntRange(0, 4).Draw(rt, "success") == 0
			if o.success {
				clock += 10
				lastRecv = clock // the Linktest.rsp itself is a received frame
				hist = append(hist, o)
				fails = 0
				model.Success()
				lines = append(lines, fmt.Sprintf("probe@%d answered", o.sentAt))
				continue
			}
			clock += 500 // T6
			if rapid.IntRange(0, 4).Draw(rt, "recvAfter") == 0 {
				lastRecv = o.sentAt + int64(rapid.IntRange(1, 499).Draw(rt, "when"))
				o.lifeAfterProbe = true
			}
			o.recvNow = lastRecv
			if rapid.IntRange(0, 5).Draw(rt, "inflight") == 0 {
				o.inflight = int64(rapid.IntRange(1, 3).Draw(rt, "k"))
			}
			o.recvFinal, o.inflightFinal = o.recvNow, o.inflight
			switch rapid.IntRange(0, 7).Draw(rt, "final") {
			case 0:
				o.inflightFinal = o.inflight + 1
			case 1:
				clock++
				lastRecv = clock
				o.recvFinal = lastRecv
			}
			hist = append(hist, o)

			// --- the loop's fold over the real reducers ---
			prev := recvAtLastFail
			var credited bool
			fails, recvAtLastFail, credited = hsmsss.VerifLinktestFailureStep(suppress, o.recvNow, o.sentAt, o.inflight, fails, recvAtLastFail)
			disconnect := false
			if fails >= threshold {
				if hsmsss.VerifLinktestDisconnectRecheck(suppress, o.inflightFinal, o.recvFinal, o.sentAt) {
					disconnect = true
				} else {
					recvAtLastFail = prev
					fails = 0
					credited = true
				}
			}
			want := model.Timeout(o.sentAt, o.recvNow, o.inflight, o.recvFinal, o.inflightFinal)
			lines = append(lines, fmt.Sprintf("probe@%d timeout recvNow=%d inflight=%d recheck(recv=%d inflight=%d) -> run=%d credited=%v disconnect=%v", o.sentAt, o.recvNow, o.inflight, o.recvFinal, o.inflightFinal, fails, credited, disconnect))
			fail := func(f string, a ...any) {
				rt.Fatalf("C19 violated (suppress=%v threshold=%d): %s\n  %s", suppress, threshold, fmt.Sprintf(f, a...), strings.Join(lines, "\n  "))
			}
			if disconnect != want.Disconnect || (!disconnect && fails != model.Run) {
				fail("real fold: run=%d disconnect=%v; reference: run=%d disconnect=%v", fails, disconnect, model.Run, want.Disconnect)
			}
			if suppress && credited != want.Credited {
				fail("credited=%v, reference %v", credited, want.Credited)
			}
			// history-level invariants, stated on the raw history
			lifeSeen := suppress && (o.recvNow > o.sentAt || o.inflight > 0 || o.recvFinal > o.sentAt || o.inflightFinal > 0)
			if disconnect && lifeSeen {
				fail("disconnected at an evaluation that observed a sign of life")
			}
			if disconnect && !countingWindow(hist, suppress, threshold) {
				fail("disconnected although the last %d evaluations are not all counting timeouts", threshold)
			}
			if !disconnect && silentWindow(hist, suppress, threshold) {
				fail("not disconnected although the history ends with exactly %d silent timeouts after a reset point", threshold)
			}
			if lifeSeen || o.lifeBefore {
				withLife++
			} else {
				withoutLife++
			}
			if credited {
				credits++
			}
			if !credited && fails == 1 && o.lifeBefore {
				restarts++
			}
			if disconnect {
				break
			}
		}
		cls := []string{fmt.Sprintf("threshold:%d", threshold), fmt.Sprintf("suppress:%v", suppress)}
		if credits > 0 {
			cls = append(cls, "credited")
		}
		if restarts > 0 {
			cls = append(cls, "restart")
		}
		ev.Case(withLife > 0 && withoutLife > 0, strings.Join(lines, "|")+fmt.Sprint(suppress, threshold), func() any { return lines }, cls...)
	})
}

// countingWindow: the last `threshold` evaluations are all timeouts that may count by the statement
// (with suppression: no frame after the probe, nothing in flight, no frame received between them).
func countingWindow(h []ltObs, suppress bool, threshold int) bool {
	if len(h) < threshold {
		return false
	}
	w := h[len(h)-threshold:]
	for i, o := range w {
		if o.success {
			return false
		}
		if !suppress {
			continue
		}
		if o.recvNow > o.sentAt || o.inflight > 0 {
			return false
		}
		if i > 0 && o.recvNow > w[i-1].recvNow {
			return false
		}
	}
	return true
}

// silentWindow: the history ends with exactly `threshold` timeouts on a totally silent link
// (nothing received during the window, nothing in flight at any evaluation or re-check), and the
// evaluation before the window (if any) was a reset point: an answered probe or a failure that
// observed life. The statement then demands the disconnect at exactly this evaluation.
func silentWindow(h []ltObs, suppress bool, threshold int) bool {
	if len(h) < threshold {
		return false
	}
	w := h[len(h)-threshold:]
	for i, o := range w {
		if o.success {
			return false
		}
		if suppress {
			if o.recvNow > o.sentAt || o.inflight > 0 || o.recvFinal > o.sentAt || o.inflightFinal > 0 {
				return false
			}
			if i > 0 && o.recvNow != w[i-1].recvNow {
				return false
			}
		}
	}
	if len(h) == threshold {
		return true
	}
	p := h[len(h)-threshold-1]
	if p.success {
		return true
	}
	return suppress && (p.recvNow > p.sentAt || p.inflight > 0)
}
