package props

// C08: generated frame sequences sent by a raw peer to a real hsmsss connection (both roles,
// equipment/host, session-id validation on/off) inside a virtual-time bubble; after every write
// the library is allowed to go quiet (synctest.Wait) and the frames it sent back are compared
// field by field with the ref/fsm.Responder model.

import (
	"context"
	"fmt"
	"strings"
	"sync"
	"testing"
	"testing/synctest"
	"time"

	"github.com/arloliu/go-secs/v2/hsms"
	"pgregory.net/rapid"
	"verif/harness/ev"
	"verif/harness/netsim"
	"verif/harness/ref/e37"
	"verif/harness/ref/fsm"
	"verif/harness/vt"
)

type delivery struct {
	hdr  [10]byte
	blen int
}

type deliveries struct {
	mu sync.Mutex
	d  []delivery
}

func (d *deliveries) handler(m *hsms.DataMessage, _ hsms.SECS2Endpoint) {
	d.mu.Lock()
	d.d = append(d.d, delivery{m.HeaderBytes(), m.BodyLen()})
	d.mu.Unlock()
}

func (d *deliveries) take() []delivery {
	d.mu.Lock()
	defer d.mu.Unlock()
	out := d.d
	d.d = nil
	return out
}

func genSession(rt *rapid.T, cfg uint16) uint16 {
	switch rapid.IntRange(0, 4).Draw(rt, "sessKind") {
	case 0:
		return 0xffff
	case 1:
		return cfg
	case 2:
		return 0
	default:
		return uint16(rapid.IntRange(0, 0xffff).Draw(rt, "sess"))
	}
}

func genSys(rt *rapid.T, avoid map[uint32]bool) uint32 {
	for {
		var s uint32
		if rapid.Bool().Draw(rt, "sysSmall") {
			s = uint32(rapid.IntRange(0, 8).Draw(rt, "sys"))
		} else {
			s = rapid.Uint32().Draw(rt, "sys")
		}
		if s >= barrierBase && s < barrierBase+0x01000000 {
			continue
		}
		if avoid[s] {
			continue
		}
		return s
	}
}

func genBody(rt *rapid.T) []byte {
	switch rapid.IntRange(0, 3).Draw(rt, "bodyKind") {
	case 0:
		return nil
	case 1:
		return []byte{0x41, 0x02, 'o', 'k'} // A "ok"
	case 2:
		return []byte{0x01, 0x02, 0xa5, 0x01, 0x07, 0x41, 0x01, 'x'} // L[2] U1 7, A "x"
	default:
		return rapid.SliceOfN(rapid.Byte(), 1, 64).Draw(rt, "garbage")
	}
}

// genPeerFrame draws one frame of the peer alphabet, biased towards the meaningful classes.
// avoid holds system bytes that must not be reused by chance: the library's open transaction, and
// one that was answered earlier in the same TCP write (it stays registered until the waiting
// goroutine has run, so a second response in the same write may still be taken as a duplicate).
func genPeerFrame(rt *rapid.T, m *fsm.Responder, cfgSession uint16, avoid map[uint32]bool) e37.Frame {
	sess := genSession(rt, cfgSession)
	sys := genSys(rt, avoid)
	b2 := byte(0)
	b3 := byte(0)
	if rapid.IntRange(0, 5).Draw(rt, "dirtyHdr") == 0 {
		b2 = rapid.Byte().Draw(rt, "b2")
		b3 = rapid.Byte().Draw(rt, "b3")
	}
	kinds := []string{"select", "select", "deselect", "deselect", "linktest", "separate", "data", "data", "data",
		"orphan-rsp", "orphan-rsp", "reject-orphan", "ptype", "ptype", "stype", "stype", "ctl-body", "ctl-body", "random"}
	if m.HasOpenSelect {
		kinds = append(kinds, "own-select-rsp", "own-select-rsp", "own-select-rsp")
		if !m.Selected {
			kinds = append(kinds, "own-select-reject")
		}
	}
	switch k := rapid.SampledFrom(kinds).Draw(rt, "kind"); k {
	case "select":
		return e37.Frame{Session: sess, B2: b2, B3: b3, SType: e37.SelectReq, Sys: sys}
	case "deselect":
		return e37.Frame{Session: sess, B2: b2, B3: b3, SType: e37.DeselectReq, Sys: sys}
	case "linktest":
		return e37.Frame{Session: sess, B2: b2, B3: b3, SType: e37.LinktestReq, Sys: sys}
	case "separate":
		return e37.Frame{Session: sess, B2: b2, B3: b3, SType: e37.SeparateReq, Sys: sys}
	case "data":
		stream := byte(rapid.IntRange(0, 127).Draw(rt, "stream"))
		fn := byte(rapid.IntRange(0, 255).Draw(rt, "function"))
		w := fn%2 == 1 && rapid.Bool().Draw(rt, "w")
		return e37.DataFrame(sess, stream, fn, w, sys, genBody(rt))
	case "orphan-rsp":
		st := rapid.SampledFrom([]byte{e37.SelectRsp, e37.DeselectRsp, e37.LinktestRsp}).Draw(rt, "rspType")
		return e37.Frame{Session: sess, B2: b2, B3: byte(rapid.IntRange(0, 3).Draw(rt, "status")), SType: st, Sys: sys}
	case "reject-orphan":
		return e37.Frame{Session: sess, B2: b2, B3: byte(rapid.IntRange(0, 255).Draw(rt, "reason")), SType: e37.RejectReq, Sys: sys}
	case "ptype":
		return e37.Frame{Session: sess, B2: b2, B3: b3, PType: byte(rapid.IntRange(1, 255).Draw(rt, "ptype")),
			SType: rapid.Byte().Draw(rt, "stypeAny"), Sys: sys, Body: genBodyMaybe(rt)}
	case "stype":
		st := byte(8)
		if rapid.Bool().Draw(rt, "high") {
			st = byte(rapid.IntRange(10, 255).Draw(rt, "stype"))
		}
		return e37.Frame{Session: sess, B2: b2, B3: b3, SType: st, Sys: sys, Body: genBodyMaybe(rt)}
	case "ctl-body":
		st := rapid.SampledFrom([]byte{1, 2, 3, 4, 5, 6, 7, 9}).Draw(rt, "ctlType")
		return e37.Frame{Session: sess, B2: b2, B3: b3, SType: st, Sys: sys, Body: rapid.SliceOfN(rapid.Byte(), 1, 64).Draw(rt, "ctlBody")}
	case "own-select-rsp":
		status := byte(0)
		switch rapid.IntRange(0, 5).Draw(rt, "ownStatus") {
		case 0:
			status = 1
		case 1:
			if !m.Selected { // a refusal while the peer's own select already established the session is left out (E37 is silent on it)
				status = byte(rapid.IntRange(2, 255).Draw(rt, "refusal"))
			}
		}
		return e37.Frame{Session: sess, B3: status, SType: e37.SelectRsp, Sys: m.OpenSelect}
	case "own-select-reject":
		return e37.Frame{Session: sess, B2: 1, B3: byte(rapid.IntRange(1, 4).Draw(rt, "reason")), SType: e37.RejectReq, Sys: m.OpenSelect}
	default:
		f := e37.Frame{Session: sess, B2: rapid.Byte().Draw(rt, "rb2"), B3: rapid.Byte().Draw(rt, "rb3"),
			PType: byte(rapid.IntRange(0, 1).Draw(rt, "rp")), SType: byte(rapid.IntRange(0, 12).Draw(rt, "rs")), Sys: sys, Body: genBodyMaybe(rt)}
		return f
	}
}

func genBodyMaybe(rt *rapid.T) []byte {
	if rapid.Bool().Draw(rt, "hasBody") {
		return rapid.SliceOfN(rapid.Byte(), 1, 64).Draw(rt, "extraBody")
	}
	return nil
}

func frameEq(a, b e37.Frame) bool {
	return a.Session == b.Session && a.B2 == b.B2 && a.B3 == b.B3 && a.PType == b.PType && a.SType == b.SType && a.Sys == b.Sys && len(a.Body) == len(b.Body)
}

type c08Case struct {
	active, equip, validate bool
	session                 uint16
}

func TestC08Responder(t *testing.T) {
	ev.Rule("frame sequences (1-30 frames over: every SType 0..255, PType 0/non-0, header-only or with body, arbitrary session id / system bytes / byte 2 / byte 3; structured deselect->select->deselect, reject storms, orphan responses, Separate in each state, frames pipelined behind a Separate.req in the same write, a second TCP connection) written in groups of 1-4 frames per TCP write (in a third of the cases with 150 ms pauses between groups, T7 400 ms, write timeout 100 ms that may be switched off at runtime) to a real connection in both roles; oracle = ref/fsm.Responder, field-by-field comparison of every frame the library sent back + handler deliveries + State() at the quiescent end; non-trivial = the sequence crosses Selected<->NotSelected at least twice or contains >= 2 distinct reject classes")
	ev.Assume("A Select.rsp / Reject.req that refuses the library's own open Select.req while the peer's Select.req has already established the session, and responses whose system bytes equal an open transaction of another type, are not generated (E37 does not prescribe the outcome)")
	vt.Bubble(t, func(t *testing.T) {
		vt.CheckBubble(t, 20000, 1000000, func(rt *rapid.T) {
			c := c08Case{active: rapid.Bool().Draw(rt, "active"), equip: rapid.Bool().Draw(rt, "equip"), validate: rapid.Bool().Draw(rt, "validate")}
			c.session = genSession(rt, 0x1234)
			runC08(rt, c)
		})
	})
}

func runC08(rt *rapid.T, c c08Case) {
	// with the automatic linktest enabled the library has transactions of its own; the probe is only
	// let out (and left unanswered) at the very end of the sequence
	ownProbe := rapid.IntRange(0, 4).Draw(rt, "ownProbe") == 0
	copts := []hsms.ConnOption{hsms.WithSessionID(c.session), hsms.WithSessionIDValidation(c.validate), hsms.WithT7(10 * time.Second), hsms.WithT6(5 * time.Second)}
	// timed mode: time passes between the groups (never enough for a timer that is legitimately
	// running to expire): T7 400 ms counts from the latest entry to NOT SELECTED, a write deadline of
	// 100 ms belongs to one write only, and the write timeout may be switched off at runtime
	timed := !ownProbe && rapid.IntRange(0, 2).Draw(rt, "timed") == 0
	const c08T7, c08Pause = 400 * time.Millisecond, 150 * time.Millisecond
	if timed {
		copts = append(copts, hsms.WithT7(c08T7), hsms.WithWriteTimeout(100*time.Millisecond))
	}
	if ownProbe {
		copts = append(copts, hsms.WithLinktestInterval(400*time.Millisecond), hsms.WithLinktestFailThreshold(3), hsms.WithT6(50*time.Millisecond), hsms.WithT7(time.Hour))
	}
	w, err := newWorld(worldOpt{active: c.active, equip: c.equip, connOpts: copts})
	if err != nil {
		rt.Fatalf("VERIF-INFRA: world: %v", err)
	}
	dl := &deliveries{}
	w.conn.AddDataMessageHandler(dl.handler)
	var hist []string
	var p, p2 *netsim.Peer
	defer func() {
		_ = w.conn.Close()
		if p != nil {
			p.Close()
		}
		if p2 != nil {
			p2.Close()
		}
		if w.ln != nil {
			_ = w.ln.Close()
		}
		synctest.Wait()
	}()
	fail := func(f string, a ...any) {
		tr := ""
		if p != nil {
			tr = p.Transcript()
		}
		rt.Fatalf("C08 violated (active=%v equip=%v validate=%v session=%04x): %s\nsequence:\n  %s\nwire:\n%s", c.active, c.equip, c.validate, c.session,
			fmt.Sprintf(f, a...), strings.Join(hist, "\n  "), tr)
	}
	if err := w.conn.Open(context.Background(), hsms.OpenBackground); err != nil {
		rt.Fatalf("VERIF-INFRA: open: %v", err)
	}
	p, err = w.peerUp(time.Second)
	if err != nil {
		rt.Fatalf("VERIF-INFRA: %v", err)
	}
	m := &fsm.Responder{Validate: c.validate, Session: c.session}
	nsSince := time.Now() // the latest entry to NOT SELECTED
	writeTimeoutOff := false
	synctest.Wait()
	if c.active {
		got := p.Take()
		if len(got) != 1 || got[0].F.SType != e37.SelectReq || got[0].F.PType != 0 || got[0].F.Session != c.session || got[0].F.B2 != 0 || got[0].F.B3 != 0 || len(got[0].F.Body) != 0 {
			fail("an active endpoint must open with exactly one Select.req carrying its session id, got %v", got)
		}
		m.HasOpenSelect, m.OpenSelect = true, got[0].F.Sys
	} else if got := p.Take(); len(got) != 0 {
		fail("a passive endpoint sent %v before the peer said anything", got)
	}

	nGroups := rapid.IntRange(1, 12).Draw(rt, "groups")
	classes := map[string]bool{}
	crossings := 0
	disconnected := false
	endedBySeparate := false
	secondConnDone := false
	for g := 0; g < nGroups && !disconnected; g++ {
		if !c.active && !secondConnDone && rapid.IntRange(0, 9).Draw(rt, "secondConn") == 0 {
			// a second TCP connection to a passive endpoint with a live session
			secondConnDone = true
			c2, err := w.nw.Dial(context.Background(), w.addr)
			if err != nil {
				fail("second TCP connection could not even be established: %v", err)
			}
			p2 = netsim.NewPeer(c2)
			synctest.Wait()
			eof, _, _ := p2.EOF()
			if !eof || len(p2.Raw()) != 0 {
				fail("second TCP connection was not refused (eof=%v, %d bytes received)", eof, len(p2.Raw()))
			}
			hist = append(hist, "<second TCP connection: refused>")
			classes["second-connection"] = true
		}
		if timed && g > 0 {
			justOff := false
			if !writeTimeoutOff && rapid.IntRange(0, 2).Draw(rt, "writeTimeoutOff") == 0 {
				writeTimeoutOff, justOff = true, true
				if err := w.conn.UpdateConfigOptions(hsms.WithWriteTimeout(0)); err != nil {
					fail("UpdateConfigOptions(WithWriteTimeout(0)): %v", err)
				}
				hist = append(hist, "<write timeout switched off at runtime>")
				classes["write-timeout-off-at-runtime"] = true
			}
			if (justOff || rapid.Bool().Draw(rt, "pause")) && (m.Selected || time.Until(nsSince.Add(c08T7)) > c08Pause+20*time.Millisecond) {
				time.Sleep(c08Pause)
				synctest.Wait()
				hist = append(hist, fmt.Sprintf("<%v pass>", c08Pause))
				classes["timed-pause"] = true
				if eof, _, _ := p.EOF(); eof {
					fail("the connection was ended during a pause of %v although no timer that is legitimately running could have expired (T7 %v counts from the latest entry to NOT SELECTED, %v ago; selected=%v)", c08Pause, c08T7, time.Since(nsSince), m.Selected)
				}
			}
		}
		k := rapid.IntRange(1, 4).Draw(rt, "groupSize")
		var frames []e37.Frame
		var want []e37.Frame
		wantDeliver := 0
		wantS9 := 0
		avoid := map[uint32]bool{}
		if m.HasOpenSelect {
			avoid[m.OpenSelect] = true
		}
		for i := 0; i < k; i++ {
			f := genPeerFrame(rt, m, c.session, avoid)
			was := m.Selected
			eff := m.Step(f)
			if was != m.Selected {
				crossings++
				if !m.Selected {
					nsSince = time.Now()
				}
			}
			classes[eff.Class] = true
			frames = append(frames, f)
			hist = append(hist, fmt.Sprintf("%v  => %s", f, eff.Class))
			want = append(want, eff.Out...)
			if eff.Deliver {
				wantDeliver++
			}
			if eff.S9F1 {
				wantS9++
			}
			if eff.Disconnect {
				disconnected = true
				endedBySeparate = eff.Class == "separate-selected"
				break
			}
		}
		// (only behind a Separate.req: that one ends the session synchronously on the receive path. When
		// the library itself decides to hang up - its own Select refused or rejected - it does so from
		// another goroutine, and what the receive path reads meanwhile is still traffic on a live link.)
		if endedBySeparate && rapid.Bool().Draw(rt, "pipelinedBehindTheEnd") {
			// frames the peer pipelined BEHIND the connection-ending frame, in the same write: the
			// session ended at that frame (E37 7.9.2) - none of them may be answered or delivered,
			// however long the teardown takes to close the socket
			for i, n := 0, rapid.IntRange(1, 3).Draw(rt, "trailing"); i < n; i++ {
				var f e37.Frame
				switch rapid.IntRange(0, 2).Draw(rt, "trailingKind") {
				case 0:
					f = e37.Control(e37.LinktestReq, 0xffff, 0, 0, 0x7a000000+uint32(g*8+i))
				case 1:
					f = e37.DataFrame(c.session, 1, 1, true, 0x7b000000+uint32(g*8+i), []byte{0x41, 0x04, 'l', 'a', 't', 'e'})
				default:
					f = e37.Control(e37.SelectReq, 0xffff, 0, 0, 0x7c000000+uint32(g*8+i))
				}
				frames = append(frames, f)
				hist = append(hist, fmt.Sprintf("%v  => pipelined behind the end of the session: ignored", f))
			}
			classes["pipelined-behind-the-end"] = true
		}
		if err := p.Send(frames...); err != nil {
			fail("peer write failed: %v", err)
		}
		synctest.Wait()
		got := p.Take()
		var ctl []e37.Frame
		s9 := 0
		for _, rf := range got {
			if rf.F.IsData() {
				if rf.F.Stream() == 9 && rf.F.Function() == 1 && rf.F.Session == c.session {
					s9++
					continue
				}
				fail("the library sent an unexpected data message %v", rf.F)
			}
			ctl = append(ctl, rf.F)
		}
		if disconnected && len(ctl) < len(want) {
			// responses queued just before the connection-ending frame of the same write may be cut
			// off by the teardown: only a prefix is required
			want = want[:len(ctl)]
			classes["responses-cut-by-disconnect"] = true
		}
		if len(ctl) != len(want) {
			fail("after group %d the library sent %d control frames, E37 prescribes %d\n got  %v\n want %v", g, len(ctl), len(want), ctl, want)
		}
		for i := range want {
			if !frameEq(ctl[i], want[i]) {
				fail("response %d of group %d: got %v, E37 prescribes %v", i, g, ctl[i], want[i])
			}
		}
		// (an S9F1 is itself a data message: it is legitimately dropped by the send gate when a
		// Deselect / disconnect follows in the same write, so only "no more than predicted" is required)
		if s9 > wantS9 {
			fail("group %d: %d S9F1 notifications, expected %d", g, s9, wantS9)
		}
		if d := dl.take(); len(d) != wantDeliver {
			fail("group %d: %d data messages reached the handlers, expected %d", g, len(d), wantDeliver)
		}
		eof, _, _ := p.EOF()
		if eof != disconnected {
			fail("group %d: connection ended=%v, E37 prescribes ended=%v", g, eof, disconnected)
		}
	}
	if !disconnected {
		if !barrier(p, 1, time.Second) {
			fail("the link does not answer a Linktest.req after the sequence")
		}
		synctest.Wait()
		want := hsms.NotSelectedState
		if m.Selected {
			want = hsms.SelectedState
		}
		if got := w.conn.State(); got != want {
			fail("State()=%v at the quiescent end, the frame history leaves the session %v", got, want)
		}
		if ownProbe && m.Selected && !m.HasOpenSelect {
			// the library's own Linktest.req goes unanswered past T6; the late Linktest.rsp then has no
			// open transaction and must be rejected with reason 3, like any other orphan response
			p.Take()
			// sometimes the probe's write is held up for 10 ms by a closed window, so that the two
			// expiries of that transaction (caller deadline armed before the write, protocol timer armed
			// after it) do not coincide
			slowWrite := rapid.Bool().Draw(rt, "probeSlowWrite")
			if slowWrite {
				p.C.SetInboundWindow(4)
				p.C.StallInbound(true)
			}
			time.Sleep(400 * time.Millisecond)
			if slowWrite {
				time.Sleep(10 * time.Millisecond)
				p.C.SetInboundWindow(netsim.DefaultWindow)
				p.C.StallInbound(false)
			}
			synctest.Wait()
			var probe *e37.Frame
			for _, rf := range p.Take() {
				if rf.F.SType == e37.LinktestReq && rf.F.PType == 0 {
					f := rf.F
					probe = &f
				}
			}
			if probe == nil {
				fail("no Linktest.req after an idle linktest interval")
			}
			time.Sleep(51 * time.Millisecond) // T6 of that probe has expired
			synctest.Wait()
			p.Take()
			late := e37.Frame{Session: 0xffff, SType: e37.LinktestRsp, Sys: probe.Sys}
			_ = p.Send(late)
			synctest.Wait()
			got := p.Take()
			wantRej := e37.Frame{Session: 0xffff, B2: e37.LinktestRsp, B3: 3, SType: e37.RejectReq, Sys: probe.Sys}
			if len(got) != 1 || !frameEq(got[0].F, wantRej) {
				fail("a Linktest.rsp arriving after its transaction timed out (T6) was answered by %v, E37 prescribes %v", got, wantRej)
			}
			hist = append(hist, "late Linktest.rsp after T6 => orphan-response")
			classes["late-response-after-timeout"] = true
		}
	} else {
		synctest.Wait()
		if got := w.conn.State(); got != hsms.NotConnectedState {
			fail("State()=%v after the connection ended", got)
		}
	}
	rejects := 0
	for cl := range classes {
		if strings.HasPrefix(cl, "reject-") || cl == "orphan-response" || cl == "data-not-selected" {
			rejects++
		}
	}
	var cls []string
	for cl := range classes {
		cls = append(cls, "c08:"+cl)
	}
	role := "passive"
	if c.active {
		role = "active"
	}
	cls = append(cls, "c08:role:"+role)
	ev.Case(crossings >= 2 || rejects >= 2, strings.Join(hist, "|")+role, func() any {
		return map[string]any{"role": role, "equip": c.equip, "validate": c.validate, "session": c.session, "sequence": hist}
	}, cls...)
}
