package props

// C20 on the SECS-I transport (virtual time): the shared connection metrics against an independent
// ledger kept by the reference line peer.

import (
	"context"
	"errors"
	"fmt"
	"strings"
	"testing"
	"testing/synctest"
	"time"

	"github.com/arloliu/go-secs/v2/hsms"
	"github.com/arloliu/go-secs/v2/secs1"
	"github.com/arloliu/go-secs/v2/secs2"
	"pgregory.net/rapid"
	"verif/harness/ev"
	"verif/harness/netsim"
	"verif/harness/ref/e4"
	"verif/harness/vt"
)

func TestC20Secs1(t *testing.T) {
	ev.Rule("a secs1 connection (host/equipment x active/passive, retry limit 0-1, T3 300 ms) against the reference E4 line peer; 3-10 phases over: send without W / with W answered / with W unanswered (T3) / 1-3 block messages, inbound primary, a send the peer never grants the line to (retry limit exhausted: the send fails, the library drops the line, reconnect), a send refused while the line is down, peer drop + reconnect, Close + reopen. Oracle at every quiescent point: in-flight gauge 0; reconnecting gauge 0 when Selected or closed (and never negative); data-sent = messages the peer fully acknowledged; data-received = well-formed messages the peer got acknowledged; error counter = reply-expected sends that ended in T3 or a failed transmission; drop counter = sends refused as not selected; Reconnects() = successful re-dials after a loss (active); non-trivial = at least 3 different outcomes")
	vt.Bubble(t, func(t *testing.T) {
		vt.CheckBubble(t, 2000, 100000, func(rt *rapid.T) { runC20Secs1(rt) })
	})
}

func runC20Secs1(rt *rapid.T) {
	active, equip := rapid.Bool().Draw(rt, "active"), rapid.Bool().Draw(rt, "equip")
	const T1, T2, T3 = 50 * time.Millisecond, 150 * time.Millisecond, 300 * time.Millisecond
	rty := rapid.IntRange(0, 1).Draw(rt, "retryLimit")
	w, err := newS1World(s1Opt{active: active, equip: equip, device: 20, opts: []secs1.Option{secs1.WithT1(T1), secs1.WithT2(T2), secs1.WithT4(time.Second), secs1.WithRetryLimit(rty),
		secs1.WithConnectionOption(hsms.WithT3(T3)), secs1.WithConnectionOption(hsms.WithT5(40 * time.Millisecond)), secs1.WithConnectionOption(hsms.WithReconnectBackoff(10*time.Millisecond, 2)),
		secs1.WithConnectionOption(hsms.WithCloseTimeout(2 * time.Second))}})
	if err != nil {
		rt.Fatalf("VERIF-INFRA: %v", err)
	}
	w.conn.AddDataMessageHandler(func(*hsms.DataMessage, hsms.SECS2Endpoint) {})
	var conns []*netsim.Conn
	var hist []string
	var p *e4.Peer
	var peers []*e4.Peer
	defer func() {
		_ = w.conn.Close()
		for _, c := range conns {
			_ = c.Close()
		}
		if w.ln != nil {
			_ = w.ln.Close()
		}
		synctest.Wait()
	}()
	// ledger
	var sent, recvd, errs, drops, reconnects int
	outcomes := map[string]int{}
	fail := func(f string, a ...any) {
		m := w.conn.Metrics()
		tr := ""
		if p != nil {
			t := p.Trace
			if len(t) > 60 {
				t = t[len(t)-60:]
			}
			tr = strings.Join(t, "\n  ")
		}
		rt.Fatalf("C20 violated (secs1 active=%v equip=%v retry limit %d): %s\nmetrics: sent=%d recv=%d err=%d drop=%d inflight=%d reconnecting=%d reconnects=%d\nledger: sent=%d recv=%d errs=%d drops=%d reconnects=%d\nhistory:\n  %s\nline (tail):\n  %s",
			active, equip, rty, fmt.Sprintf(f, a...), m.DataMsgSendCount(), m.DataMsgRecvCount(), m.DataMsgErrCount(), m.DataMsgDropNotSelectedCount(), m.DataMsgInflightCount(), m.Reconnecting(), m.Reconnects(),
			sent, recvd, errs, drops, reconnects, strings.Join(hist, "\n  "), tr)
	}
	isOpen, lineUp := false, false
	quiescent := func(where string) {
		// serve whatever the library wants to say on its own (an equipment reports a T3 expiry with
		// S9F9, ...): those are data messages on the wire like any other
		if lineUp && p != nil {
			if err := p.Idle(60 * time.Millisecond); err != nil {
				fail("line error while idle after %s: %v", where, err)
			}
		}
		synctest.Wait()
		// data-sent, from the peer's side: complete messages whose last block it acknowledged
		sent = 0
		for _, q := range peers {
			for _, rb := range q.Received {
				if rb.Err == nil && rb.Resp == e4.ACK && rb.Block.E {
					sent++
				}
			}
		}
		m := w.conn.Metrics()
		if m.DataMsgInflightCount() != 0 {
			fail("after %s the in-flight gauge is %d at a quiescent point", where, m.DataMsgInflightCount())
		}
		if m.Reconnecting() < 0 || ((lineUp || !isOpen) && m.Reconnecting() != 0) {
			fail("after %s the reconnecting gauge is %d (line up=%v, open=%v)", where, m.Reconnecting(), lineUp, isOpen)
		}
		if int(m.DataMsgSendCount()) != sent {
			fail("after %s data-sent=%d, the peer acknowledged %d complete messages", where, m.DataMsgSendCount(), sent)
		}
		if int(m.DataMsgRecvCount()) != recvd {
			fail("after %s data-received=%d, the peer got %d messages acknowledged", where, m.DataMsgRecvCount(), recvd)
		}
		if int(m.DataMsgErrCount()) != errs {
			fail("after %s error counter=%d, reply-expected sends ended in T3 / failed transmission: %d", where, m.DataMsgErrCount(), errs)
		}
		if int(m.DataMsgDropNotSelectedCount()) != drops {
			fail("after %s drop counter=%d, sends refused as not selected: %d", where, m.DataMsgDropNotSelectedCount(), drops)
		}
		if active && int(m.Reconnects()) != reconnects {
			fail("after %s Reconnects()=%d, successful re-dials after a loss: %d", where, m.Reconnects(), reconnects)
		}
	}
	connect := func() {
		synctest.Wait()
		if active {
			_ = w.listen()
		}
		c, err := w.lineUp(10 * time.Second)
		if err != nil {
			fail("the line was not (re-)established: %v", err)
		}
		conns = append(conns, c)
		p = &e4.Peer{C: c, IsMaster: !equip, T1: T1, T2: T2}
		peers = append(peers, p)
		if !waitState(w.conn, hsms.SelectedState, time.Second) {
			fail("never Selected on a live line")
		}
		if active && w.ln != nil {
			_ = w.ln.Close() // the script decides when the peer is reachable
		}
		lineUp = true
	}
	openIt := func() {
		if active {
			_ = w.listen()
		}
		if err := w.conn.Open(context.Background(), hsms.OpenBackground); err != nil {
			fail("Open: %v", err)
		}
		isOpen = true
	}
	openIt()
	connect()
	quiescent("the first connect")
	tok := 0
	bodyOf := func(blocks int) secs2.Item {
		n := (blocks-1)*244 + 30
		return secs2.A(fmt.Sprintf("t%d-", tok) + strings.Repeat("m", n-8))
	}
	phases := rapid.IntRange(3, 10).Draw(rt, "phases")
	for ph := 0; ph < phases; ph++ {
		op := rapid.SampledFrom([]string{"send", "send", "sendW-reply", "sendW-t3", "inbound", "never-granted", "refused", "drop", "close-reopen"}).Draw(rt, "phase")
		tok++
		hist = append(hist, op)
		switch op {
		case "send", "sendW-reply", "sendW-t3":
			wbit := op != "send"
			nb := rapid.IntRange(1, 3).Draw(rt, "blocks")
			type res struct {
				rep *hsms.DataMessage
				err error
			}
			ch := make(chan res, 1)
			body := bodyOf(nb)
			go func() {
				ctx, cancel := ctxT(10 * time.Second)
				defer cancel()
				rep, e := w.conn.SendDataMessage(ctx, 1, 1, wbit, body)
				ch <- res{rep, e}
			}()
			blocks, rerr := p.ReceiveMessage(2 * time.Second)
			if rerr != nil || len(blocks) != nb {
				fail("the peer could not take a %d-block message: %v (%d blocks)", nb, rerr, len(blocks))
			}
			if op == "sendW-reply" {
				rep := e4.Split(e4.Message{Device: 20, R: !equip, Stream: 1, Function: 2, Sys: blocks[0].Sys, Body: []byte{0x41, 0x02, 'o', 'k'}})[0]
				if r := p.SendRaw(rep.Bytes(), nil); r.Err != nil || r.Resp != e4.ACK {
					fail("the reply block was not acknowledged: %+v", r)
				}
				recvd++
			}
			var r res
			select {
			case r = <-ch:
			case <-time.After(T3 + time.Second):
				fail("%s never returned", op)
			}
			switch op {
			case "send":
				if r.err != nil {
					fail("a send the peer acknowledged returned %v", r.err)
				}
				outcomes["ok"]++
			case "sendW-reply":
				if r.err != nil || r.rep == nil {
					fail("a reply-expected send that was answered returned (%v, %v)", r.rep, r.err)
				}
				outcomes["reply"]++
			case "sendW-t3":
				if !errors.Is(r.err, hsms.ErrT3Timeout) {
					fail("an unanswered reply-expected send returned %v, want T3", r.err)
				}
				errs++
				outcomes["t3"]++
			}
		case "inbound":
			in := e4.Split(e4.Message{Device: 20, R: !equip, Stream: 2, Function: 1, W: rapid.Bool().Draw(rt, "w"), Sys: 0x33000000 + uint32(tok), Body: []byte{0x21, 0x01, byte(tok)}})[0]
			if r := p.SendRaw(in.Bytes(), nil); r.Err != nil || r.Resp != e4.ACK {
				fail("an inbound block was not acknowledged: %+v", r)
			}
			recvd++
			outcomes["inbound"]++
		case "never-granted":
			// the peer never answers the library's ENQ: (retry limit + 1) requests, the send fails, the
			// library gives the line up and reconnects
			wbit := rapid.Bool().Draw(rt, "w")
			ch := make(chan error, 1)
			body := bodyOf(1)
			go func() {
				ctx, cancel := ctxT(10 * time.Second)
				defer cancel()
				_, e := w.conn.SendDataMessage(ctx, 1, 1, wbit, body)
				ch <- e
			}()
			var e error
			select {
			case e = <-ch:
				if e == nil {
					fail("a send the peer never granted the line to reported success")
				}
			case <-time.After(time.Duration(rty+2)*T2*2 + 2*time.Second):
				fail("a send the peer never granted the line to never returned")
			}
			// a synchronous send whose transmission failed is a local send error (as a write error is on
			// HSMS-SS, whatever the W-bit) - unless the call merely observed the generation ending
			switch {
			case errors.Is(e, hsms.ErrConnClosed), errors.Is(e, context.Canceled), errors.Is(e, context.DeadlineExceeded):
				outcomes["disconnect"]++
			case errors.Is(e, hsms.ErrNotSelectedState):
				drops++
				outcomes["refused"]++
			default:
				errs++
				outcomes["transmission-failed"]++
			}
			hist = append(hist, fmt.Sprintf("  never-granted (W=%v) -> %v", wbit, e))
			lineUp = false
			time.Sleep(T2)
			synctest.Wait()
			_ = p.C.Close()
			connect()
			if active {
				reconnects++
			}
		case "refused":
			_ = p.C.Close()
			lineUp = false
			synctest.Wait()
			ctx, cancel := ctxT(time.Second)
			_, e := w.conn.SendDataMessage(ctx, 1, 1, rapid.Bool().Draw(rt, "w"), bodyOf(1))
			cancel()
			if !errors.Is(e, hsms.ErrNotSelectedState) {
				fail("a send while the line is down returned %v, want the not-selected error", e)
			}
			drops++
			outcomes["refused"]++
			connect()
			if active {
				reconnects++
			}
		case "drop":
			if rapid.Bool().Draw(rt, "reset") {
				p.C.(*netsim.Conn).Reset()
			}
			_ = p.C.Close()
			lineUp = false
			outcomes["drop"]++
			connect()
			if active {
				reconnects++
			}
		case "close-reopen":
			if err := w.conn.Close(); err != nil {
				fail("Close: %v", err)
			}
			isOpen, lineUp = false, false
			quiescent("Close")
			openIt()
			connect()
			outcomes["close"]++
		}
		quiescent("phase " + op)
	}
	role := "passive"
	if active {
		role = "active"
	}
	cls := []string{"c20s:role:" + role}
	for k := range outcomes {
		cls = append(cls, "c20s:outcome:"+k)
	}
	ev.Case(len(outcomes) >= 3, strings.Join(hist, "|")+fmt.Sprint(active, equip, rty), func() any { return hist }, cls...)
}
