package props

// C05 (engine B): peer scripts against real connections in a virtual-time bubble. State() is read
// only at synchronisation points (synctest.Wait: every goroutine of the library is idle), where the
// cause of the expected state has happened-before the read; notifications observed by a registered
// handler are checked for order / chaining / no self-transition / final value, with a handler that
// sometimes stalls long enough to force coalescing.

import (
	"context"
	"fmt"
	"strings"
	"sync"
	"testing"
	"testing/synctest"
	"time"

	"github.com/arloliu/go-secs/v2/hsms"
	"github.com/arloliu/go-secs/v2/secs2"
	"pgregory.net/rapid"
	"verif/harness/ev"
	"verif/harness/netsim"
	"verif/harness/ref/e37"
	"verif/harness/vt"
)

const (
	c05T7 = 300 * time.Millisecond
	c05T6 = 200 * time.Millisecond
)

type stNote struct {
	prev, next hsms.ConnState
	at         time.Time
}

type stLog struct {
	mu    sync.Mutex
	notes []stNote
	gate  chan struct{} // non-nil: the handler blocks on it (stalled consumer)
}

func (l *stLog) handler(prev, next hsms.ConnState) {
	l.mu.Lock()
	l.notes = append(l.notes, stNote{prev, next, time.Now()})
	g := l.gate
	l.mu.Unlock()
	if g != nil {
		<-g
	}
}

func TestC05Scripts(t *testing.T) {
	ev.Rule("peer scripts of 3-14 steps over {connect, select, deselect, select+deselect in one write, select+deselect+select in one write, deselect+select in one write, separate, an orphan Select/Deselect/Linktest response with status 0, drop (close/reset), dwell just under / just over T7, linktest, Close, reopen, a peer connect issued at the same instant as Close, stall the state-change handler across > 16 transitions} on real connections (both roles, virtual time); oracle: State() at every quiescent point equals the E37 state the script leaves the session in (never an undone or replayed transition), T7 counts from the latest entry to NotSelected and never hits a Selected session, notifications are ordered, chained unless the library logged coalescing, never a self-transition, their last value equals State(), none arrives after Close returned; non-trivial = >= 2 state changes and one of {deselect, T7, close during connect}")
	vt.Bubble(t, func(t *testing.T) {
		vt.CheckBubble(t, 4000, 200000, func(rt *rapid.T) { runC05Script(rt) })
	})
}

func runC05Script(rt *rapid.T) {
	active := rapid.Bool().Draw(rt, "active")
	w, err := newWorld(worldOpt{active: active, connOpts: []hsms.ConnOption{hsms.WithT7(c05T7), hsms.WithT6(c05T6), hsms.WithT5(50 * time.Millisecond),
		hsms.WithReconnectBackoff(10*time.Millisecond, 2), hsms.WithT8(time.Second), hsms.WithCloseTimeout(2 * time.Second)}})
	if err != nil {
		rt.Fatalf("VERIF-INFRA: %v", err)
	}
	sl := &stLog{}
	w.conn.AddConnStateChangeHandler(sl.handler)
	// a data handler that can be made to block (a wedged application handler keeps the receive
	// goroutine of its generation alive past the close timeout)
	var wmu sync.Mutex
	var wedge chan struct{}
	w.conn.AddDataMessageHandler(func(m *hsms.DataMessage, _ hsms.SECS2Endpoint) {
		if m.Stream() == 99 {
			wmu.Lock()
			g := wedge
			wmu.Unlock()
			if g != nil {
				<-g
			}
		}
	})
	releaseWedge := func() {
		wmu.Lock()
		if wedge != nil {
			close(wedge)
			wedge = nil
		}
		wmu.Unlock()
	}
	var p *netsim.Peer
	var all []*netsim.Peer
	var hist []string
	t0 := time.Now()
	logf := func(f string, a ...any) {
		hist = append(hist, fmt.Sprintf("+%v ", time.Since(t0))+fmt.Sprintf(f, a...))
	}
	defer func() {
		sl.mu.Lock()
		if sl.gate != nil {
			close(sl.gate)
			sl.gate = nil
		}
		sl.mu.Unlock()
		releaseWedge()
		_ = w.conn.Close()
		for _, q := range all {
			q.Close()
		}
		if w.ln != nil {
			_ = w.ln.Close()
		}
		synctest.Wait()
	}()
	fail := func(f string, a ...any) {
		var ns []string
		sl.mu.Lock()
		for _, n := range sl.notes {
			ns = append(ns, fmt.Sprintf("+%v %v->%v", n.at.Sub(t0), n.prev, n.next))
		}
		sl.mu.Unlock()
		tr := ""
		if p != nil {
			tr = p.Transcript()
		}
		rt.Fatalf("C05 violated (active=%v): %s\nscript:\n  %s\nnotifications:\n  %s\nlast connection:\n%s", active, fmt.Sprintf(f, a...), strings.Join(hist, "\n  "), strings.Join(ns, "\n  "), tr)
	}
	// model
	open, linkUp, selected := false, false, false
	var nsSince time.Time // latest entry to NotSelected on the live link
	hasOpenSel, openSel := false, uint32(0)
	var selSentAt time.Time
	stalled := false
	checked := 0        // notifications already verified
	warnSeen := 0       // coalescing warnings already accounted for
	closedAtCount := -1 // number of notifications when Close returned (no more until the next Open)
	changes, sawDeselect, sawT7, sawCloseRace := 0, false, false, false
	wedgedOnce := false
	lingeredOnce := false

	want := func() hsms.ConnState {
		switch {
		case !open || !linkUp:
			return hsms.NotConnectedState
		case selected:
			return hsms.SelectedState
		}
		return hsms.NotSelectedState
	}
	sync := func(where string) {
		synctest.Wait()
		if got := w.conn.State(); got != want() {
			fail("after %s State()=%v, the script leaves the session %v", where, got, want())
		}
		if linkUp && p != nil {
			if eof, _, _ := p.EOF(); eof {
				fail("after %s the library has ended a connection that the script leaves %v", where, want())
			}
		}
		// notifications
		sl.mu.Lock()
		notes := append([]stNote(nil), sl.notes...)
		sl.mu.Unlock()
		warns := w.log.count("coalesced")
		for i := checked; i < len(notes); i++ {
			n := notes[i]
			if n.prev == n.next {
				fail("self-transition notification %v->%v", n.prev, n.next)
			}
			if i > 0 && notes[i-1].next != n.prev && warns == warnSeen {
				fail("notification %d (%v->%v) does not chain with %v->%v and no coalescing was reported", i, n.prev, n.next, notes[i-1].prev, notes[i-1].next)
			}
		}
		checked = len(notes)
		if !stalled {
			warnSeen = warns
			if len(notes) > 0 && notes[len(notes)-1].next != w.conn.State() {
				fail("after %s the last notification is %v->%v but State()=%v", where, notes[len(notes)-1].prev, notes[len(notes)-1].next, w.conn.State())
			}
			if len(notes) == 0 && w.conn.State() != hsms.NotConnectedState {
				fail("State()=%v but no notification was ever delivered", w.conn.State())
			}
		}
		if closedAtCount >= 0 && len(notes) != closedAtCount {
			fail("a state-change handler was called after Close had returned (%d -> %d notifications)", closedAtCount, len(notes))
		}
	}
	unreachable := func() {
		// an active endpoint re-dials after its backoff (>= 10 ms): keep it from reconnecting on its own
		if active && w.ln != nil {
			_ = w.ln.Close()
		}
	}
	doOpen := func() {
		unreachable()
		if err := w.conn.Open(context.Background(), hsms.OpenBackground); err != nil {
			rt.Fatalf("VERIF-INFRA: open: %v", err)
		}
		open, closedAtCount = true, -1
		logf("Open")
	}
	connect := func() {
		if active && (w.ln == nil || w.ln.Closed()) {
			_ = w.listen()
		}
		q, err := w.peerUp(5 * time.Second)
		if err != nil {
			fail("the link was not (re-)established: %v", err)
		}
		p = q
		all = append(all, q)
		linkUp, selected, nsSince = true, false, time.Now()
		changes++
		hasOpenSel = false
		synctest.Wait()
		if active {
			f, ok := p.WaitFrame(0, func(f e37.Frame) bool { return f.SType == e37.SelectReq }, time.Second)
			if !ok {
				fail("no Select.req from the active endpoint")
			}
			hasOpenSel, openSel, selSentAt = true, f.F.Sys, f.At
		}
		logf("link up")
	}
	linkLost := func() {
		linkUp, selected = false, false
		changes++
		unreachable()
	}
	// dwell lets d pass. Two timers can end the link meanwhile: T7 counts from the latest entry to
	// NotSelected (and never hits a Selected session); an active endpoint's own unanswered Select.req
	// is a failed control transaction after T6 (a communications failure in any state).
	dwell := func(remaining time.Duration) {
		var dl time.Time
		if !selected {
			dl = nsSince.Add(c05T7)
		}
		if hasOpenSel {
			if t6 := selSentAt.Add(c05T6); dl.IsZero() || t6.Before(dl) {
				dl = t6
			}
		}
		if dl.IsZero() || dl.After(time.Now().Add(remaining)) {
			time.Sleep(remaining)
		} else {
			if rem := time.Until(dl); rem > time.Millisecond {
				time.Sleep(rem - time.Millisecond)
				sync("dwelling until just before the timer")
			}
			time.Sleep(time.Until(dl) + time.Millisecond)
			linkLost()
			sawT7 = true
		}
	}
	doOpen()
	sync("Open")
	steps := rapid.IntRange(3, 14).Draw(rt, "steps")
	for s := 0; s < steps; s++ {
		var ops []string
		switch {
		case !open:
			ops = []string{"reopen"}
		case !linkUp:
			ops = []string{"connect", "connect", "connect", "close", "closeRace"}
		default:
			ops = []string{"select", "select", "deselect", "sel+desel", "sel+desel+sel", "desel+sel", "separate", "drop", "linktest", "close", "dwell", "orphan-rsp"}
			if active && hasOpenSel {
				ops = append(ops, "answer-select", "answer-select", "answer-select")
			}
			if !stalled {
				ops = append(ops, "stall-flap")
			}
			if selected && !wedgedOnce {
				ops = append(ops, "wedge-drop-reconnect")
			}
			if selected && !lingeredOnce {
				ops = append(ops, "wedged-writer")
			}
			if !selected {
				ops = append(ops, "t7-rearm", "t7-rearm")
			}
		}
		op := rapid.SampledFrom(ops).Draw(rt, "op")
		sys := 0x1000 + uint32(s)
		sel := e37.Control(e37.SelectReq, 0xffff, 0, 0, sys)
		desel := e37.Control(e37.DeselectReq, 0xffff, 0, 0, sys+0x100)
		sel2 := e37.Control(e37.SelectReq, 0xffff, 0, 0, sys+0x200)
		applySel := func() {
			if !selected {
				selected = true
				changes++
			}
		}
		applyDesel := func() {
			if selected {
				selected, nsSince = false, time.Now()
				changes++
				sawDeselect = true
			}
		}
		logf("%s", op)
		switch op {
		case "reopen":
			doOpen()
		case "connect":
			connect()
		case "select":
			_ = p.Send(sel)
			applySel()
		case "orphan-rsp":
			// a control RESPONSE that answers no open transaction (status 0, fresh system bytes): E37 has
			// it rejected; it must not move the state machine whatever state the session is in
			st := rapid.SampledFrom([]byte{e37.SelectRsp, e37.SelectRsp, e37.DeselectRsp, e37.LinktestRsp}).Draw(rt, "orphanType")
			_ = p.Send(e37.Control(st, 0xffff, 0, 0, 0x7e000000+sys))
		case "answer-select":
			_ = p.Send(e37.Control(e37.SelectRsp, 0xffff, 0, 0, openSel))
			hasOpenSel = false
			applySel()
		case "deselect":
			_ = p.Send(desel)
			applyDesel()
		case "sel+desel":
			_ = p.Send(sel, desel)
			applySel()
			applyDesel()
		case "sel+desel+sel":
			_ = p.Send(sel, desel, sel2)
			applySel()
			applyDesel()
			applySel()
		case "desel+sel":
			_ = p.Send(desel, sel2)
			applyDesel()
			applySel()
		case "separate":
			_ = p.Send(e37.Control(e37.SeparateReq, 0xffff, 0, 0, sys))
			if selected {
				linkLost()
			}
		case "drop":
			unreachable()
			if rapid.Bool().Draw(rt, "reset") {
				p.C.Reset()
			}
			_ = p.C.Close()
			linkLost()
		case "linktest":
			if !barrier(p, uint32(s), time.Second) {
				fail("the link does not answer a Linktest.req")
			}
		case "dwell":
			// Let time pass. Two timers can end the link: T7 counts from the latest entry to NotSelected
			// (and never hits a Selected session); an active endpoint's own unanswered Select.req is a
			// failed control transaction after T6 (a communications failure in any state).
			// The dwell is a fraction of T7 or a little more than T7: short dwells between a connect, a
			// select and a deselect separate the instants at which the successive T7s were armed, so
			// that a timer that should have been cancelled expires visibly earlier than the live one.
			dwell(rapid.SampledFrom([]time.Duration{c05T7 / 4, c05T7 / 2, c05T7 + 50*time.Millisecond, c05T7 + 50*time.Millisecond}).Draw(rt, "dwellFor"))
		case "t7-rearm":
			// One composite step for the history that separates every T7 arming instant of a
			// generation: a short dwell after the connect, select, a short dwell, deselect, then a
			// dwell past T7 - the link must end exactly T7 after the DESELECT, whatever was armed before.
			short := []time.Duration{c05T7 / 4, c05T7 / 2}
			dwell(rapid.SampledFrom(short).Draw(rt, "rearmDwell1"))
			if !linkUp {
				break
			}
			if active && hasOpenSel {
				_ = p.Send(e37.Control(e37.SelectRsp, 0xffff, 0, 0, openSel))
				hasOpenSel = false
			} else {
				_ = p.Send(sel)
			}
			applySel()
			sync("t7-rearm: selected")
			dwell(rapid.SampledFrom(short).Draw(rt, "rearmDwell2"))
			_ = p.Send(desel)
			applyDesel()
			sync("t7-rearm: deselected")
			dwell(c05T7 + 50*time.Millisecond)
		case "wedge-drop-reconnect":
			// The application's data handler blocks; the link dies; a send notices (write error) and the
			// generation is torn down, its receive goroutine being abandoned after the close timeout;
			// the next generation comes up and is selected; only THEN the old handler returns. The
			// straggler of the dead generation must not touch the new one.
			wedgedOnce = true
			wmu.Lock()
			wedge = make(chan struct{})
			wmu.Unlock()
			_ = p.Send(e37.DataFrame(0xffff, 99, 1, false, 0x9900+uint32(s), nil))
			synctest.Wait()
			unreachable()
			p.C.Reset()
			_ = p.C.Close()
			ctx, cancel := ctxT(time.Second)
			_, serr := w.conn.SendDataMessage(ctx, 1, 1, false, secs2.A("notice the dead link"))
			cancel()
			if serr == nil {
				fail("a send on a reset link succeeded")
			}
			linkLost()
			time.Sleep(2*time.Second + 100*time.Millisecond) // close timeout: the wedged receive goroutine is abandoned
			sync("the wedged generation was given up")
			connect()
			_ = p.Send(sel)
			if active {
				_ = p.Send(e37.Control(e37.SelectRsp, 0xffff, 0, 0, openSel))
				hasOpenSel = false
			}
			applySel()
			sync("the next generation was selected")
			releaseWedge()
			sawDeselect = true // counts as a non-trivial history
		case "wedged-writer":
			// A send of THIS generation is stuck in its write (the peer stopped reading); the link
			// dies, but the stuck write reports its error only 400 ms later - after the next
			// generation has come up and been selected. That late failure belongs to the dead
			// generation: it must not take the new session down.
			lingeredOnce = true
			w.lmu.Lock()
			libEnd := w.libConns[len(w.libConns)-1]
			w.lmu.Unlock()
			libEnd.SetWriteLinger(400 * time.Millisecond)
			p.C.SetInboundWindow(0)
			p.C.StallInbound(true)
			stuck := make(chan error, 1)
			go func() {
				ctx, cancel := ctxT(5 * time.Second)
				defer cancel()
				_, e := w.conn.SendDataMessage(ctx, 1, 1, false, secs2.A("stuck in the write"))
				stuck <- e
			}()
			synctest.Wait()
			unreachable()
			p.C.Reset()
			_ = p.C.Close()
			linkLost()
			sync("the link died under a stuck write")
			connect()
			_ = p.Send(sel)
			if active {
				_ = p.Send(e37.Control(e37.SelectRsp, 0xffff, 0, 0, openSel))
				hasOpenSel = false
			}
			applySel()
			sync("the next generation was selected while the old write is still stuck")
			select {
			case e := <-stuck:
				logf("the stuck write had already returned: %v", e)
			case <-time.After(500 * time.Millisecond):
				fail("the stuck write never returned")
			}
			time.Sleep(50 * time.Millisecond)
			sync("the stuck write of the dead generation has reported its error")
			sawDeselect = true // counts as a non-trivial history
		case "stall-flap":
			// a handler that stops draining while the session flaps more often than the 16-slot queue holds
			sl.mu.Lock()
			sl.gate = make(chan struct{})
			sl.mu.Unlock()
			stalled = true
			n := rapid.IntRange(10, 14).Draw(rt, "flaps")
			for i := 0; i < n; i++ {
				_ = p.Send(e37.Control(e37.SelectReq, 0xffff, 0, 0, sys+uint32(i)), e37.Control(e37.DeselectReq, 0xffff, 0, 0, sys+0x400+uint32(i)))
				applySel()
				applyDesel()
				synctest.Wait()
			}
			sync("flapping with a stalled handler")
			sl.mu.Lock()
			close(sl.gate)
			sl.gate = nil
			sl.mu.Unlock()
			stalled = false
		case "close", "closeRace":
			var raced *netsim.Peer
			done := make(chan struct{})
			if op == "closeRace" && !active {
				sawCloseRace = true
				go func() {
					defer close(done)
					if c, err := w.nw.Dial(context.Background(), w.addr); err == nil {
						raced = netsim.NewPeer(c)
					}
				}()
			} else {
				close(done)
			}
			if err := w.conn.Close(); err != nil {
				fail("Close returned %v", err)
			}
			<-done
			if raced != nil {
				all = append(all, raced)
			}
			open, linkUp, selected = false, false, false
			changes++
			sl.mu.Lock()
			closedAtCount = len(sl.notes)
			sl.mu.Unlock()
			if got := w.conn.State(); got != hsms.NotConnectedState {
				fail("State()=%v right after Close returned", got)
			}
		}
		sync(op)
		if !open {
			// "stays so": look again later
			time.Sleep(time.Duration(rapid.SampledFrom([]int{0, 1, 60, 400}).Draw(rt, "lingerMs")) * time.Millisecond)
			sync("lingering after Close")
		}
	}
	role := "passive"
	if active {
		role = "active"
	}
	cls := []string{"c05b:role:" + role}
	if sawDeselect {
		cls = append(cls, "c05b:deselect")
	}
	if sawT7 {
		cls = append(cls, "c05b:dwell-expired")
	}
	if sawCloseRace {
		cls = append(cls, "c05b:connect-racing-close")
	}
	if w.log.count("coalesced") > 0 {
		cls = append(cls, "c05b:coalesced")
	}
	ev.Case(changes >= 2 && (sawDeselect || sawT7 || sawCloseRace), strings.Join(hist, "|")+role, func() any {
		return map[string]any{"role": role, "script": hist}
	}, cls...)
}
