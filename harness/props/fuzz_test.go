package props

// Coverage-guided native fuzz targets (thorough tier only). Each carries the SAME semantic oracle as
// the corresponding rapid property - a target that only waited for crashes would check memory safety,
// not the property. Go's native fuzzer cannot be pinned to a seed; a saved crasher is the
// reproducible unit (the driver copies it to /verif/replay).

import (
	"testing"

	"github.com/arloliu/go-secs/v2/hsms"
	"verif/harness/ref/e37"
	"verif/harness/ref/e5"
)

func FuzzC02Decode(f *testing.F) {
	for _, s := range [][]byte{{}, {0x01, 0x00}, {0x41, 0x02, 'o', 'k'}, {0x01, 0x02, 0xa5, 0x01, 0x07, 0x41, 0x01, 'x'}, {0x23, 0xff, 0xff, 0xff}, {0x03, 0xff, 0xff, 0xff},
		{0xb1, 0x04, 0, 0, 0, 1}, {0x91, 0x04, 0x7f, 0xc0, 0, 0}, {0x25, 0x01, 0x01}, {0x49, 0x04, 0, 1, 'a', 'b'}, e5.Encode(e5.Value{FC: e5.List, List: []e5.Value{{FC: e5.U1, Uints: []uint64{1, 2}}}})} {
		f.Add(s)
	}
	f.Fuzz(func(t *testing.T, in []byte) {
		if len(in) > 1<<16 {
			return
		}
		if viol, _, _ := checkDecode(in); viol != "" {
			t.Fatalf("C02 violated on %x: %s", in, viol)
		}
	})
}

func FuzzC04Frame(f *testing.F) {
	f.Add(e37.DataFrame(0xffff, 1, 1, true, 7, []byte{0x41, 0x02, 'o', 'k'}).Bytes())
	f.Add(e37.Control(e37.SelectReq, 0xffff, 0, 0, 1).Bytes())
	f.Add([]byte{0, 0, 0, 10, 0, 0, 0, 0, 1, 0, 0, 0, 0, 0})
	f.Add([]byte{0xff, 0xff, 0xff, 0xff})
	f.Fuzz(func(t *testing.T, in []byte) {
		if len(in) > 1<<16 {
			return
		}
		_, wantErr := e37.ParseWhole(in)
		m, err := hsms.DecodeHSMSMessage(in)
		if (err == nil) != (wantErr == nil) {
			t.Fatalf("C04 violated: DecodeHSMSMessage(%x) error=%v, frame well-formedness says %v", in, err, wantErr)
		}
		if err == nil {
			if dm, ok := m.ToDataMessage(); ok {
				_, e1 := dm.Item()
				e2 := dm.DecodeErr()
				_, e3 := dm.WithSessionID(1).Item()
				if (e1 == nil) != (e2 == nil) || (e1 == nil) != (e3 == nil) {
					t.Fatalf("C04 violated: holders of one message disagree about its body: %v / %v / %v", e1, e2, e3)
				}
			}
		}
		if len(in) >= 4 {
			pl := in[4:]
			want := len(pl) >= 10 && len(pl) <= e37.MaxLen && pl[4] == 0 && e37.DefinedSType(pl[5])
			if _, e := hsms.DecodeHSMSPayload(pl); (e == nil) != want {
				t.Fatalf("C04 violated: DecodeHSMSPayload(%x) error=%v, well-formed=%v", pl, e, want)
			}
		}
	})
}

func FuzzC14SML(f *testing.F) {
	for _, s := range []string{"S1F1 W\n<L[2]\n  <A \"ok\">\n  <U1 1 2>\n>\n.", "S1F1 <A \"ab\"", "S0F0 <L<L<L", "S1F1 <L[2147483647] <U1 1>>.", "S1F2 <B 0x1 0b1> .", "/* c */ S1F1 <BOOLEAN T F>.", "S1F1\n<F4 NaN>\n."} {
		f.Add(s, false)
		f.Add(s, true)
	}
	f.Fuzz(func(t *testing.T, in string, strict bool) {
		if len(in) > 1<<14 {
			return
		}
		if viol, _ := runAllEntryPoints(in, strict); viol != "" {
			t.Fatalf("C14 violated on %q (strict=%v): %s", in, strict, viol)
		}
	})
}
