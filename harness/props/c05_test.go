package props

// C05 (engine A): the real hsms supervisor driven step by step through the verif hook. The
// harness owns the schedule: every synchronous commit of the receive path, every injected event
// and every supervisor step is an explicit action, and commits can be placed INSIDE a step's
// load->store window. The oracle is a reference E37 state model in which commits apply at once,
// queued commit-backed events never move the state again, and only Disconnect / (fresh) T7 / Close
// take the connection down.

import (
	"fmt"
	"os"
	"strings"
	"testing"

	"github.com/arloliu/go-secs/v2/hsms"
	"pgregory.net/rapid"
	"verif/harness/ev"
	"verif/harness/vt"
)

const (
	nc  = hsms.NotConnectedState
	ns  = hsms.NotSelectedState
	sel = hsms.SelectedState
)

type c05Ev struct {
	kind   hsms.VerifEvent
	gen    int
	arm    int // T7 only
	armSel int // T7 only: number of successful selects of its generation at arm time
}

type c05Arm struct {
	id, gen, selAt int
	fired, dead    bool
}

// c05Driver couples the real supervisor with the reference model and the environment model
// (what real callers can still do at each point).
type c05Driver struct {
	v *hsms.VerifSupervisor
	// reference model
	st     hsms.ConnState
	closed bool // evClose has been processed
	// environment model
	queue         []c05Ev
	gen           int
	genLive       bool // a TCP generation exists whose goroutines have not been joined yet
	tearingDown   bool // the supervisor has processed an event that ends the live generation
	selCount      int  // successful selects in the live generation
	arms          []*c05Arm
	armSeq        int
	closeInjected bool
	lateGens      int // generations started after Close was requested
	// notifications
	notes       []hsms.VerifNotify
	lastDropped uint64
	// bookkeeping
	hist     []string
	inWindow int
	stale    int
	lateCmt  int
	exclF6   int
	knownF6  bool
	skips    int // consecutive rejected action draws (see skip)
	stepping *c05Ev
}

func (d *c05Driver) logf(f string, a ...any) { d.hist = append(d.hist, fmt.Sprintf(f, a...)) }

func (d *c05Driver) fail(t *rapid.T, f string, a ...any) {
	t.Fatalf("C05 violated: %s\nhistory:\n  %s", fmt.Sprintf(f, a...), strings.Join(d.hist, "\n  "))
}

func (d *c05Driver) checkState(t *rapid.T, where string) {
	if got := d.v.State(); got != d.st {
		d.fail(t, "after %s State()=%v, reference model=%v", where, got, d.st)
	}
}

// staleT7Pending reports whether a T7 expiry armed before the generation's latest select is queued
// (or being stepped right now).
func (d *c05Driver) staleT7Pending() bool {
	for _, e := range d.queue {
		if e.kind == hsms.VerifEvT7Timeout && e.gen == d.gen && e.armSel < d.selCount {
			return true
		}
	}
	if s := d.stepping; s != nil && s.kind == hsms.VerifEvT7Timeout && s.gen == d.gen && s.armSel < d.selCount {
		return true
	}
	return false
}

func (d *c05Driver) arm() {
	d.armSeq++
	d.arms = append(d.arms, &c05Arm{id: d.armSeq, gen: d.gen, selAt: d.selCount})
}

func (d *c05Driver) room() bool { return d.v.Pending() < d.v.Cap()-2 }

// skip rejects the drawn action - unless many draws in a row were rejected already: rapid gives up
// ("can't find a valid action", reported as a failure) after 100 consecutive rejected draws, and in
// the terminal states of this machine (closed, generation joined, queue empty) "drain" is the only
// enabled action out of ten, so 100 misses in a row do happen once in a few million cases. The step
// is then spent on a harmless drain instead.
func (d *c05Driver) skip(rt *rapid.T, why string) {
	d.skips++
	if d.skips > 25 {
		d.skips = 0
		d.takeNotes(rt, 1)
		return
	}
	rt.Skip(why)
}

// --- receive-path commits -------------------------------------------------------------------

func (d *c05Driver) commitSelected(t *rapid.T, where string) {
	want := d.st == ns && !d.closed
	got := d.v.CommitSelected()
	d.logf("%s CommitSelected -> %v", where, got)
	if got != want {
		d.fail(t, "CommitSelected returned %v, reference model expects %v (model state %v, closed=%v)", got, want, d.st, d.closed)
	}
	if want {
		d.st = sel
		d.selCount++
		d.queue = append(d.queue, c05Ev{kind: hsms.VerifEvSelectAccepted, gen: d.gen})
	}
	if d.tearingDown || d.closed {
		d.lateCmt++
	}
	d.checkState(t, "CommitSelected")
}

func (d *c05Driver) commitSelectLost(t *rapid.T, where string) {
	wasSel := d.st == sel
	want := wasSel && !d.closed
	got := d.v.CommitSelectLost()
	d.logf("%s CommitSelectLost -> %v", where, got)
	if got != want {
		d.fail(t, "CommitSelectLost returned %v, reference model expects %v (model state %v, closed=%v)", got, want, d.st, d.closed)
	}
	if want {
		d.st = ns
		d.queue = append(d.queue, c05Ev{kind: hsms.VerifEvSelectLost, gen: d.gen})
		// the T7 goroutines of arms that predate the select were cancelled at select time; by the
		// time a Deselect.req has crossed the network they are gone
		for _, a := range d.arms {
			if a.gen == d.gen && a.selAt < d.selCount {
				a.dead = true
			}
		}
		d.arm() // the responder re-arms T7 on a successful deselect
	}
	d.checkState(t, "CommitSelectLost")
}

func (d *c05Driver) canSelectLost() bool {
	if d.knownF6 && d.staleT7Pending() {
		d.exclF6++
		return false
	}
	return true
}

// --- model of one supervisor step ---------------------------------------------------------------

func (d *c05Driver) modelApply(e c05Ev) {
	if d.closed {
		return
	}
	switch e.kind {
	case hsms.VerifEvDisconnect:
		if d.st != nc {
			d.st = nc
			d.tearingDown = true
		}
	case hsms.VerifEvT7Timeout:
		if d.st == ns && e.gen == d.gen && e.armSel == d.selCount {
			d.st = nc
			d.tearingDown = true
		}
	case hsms.VerifEvClose:
		d.st = nc
		d.closed = true
		d.tearingDown = true
	}
}

func (d *c05Driver) takeNotes(t *rapid.T, max int) {
	got := d.v.DrainNotify(max)
	dropped := d.v.Dropped()
	for _, n := range got {
		if n.Prev == n.Next {
			d.fail(t, "self-transition notification %v->%v", n.Prev, n.Next)
		}
		if len(d.notes) > 0 {
			prev := d.notes[len(d.notes)-1]
			// a gap is allowed only if the library reported coalescing since the previous delivery
			if prev.Next != n.Prev && dropped == d.lastDropped {
				d.fail(t, "notification chain broken: %v->%v followed by %v->%v (no coalescing reported, dropped=%d)", prev.Prev, prev.Next, n.Prev, n.Next, dropped)
			}
		}
		d.notes = append(d.notes, n)
		d.lastDropped = dropped
	}
}

func TestC05Supervisor(t *testing.T) {
	ev.Rule("rapid state machine over the real supervisor (hook): actions tcpUp/selectCommit/selectLost/fireT7/tcpDown/close/step(with 0-2 commits inside the load->store window)/join/drain; oracle = reference E37 model after every action + notification chain/no-self/final-state invariants; non-trivial = history has >=1 commit executed inside a step window, or a stale event (T7 after select, event of a dying generation, commit after Close)")
	ev.Assume("A1: a new TCP generation starts only after the previous one's goroutines were joined and its queued events were processed (real time separates generations: join + backoff + dial)")
	knownF6 := vt.Known("F6")
	vt.Check(t, 30000, 2000000, func(rt *rapid.T) {
		d := &c05Driver{v: hsms.NewVerifSupervisor(64), st: nc, knownF6: knownF6}
		hook := func(rt *rapid.T) func() {
			if !d.genLive {
				return nil
			}
			n := rapid.IntRange(0, 2).Draw(rt, "windowCommits")
			if n == 0 {
				return nil
			}
			kinds := make([]int, n)
			for i := range kinds {
				kinds[i] = rapid.IntRange(0, 1).Draw(rt, "windowCommitKind")
			}
			return func() {
				for _, k := range kinds {
					if k == 0 {
						d.commitSelected(rt, "  [in-window]")
						d.inWindow++
					} else if d.canSelectLost() {
						d.commitSelectLost(rt, "  [in-window]")
						d.inWindow++
					}
				}
			}
		}
		step := func(rt *rapid.T) {
			if d.v.Pending() == 0 {
				d.skip(rt, "empty queue")
				return
			}
			e := d.queue[0]
			d.queue = d.queue[1:]
			d.stepping = &e
			if e.gen != d.gen && e.kind != hsms.VerifEvClose {
				d.stale++
			}
			if e.kind == hsms.VerifEvT7Timeout && (e.armSel < d.selCount) {
				d.stale++
			}
			h := hook(rt)
			d.logf("step %v (gen %d)", evName(e.kind), e.gen)
			wasClosed := d.closed
			notesBefore := d.v.NotifyQueued()
			droppedBefore := d.v.Dropped()
			reactsBefore := len(d.v.Reacts())
			got, ok := d.v.StepOne(h)
			if !ok || got != e.kind {
				d.fail(rt, "driver desync: popped %v ok=%v, mirror head %v", got, ok, evName(e.kind))
			}
			d.stepping = nil
			d.modelApply(e)
			d.checkState(rt, "step "+evName(e.kind))
			// the reaction into NotConnected is what tears the TCP generation down: it may only be
			// initiated by a step that actually takes the connection to NotConnected
			for _, r := range d.v.Reacts()[reactsBefore:] {
				if r.Next == nc && d.st != nc {
					d.fail(rt, "step %s initiated a teardown (reaction %v->%v) although the session is %v", evName(e.kind), r.Prev, r.Next, d.st)
				}
			}
			if wasClosed && (d.v.NotifyQueued() != notesBefore || d.v.Dropped() != droppedBefore) {
				d.fail(rt, "a notification was emitted after Close had been processed")
			}
		}
		rt.Repeat(map[string]func(*rapid.T){
			"tcpUp": func(rt *rapid.T) {
				if d.genLive || d.st != nc || !d.room() {
					d.skip(rt, "generation live")
					return
				}
				for _, e := range d.queue {
					if e.kind != hsms.VerifEvClose {
						d.skip(rt, "A1: events of the previous generation still queued")
						return
					}
				}
				if d.closeInjected {
					if d.lateGens >= 1 {
						d.skip(rt, "one late generation at most")
						return
					}
					d.lateGens++
					d.stale++
				}
				d.gen++
				d.genLive, d.tearingDown, d.selCount = true, false, 0
				want := !d.closed
				got := d.v.CommitConnected()
				d.logf("tcpUp gen %d: CommitConnected -> %v", d.gen, got)
				if got != want {
					d.fail(rt, "CommitConnected returned %v, reference model expects %v (closed=%v)", got, want, d.closed)
				}
				if want {
					d.st = ns
					d.queue = append(d.queue, c05Ev{kind: hsms.VerifEvTCPUp, gen: d.gen})
				}
				d.arm()
				d.checkState(rt, "CommitConnected")
			},
			"selectCommit": func(rt *rapid.T) {
				if !d.genLive || !d.room() {
					d.skip(rt, "no receive path")
					return
				}
				d.commitSelected(rt, "recv:")
			},
			"selectLost": func(rt *rapid.T) {
				if !d.genLive || !d.room() || !d.canSelectLost() {
					d.skip(rt, "no receive path")
					return
				}
				d.commitSelectLost(rt, "recv:")
			},
			"fireT7": func(rt *rapid.T) {
				if !d.genLive || !d.room() {
					d.skip(rt, "no generation")
					return
				}
				var cand []*c05Arm
				for _, a := range d.arms {
					if a.gen == d.gen && !a.fired && !a.dead {
						cand = append(cand, a)
					}
				}
				if len(cand) == 0 {
					d.skip(rt, "no armed T7")
					return
				}
				a := cand[rapid.IntRange(0, len(cand)-1).Draw(rt, "arm")]
				a.fired = true
				d.v.Inject(hsms.VerifEvT7Timeout)
				d.queue = append(d.queue, c05Ev{kind: hsms.VerifEvT7Timeout, gen: d.gen, arm: a.id, armSel: a.selAt})
				d.logf("T7 (arm %d, armed after %d selects) expires", a.id, a.selAt)
			},
			"tcpDown": func(rt *rapid.T) {
				if !d.genLive || !d.room() {
					d.skip(rt, "no generation")
					return
				}
				d.v.Inject(hsms.VerifEvDisconnect)
				d.queue = append(d.queue, c05Ev{kind: hsms.VerifEvDisconnect, gen: d.gen})
				d.logf("TCPDown gen %d", d.gen)
			},
			"close": func(rt *rapid.T) {
				if d.closeInjected || !d.room() || rapid.IntRange(0, 3).Draw(rt, "reallyClose") != 0 {
					d.skip(rt, "already closing")
					return
				}
				d.closeInjected = true
				d.v.Inject(hsms.VerifEvClose)
				d.queue = append(d.queue, c05Ev{kind: hsms.VerifEvClose, gen: d.gen})
				d.logf("Close requested")
			},
			"step": step,
			"flapBurst": func(rt *rapid.T) {
				// many select/deselect rounds with no notification drained in between: forces the
				// drop-oldest coalescing of the 16-slot notification queue
				if !d.genLive || d.closed || d.v.Pending() > 8 {
					d.skip(rt, "no receive path")
					return
				}
				n := rapid.IntRange(6, 14).Draw(rt, "rounds")
				for i := 0; i < n; i++ {
					d.commitSelected(rt, "recv:")
					if d.canSelectLost() {
						d.commitSelectLost(rt, "recv:")
					}
					for d.v.Pending() > 0 {
						step(rt)
					}
				}
			},
			"join": func(rt *rapid.T) {
				if !d.genLive || !(d.tearingDown || d.closed) {
					d.skip(rt, "generation not ending")
					return
				}
				d.genLive = false
				d.logf("generation %d joined", d.gen)
			},
			"drain": func(rt *rapid.T) {
				d.takeNotes(rt, rapid.IntRange(1, 20).Draw(rt, "n"))
			},
			"": func(rt *rapid.T) {
				d.skips = 0
				d.checkState(rt, "action")
				if d.v.Pending() != len(d.queue) {
					d.fail(rt, "driver desync: real queue %d, mirror %d", d.v.Pending(), len(d.queue))
				}
			},
		})
		// quiescence: process everything, drain everything
		for d.v.Pending() > 0 {
			e := d.queue[0]
			d.queue = d.queue[1:]
			d.logf("final step %v", evName(e.kind))
			d.v.StepOne(nil)
			d.modelApply(e)
			d.checkState(rt, "final step "+evName(e.kind))
		}
		d.takeNotes(rt, 0)
		if len(d.notes) > 0 {
			if last := d.notes[len(d.notes)-1]; last.Next != d.v.State() {
				d.fail(rt, "after quiescence the last notification is %v->%v but State()=%v", last.Prev, last.Next, d.v.State())
			}
		} else if d.v.State() != nc {
			d.fail(rt, "State()=%v but no notification was ever delivered", d.v.State())
		}
		nontrivial := d.inWindow > 0 || d.stale > 0 || d.lateCmt > 0
		var cls []string
		if d.inWindow > 0 {
			cls = append(cls, "in-window-commit")
		}
		if d.stale > 0 {
			cls = append(cls, "stale-event")
		}
		if d.lateCmt > 0 {
			cls = append(cls, "late-commit")
		}
		if d.closeInjected {
			cls = append(cls, "close")
		}
		if d.lateGens > 0 {
			cls = append(cls, "generation-after-close")
		}
		if d.v.Dropped() > 0 {
			cls = append(cls, "coalesced")
		}
		if d.gen > 1 {
			cls = append(cls, "multi-generation")
		}
		ev.Count("excluded_known_F6", int64(d.exclF6))
		ev.Case(nontrivial, strings.Join(d.hist, "|"), func() any { return d.hist }, cls...)
	})
}

func evName(k hsms.VerifEvent) string {
	switch k {
	case hsms.VerifEvTCPUp:
		return "evTCPUp"
	case hsms.VerifEvSelectAccepted:
		return "evSelectAccepted"
	case hsms.VerifEvSelectLost:
		return "evSelectLost"
	case hsms.VerifEvDisconnect:
		return "evDisconnect"
	case hsms.VerifEvClose:
		return "evClose"
	case hsms.VerifEvT7Timeout:
		return "evT7Timeout"
	}
	return fmt.Sprint(k)
}

// TestC05Table compares the pure transition table exhaustively with the reference.
func TestC05Table(t *testing.T) {
	defer ev.Flush()
	ref := func(cur hsms.ConnState, e hsms.VerifEvent) (hsms.ConnState, bool) {
		switch e {
		case hsms.VerifEvTCPUp:
			if cur == nc || cur == ns {
				return ns, true
			}
		case hsms.VerifEvSelectAccepted:
			if cur == ns || cur == sel {
				return sel, true
			}
		case hsms.VerifEvSelectLost:
			if cur == sel || cur == ns {
				return ns, true
			}
		case hsms.VerifEvDisconnect:
			if cur == sel || cur == ns {
				return nc, true
			}
		case hsms.VerifEvT7Timeout:
			if cur == ns {
				return nc, true
			}
		case hsms.VerifEvClose:
			return nc, true
		}
		return cur, false
	}
	for _, cur := range []hsms.ConnState{nc, ns, sel} {
		for e := hsms.VerifEvent(0); e < 8; e++ {
			gn, gok := hsms.VerifTransition(cur, e)
			wn, wok := ref(cur, e)
			if gn != wn || gok != wok {
				t.Fatalf("VERIF-VIOLATION: transition(%v,%v)=(%v,%v), E37 reference (%v,%v)", cur, evName(e), gn, gok, wn, wok)
			}
			ev.Case(true, fmt.Sprint(cur, e), func() any { return fmt.Sprintf("transition(%v,%s)=(%v,%v)", cur, evName(e), gn, gok) }, "table")
		}
	}
}

// TestC05KnownF6 replays the recorded finding F6 deterministically and prints the KNOWN-FINDING
// line when (and only when) it is listed as open and still reproduces.
func TestC05KnownF6(t *testing.T) {
	defer ev.Flush()
	v := hsms.NewVerifSupervisor(16)
	v.CommitConnected()
	v.StepOne(nil)
	v.Inject(hsms.VerifEvT7Timeout) // T7 armed at TCP-up expires ...
	v.CommitSelected()              // ... as the peer's Select.req is being served
	v.CommitSelectLost()            // the peer deselects at once
	v.StepOne(nil)                  // the supervisor now gets to the stale T7
	reproduced := v.State() == nc
	ev.Case(true, "F6-replay", func() any { return fmt.Sprintf("stale T7 after select+deselect: State()=%v", v.State()) }, "known-F6-replay")
	ev.Case(true, "F6-replay-b", func() any { return "second observation of the same replay (State read twice)" }, "known-F6-replay")
	if reproduced {
		if vt.Known("F6") {
			fmt.Fprintln(os.Stdout, "KNOWN-FINDING: property=C05 F6 a T7 expiry armed before a Select, processed after a later Deselect, disconnects the session (history: CommitConnected, step, inject T7, CommitSelected, CommitSelectLost, step)")
			return
		}
		t.Fatalf("VERIF-VIOLATION: a T7 expiry armed before the session was selected disconnected it after a later deselect (State()=%v)", v.State())
	}
}
