package props

// C18: SECS-I delivers each successfully sent message exactly once over a faulty line. Two REAL
// secs1 connections (equipment, passive; host, active) are joined by a character-level middlebox
// that follows the E4 grammar in both directions and applies a drawn fault plan. Real time (the two
// endpoints' senders and async paths contend on mutexes while timers must fire, which a synctest
// bubble cannot schedule); T1 50 ms, T2 150 ms. Every assertion is about content, order, counts or
// a generous upper bound - never about a tight instant.

import (
	"context"
	"fmt"
	"net"
	"strings"
	"sync"
	"testing"
	"time"

	"github.com/arloliu/go-secs/v2/hsms"
	"github.com/arloliu/go-secs/v2/secs1"
	"github.com/arloliu/go-secs/v2/secs2"
	"pgregory.net/rapid"
	"verif/harness/ev"
	"verif/harness/netsim"
	"verif/harness/ref/e4"
	"verif/harness/vt"
)

const (
	c18T1 = 50 * time.Millisecond
	c18T2 = 150 * time.Millisecond
	// c18MaxLag: see runC18.fail - the slack the fault plan has against the shortest protocol window (the
	// delayed ACK lands 40 ms after the sender's T2 expiry)
	c18MaxLag = 20 * time.Millisecond
)

type c18Fault struct {
	dir   string // "h2e" (host -> equipment) or "e2h"
	class string // block | ENQ | EOT | ACK | NAK
	index int    // which occurrence of that class in that direction (0-based)
	kind  string // block: flip truncate drop ; handshake: drop replace-nak delay
	pos   int    // block: character position (flip / truncate point)
	used  bool
}

func (f *c18Fault) String() string {
	return fmt.Sprintf("%s %s#%d %s@%d", f.dir, f.class, f.index, f.kind, f.pos)
}

// c18Box is the middlebox: it pumps characters between the two endpoints, tracks the E4 grammar
// per direction (handshake character vs block content) and applies the fault plan.
type c18Box struct {
	mu      sync.Mutex
	faults  []*c18Fault
	log     []string
	enabled bool
	// per direction state, keyed by dir
	expectLen map[string]bool
	remaining map[string]int
	blockPos  map[string]int
	blockIdx  map[string]int
	hsIdx     map[string]map[string]int
	curFault  map[string]*c18Fault
	// observations
	enqSince   map[string]int // ENQs emitted by the sender of dir since its last acknowledged block
	maxEnq     map[string]int
	hostYields int
	pendingEnq map[string]bool // sender of dir has an ENQ outstanding
	t0         time.Time
	// block transmissions per (direction, line generation, 10-byte block header)
	gen       int
	curHeader map[string][]byte
	attempts  map[string]int
	yieldsAt  map[string]int // host yields seen when the header's first transmission happened
	maxTx     map[string]int
	lag       *vt.Lag // scheduling lag of this process (see vt.Lag); the box reports its own late sleeps to it
	// a length character lowered by a fault: characters the receiver will read, their sum, the two
	// characters it will take for the checksum
	lenDown     map[string]int
	lenSum      map[string]uint16
	lenTail     map[string][]byte
	coincidence bool
}

func newC18Box(faults []*c18Fault) *c18Box {
	b := &c18Box{faults: faults, enabled: true, expectLen: map[string]bool{}, remaining: map[string]int{}, blockPos: map[string]int{}, blockIdx: map[string]int{},
		hsIdx: map[string]map[string]int{"h2e": {}, "e2h": {}}, curFault: map[string]*c18Fault{}, enqSince: map[string]int{}, maxEnq: map[string]int{}, pendingEnq: map[string]bool{}, t0: time.Now(),
		curHeader: map[string][]byte{}, attempts: map[string]int{}, yieldsAt: map[string]int{}, maxTx: map[string]int{},
		lenDown: map[string]int{}, lenSum: map[string]uint16{}, lenTail: map[string][]byte{}}
	return b
}

func (b *c18Box) logf(f string, a ...any) {
	b.log = append(b.log, fmt.Sprintf("+%4dms ", time.Since(b.t0).Milliseconds())+fmt.Sprintf(f, a...))
}

func other(dir string) string {
	if dir == "h2e" {
		return "e2h"
	}
	return "h2e"
}

func (b *c18Box) findFault(dir, class string, idx int) *c18Fault {
	if !b.enabled {
		return nil
	}
	for _, f := range b.faults {
		if !f.used && f.dir == dir && f.class == class && f.index == idx {
			f.used = true
			return f
		}
	}
	return nil
}

// process decides what to forward for one character c travelling in direction dir. It returns the
// characters to forward and a delay to apply before forwarding.
func (b *c18Box) process(dir string, c byte) (out []byte, delay time.Duration) {
	b.mu.Lock()
	defer b.mu.Unlock()
	// block content?
	if b.remaining[dir] > 0 {
		b.remaining[dir]--
		pos := b.blockPos[dir]
		b.blockPos[dir]++
		if pos >= 1 && pos <= 10 {
			b.curHeader[dir] = append(b.curHeader[dir], c)
			if pos == 10 {
				// one more transmission of this block on this line generation
				key := fmt.Sprintf("%s/%d/%x", dir, b.gen, b.curHeader[dir])
				if b.attempts[key] == 0 {
					b.yieldsAt[key] = b.hostYields
				}
				b.attempts[key]++
				// the host's postponed send restarts as a new request after every contention yield
				n := b.attempts[key]
				if dir == "h2e" {
					n -= (b.hostYields - b.yieldsAt[key]) * 100
				}
				if n > b.maxTx[dir] {
					b.maxTx[dir] = n
				}
			}
		}
		if k := b.lenDown[dir]; k > 0 {
			// would the SHORT read (k characters + 2) happen to carry a valid checksum? (2^-16: E4 cannot
			// detect that corruption; the case is then inconclusive)
			switch {
			case pos <= k:
				b.lenSum[dir] += uint16(c)
			case pos <= k+2:
				b.lenTail[dir] = append(b.lenTail[dir], c)
				if pos == k+2 && uint16(b.lenTail[dir][0])<<8|uint16(b.lenTail[dir][1]) == b.lenSum[dir] {
					b.coincidence = true
				}
			}
			if b.remaining[dir] == 0 {
				b.lenDown[dir] = 0
			}
		}
		f := b.curFault[dir]
		if b.remaining[dir] == 0 {
			b.curFault[dir] = nil
		}
		if f == nil {
			return []byte{c}, 0
		}
		switch f.kind {
		case "drop":
			return nil, 0
		case "truncate":
			if pos >= f.pos {
				return nil, 0
			}
		case "flip":
			if pos == f.pos {
				return []byte{c ^ 0x10}, 0
			}
		}
		return []byte{c}, 0
	}
	if b.expectLen[dir] && c >= 10 {
		// a block transmission starts: c is the length byte
		b.expectLen[dir] = false
		n := int(c) + 2
		b.remaining[dir] = n
		b.blockPos[dir] = 1
		b.curHeader[dir] = nil
		idx := b.blockIdx[dir]
		b.blockIdx[dir]++
		f := b.findFault(dir, "block", idx)
		if f != nil {
			// never touch the length byte; keep the position inside the block
			if f.pos < 1 {
				f.pos = 1
			}
			if f.pos > n {
				f.pos = n
			}
			b.logf("%s block#%d (%d characters): FAULT %s", dir, idx, n+1, f)
		} else {
			b.logf("%s block#%d (%d characters)", dir, idx, n+1)
		}
		b.curFault[dir] = f
		if f != nil && f.kind == "drop" {
			return nil, 0
		}
		if f != nil && (f.kind == "len-down" || f.kind == "len-up") {
			// the fault hits the length character itself; the box keeps tracking the block by its true
			// length, the receiver reads fewer (more) characters than were sent
			fc := c
			if f.kind == "len-down" && c > 10 {
				fc = 10 + byte(f.pos%int(c-10))
			} else if f.kind == "len-up" && c < 254 {
				fc = c + 1 + byte(f.pos%int(254-c))
			}
			b.lenDown[dir] = 0
			if fc < c {
				b.lenDown[dir] = int(fc)
				b.lenSum[dir], b.lenTail[dir] = 0, nil
			}
			b.curFault[dir] = nil
			return []byte{fc}, 0
		}
		return []byte{c}, 0
	}
	// handshake character
	name := map[byte]string{e4.ENQ: "ENQ", e4.EOT: "EOT", e4.ACK: "ACK", e4.NAK: "NAK"}[c]
	if name == "" {
		b.logf("%s stray 0x%02x", dir, c)
		return []byte{c}, 0
	}
	idx := b.hsIdx[dir][name]
	b.hsIdx[dir][name]++
	f := b.findFault(dir, name, idx)
	switch c {
	case e4.ENQ:
		b.enqSince[dir]++
		if b.enqSince[dir] > b.maxEnq[dir] {
			b.maxEnq[dir] = b.enqSince[dir]
		}
		b.pendingEnq[dir] = true
	case e4.EOT:
		if dir == "h2e" && b.pendingEnq["h2e"] {
			// the host grants the line while its own request is outstanding: a contention yield,
			// after which its postponed send restarts as a new request
			b.hostYields++
			b.enqSince["h2e"] = 0
			b.pendingEnq["h2e"] = false
		}
	case e4.ACK:
		// the sender of the other direction got its block through
		b.enqSince[other(dir)] = 0
		b.pendingEnq[other(dir)] = false
	}
	if f == nil {
		b.logf("%s %s", dir, name)
		if c == e4.EOT {
			b.expectLen[other(dir)] = true
		}
		return []byte{c}, 0
	}
	b.logf("%s %s#%d: FAULT %s", dir, name, idx, f.kind)
	switch f.kind {
	case "drop":
		return nil, 0
	case "replace-nak":
		return []byte{e4.NAK}, 0
	case "delay":
		if c == e4.EOT {
			b.expectLen[other(dir)] = true
		}
		return []byte{c}, c18T2 + 40*time.Millisecond
	}
	return []byte{c}, 0
}

func (b *c18Box) pump(dir string, from, to net.Conn, done chan<- struct{}) {
	defer func() { done <- struct{}{} }()
	buf := make([]byte, 512)
	for {
		n, err := from.Read(buf)
		// Everything read in one piece is forwarded in one piece: forwarding character by character
		// lets the scheduler open gaps of more than T1 INSIDE a block on a busy machine - a fault
		// nobody planned (and with a ghost block in the tail, one E4 cannot survive).
		var pending []byte
		flush := func() bool {
			if len(pending) == 0 {
				return true
			}
			_, werr := to.Write(pending)
			pending = pending[:0]
			return werr == nil
		}
		for i := 0; i < n; i++ {
			out, delay := b.process(dir, buf[i])
			if delay > 0 {
				if !flush() {
					return
				}
				st := time.Now()
				time.Sleep(delay)
				if b.lag != nil {
					b.lag.Note(time.Since(st) - delay)
				}
			}
			pending = append(pending, out...)
		}
		if !flush() {
			return
		}
		if err != nil {
			return
		}
	}
}

type tokLog struct {
	mu  sync.Mutex
	got []string
}

func (l *tokLog) handler(m *hsms.DataMessage, _ hsms.SECS2Endpoint) {
	it, err := m.Item()
	s := "<undecodable>"
	if err == nil {
		if a, aerr := it.ToASCII(); aerr == nil {
			s = a
		}
	}
	if m.Stream() == 9 {
		return // S9Fx error notifications are generated by the peer library itself, not by a send call
	}
	l.mu.Lock()
	l.got = append(l.got, fmt.Sprintf("S%dF%d:%s", m.Stream(), m.Function(), s))
	l.mu.Unlock()
}

func (l *tokLog) snapshot() []string {
	l.mu.Lock()
	defer l.mu.Unlock()
	return append([]string(nil), l.got...)
}

func TestC18ExactlyOnce(t *testing.T) {
	ev.Rule("an equipment (passive) and a host (active) secs1 connection joined by a character-level middlebox (real time, T1 50 ms, T2 150 ms, retry limit 0..3); each side sends 1-4 messages of 1-4 blocks (text = unique token + filler: plain, the line's control characters, or complete ghost block images addressed to the receiver) sequentially, the two sides concurrently (contention); fault plan of 0-3 faults, each hitting one occurrence: flip one character of a block's header/body/checksum, lower or raise a block's length character, truncate a block, drop a block, drop an ENQ / EOT / ACK / NAK, replace an ACK by NAK, delay an ACK beyond T2; oracle: every send that returned success was delivered exactly once and intact, deliveries per direction follow send order, no message is delivered twice or altered whatever its send returned, one block is transmitted at most retry-limit+1 times on a line generation (the host: per contention yield), all sends finish within a generous bound, and after any failed send the link comes back and a fresh message in each direction goes through; non-trivial = a fault hit a block or handshake character, or contention occurred")
	vt.Check(t, 400, 12000, func(rt *rapid.T) { runC18(rt) })
}

func runC18(rt *rapid.T) {
	rty := rapid.IntRange(0, 3).Draw(rt, "retryLimit")
	device := uint16(rapid.IntRange(0, 0x7fff).Draw(rt, "device"))
	nw := netsim.NewNet()
	mk := func(equip bool) (secs1.Connection, error) {
		opts := []secs1.Option{secs1.WithDeviceID(device), secs1.WithT1(c18T1), secs1.WithT2(c18T2), secs1.WithT4(time.Second), secs1.WithRetryLimit(rty),
			secs1.WithConnectionOption(hsms.WithLogger(&capLogger{})), secs1.WithConnectionOption(hsms.WithT5(30 * time.Millisecond)),
			secs1.WithConnectionOption(hsms.WithReconnectBackoff(10*time.Millisecond, 2)), secs1.WithConnectionOption(hsms.WithCloseTimeout(2 * time.Second)),
			secs1.WithConnectionOption(hsms.WithT3(2 * time.Second))}
		if equip {
			opts = append(opts, secs1.WithEquipment(), secs1.WithPassive(), secs1.WithListener(func(ctx context.Context, _, _ string) (net.Listener, error) {
				l, err := nw.Listen("equip:1")
				if err != nil {
					return nil, err
				}
				return l, nil
			}))
		} else {
			opts = append(opts, secs1.WithHost(), secs1.WithActive(), secs1.WithDialer(func(ctx context.Context, _, _ string) (net.Conn, error) {
				c, err := nw.Dial(ctx, "mbox:1")
				if err != nil {
					return nil, err
				}
				return c, nil
			}))
		}
		cfg, err := secs1.NewConfig("127.0.0.1", 5000, opts...)
		if err != nil {
			return nil, err
		}
		return secs1.New(cfg)
	}
	eq, err := mk(true)
	if err != nil {
		rt.Fatalf("VERIF-INFRA: %v", err)
	}
	ho, err := mk(false)
	if err != nil {
		rt.Fatalf("VERIF-INFRA: %v", err)
	}
	atEquip, atHost := &tokLog{}, &tokLog{}
	eq.AddDataMessageHandler(atEquip.handler)
	ho.AddDataMessageHandler(atHost.handler)

	// fault plan
	nf := rapid.IntRange(0, 3).Draw(rt, "faults")
	var faults []*c18Fault
	for i := 0; i < nf; i++ {
		f := &c18Fault{dir: rapid.SampledFrom([]string{"h2e", "e2h"}).Draw(rt, "dir")}
		if rapid.Bool().Draw(rt, "onBlock") {
			f.class = "block"
			f.kind = rapid.SampledFrom([]string{"flip", "flip", "truncate", "drop", "len-down", "len-down", "len-up"}).Draw(rt, "blockFault")
			f.index = rapid.IntRange(0, 5).Draw(rt, "blockIndex")
			f.pos = rapid.IntRange(1, 200).Draw(rt, "pos")
		} else {
			f.class = rapid.SampledFrom([]string{"ENQ", "EOT", "ACK", "ACK", "NAK"}).Draw(rt, "hsClass")
			f.index = rapid.IntRange(0, 4).Draw(rt, "hsIndex")
			kinds := []string{"drop"}
			if f.class == "ACK" {
				kinds = []string{"drop", "drop", "replace-nak", "delay"}
			}
			// (a delayed EOT is not generated: the sender re-requests the line meanwhile and then owns two
			// grants, which leaves both ends - and this proxy's grammar tracking - out of step in ways
			// E4 does not bound)
			f.kind = rapid.SampledFrom(kinds).Draw(rt, "hsFault")
		}
		faults = append(faults, f)
	}
	box := newC18Box(faults)
	lag := vt.StartLag()
	defer lag.Stop()
	box.lag = lag

	// the middlebox accept loop
	ln, err := nw.Listen("mbox:1")
	if err != nil {
		rt.Fatalf("VERIF-INFRA: %v", err)
	}
	stop := make(chan struct{})
	var bwg sync.WaitGroup
	bwg.Add(1)
	go func() {
		defer bwg.Done()
		for {
			hc, err := ln.Accept()
			if err != nil {
				return
			}
			var ec *netsim.Conn
			for i := 0; i < 400; i++ {
				if ec, err = nw.Dial(context.Background(), "equip:1"); err == nil {
					break
				}
				select {
				case <-stop:
					_ = hc.Close()
					return
				case <-time.After(3 * time.Millisecond):
				}
			}
			if ec == nil {
				_ = hc.Close()
				continue
			}
			box.mu.Lock()
			box.expectLen, box.remaining, box.curFault = map[string]bool{}, map[string]int{}, map[string]*c18Fault{}
			box.pendingEnq = map[string]bool{}
			box.gen++
			box.logf("line (re)established")
			box.mu.Unlock()
			done := make(chan struct{}, 2)
			go box.pump("h2e", hc, ec, done)
			go box.pump("e2h", ec, hc, done)
			<-done
			_ = hc.Close()
			_ = ec.Close()
			<-done
			box.mu.Lock()
			box.logf("line lost")
			box.mu.Unlock()
		}
	}()
	defer func() {
		close(stop)
		_ = eq.Close()
		_ = ho.Close()
		_ = ln.Close()
		bwg.Wait()
	}()
	fail := func(f string, a ...any) {
		box.mu.Lock()
		lg := strings.Join(box.log, "\n  ")
		box.mu.Unlock()
		var fs []string
		for _, x := range faults {
			fs = append(fs, x.String())
		}
		// REAL time: the fault plan is sound only if the harness keeps its own schedule (a delayed ACK must
		// land while the sender waits for EOT; the box must forward within T1/T2). If this process was
		// scheduled more than c18MaxLag late during the case, the line saw timing faults nobody planned
		// (a late EOT, two grants in flight - outside what E4 bounds): inconclusive, not a violation.
		box.mu.Lock()
		coincidence := box.coincidence
		box.mu.Unlock()
		if coincidence {
			ev.Count("inconclusive_checksum_coincidence", 1)
			rt.Skip("inconclusive: a shortened block happened to carry a valid checksum (E4 cannot detect that)")
		}
		if lag.Max() > c18MaxLag {
			ev.Count("inconclusive_starved_machine", 1)
			rt.Skip(fmt.Sprintf("inconclusive: this process was scheduled %v late (limit %v)", lag.Max(), c18MaxLag))
		}
		rt.Fatalf("C18 violated (retry limit %d, faults %v, worst scheduling lag %v): %s\nline:\n  %s\nat equipment: %v\nat host: %v", rty, fs, lag.Max(), fmt.Sprintf(f, a...), lg, atEquip.snapshot(), atHost.snapshot())
	}
	if err := eq.Open(context.Background(), hsms.OpenBackground); err != nil {
		rt.Fatalf("VERIF-INFRA: %v", err)
	}
	if err := ho.Open(context.Background(), hsms.OpenBackground); err != nil {
		rt.Fatalf("VERIF-INFRA: %v", err)
	}
	if !waitState(eq, hsms.SelectedState, 3*time.Second) || !waitState(ho, hsms.SelectedState, 3*time.Second) {
		fail("the line never came up")
	}
	// the send programs
	type sent struct {
		tok string
		err error
	}
	// message text: a unique token, then filler up to the wanted number of blocks. The filler is plain,
	// or made of the line's own control characters, or of complete well-formed "ghost" block images
	// (ENQ + a single-block message addressed to the receiver): whatever a receiver mistakes for line
	// traffic after losing its place inside a block shows up as strays, retries or a ghost delivery.
	ghost := func(toHost bool) string {
		g := e4.Split(e4.Message{Device: device, R: toHost, Stream: 1, Function: 9, Sys: 0x68057a7a, Body: []byte{0x41, 0x05, 'G', 'H', 'O', 'S', 'T'}})[0].Bytes()
		return string(append([]byte{e4.ENQ}, g...))
	}
	mkTok := func(side string, i int, blocks int, fill string) string {
		n := (blocks-1)*244 + 20
		s := fmt.Sprintf("%s%d-", side, i)
		unit := "x"
		switch fill {
		case "soup":
			unit = string([]byte{e4.ENQ, e4.EOT, e4.ACK, e4.NAK})
		case "ghost":
			unit = ghost(side == "e")
		}
		for len(s) < n {
			s += unit
		}
		return s[:n]
	}
	fills := []string{"plain", "plain", "soup", "ghost"}
	nh, ne := rapid.IntRange(1, 4).Draw(rt, "hostMsgs"), rapid.IntRange(1, 4).Draw(rt, "equipMsgs")
	hb, eb := make([]int, nh), make([]int, ne)
	hf, ef := make([]string, nh), make([]string, ne)
	for i := range hb {
		hb[i] = rapid.IntRange(1, 4).Draw(rt, "hostBlocks")
		hf[i] = rapid.SampledFrom(fills).Draw(rt, "hostFill")
	}
	for i := range eb {
		eb[i] = rapid.IntRange(1, 4).Draw(rt, "equipBlocks")
		ef[i] = rapid.SampledFrom(fills).Draw(rt, "equipFill")
	}
	stagger := time.Duration(rapid.SampledFrom([]int{0, 0, 0, 5, 30}).Draw(rt, "staggerMs")) * time.Millisecond
	var wg sync.WaitGroup
	run := func(c secs1.Connection, side string, blocks []int, fillOf []string, fn byte, delay time.Duration, out *[]sent) {
		defer wg.Done()
		time.Sleep(delay)
		for i, nb := range blocks {
			tok := mkTok(side, i, nb, fillOf[i])
			ctx, cancel := ctxT(20 * time.Second)
			_, err := c.SendDataMessage(ctx, 1, fn, false, secs2.A(tok))
			cancel()
			*out = append(*out, sent{tok, err})
			if err != nil {
				// the line is re-established after a failed send; wait for it
				waitState(c, hsms.SelectedState, 5*time.Second)
			}
		}
	}
	var hs, es []sent
	start := time.Now()
	wg.Add(2)
	go run(ho, "h", hb, hf, 1, 0, &hs)
	go run(eq, "e", eb, ef, 3, stagger, &es)
	fin := make(chan struct{})
	go func() { wg.Wait(); close(fin) }()
	bound := time.Duration(nh+ne)*4*time.Duration(rty+2)*3*c18T2 + 20*time.Second
	select {
	case <-fin:
	case <-time.After(bound):
		fail("the sends did not finish within %v: deadlock or unbounded retry", bound)
	}
	elapsed := time.Since(start)
	// let deliveries settle
	check := func(what string, sends []sent, log *tokLog, fn byte) (ok bool, reason string) {
		got := log.snapshot()
		seen := map[string]int{}
		for _, g := range got {
			seen[g]++
		}
		var order []string
		for _, s := range sends {
			key := fmt.Sprintf("S1F%d:%s", fn, s.tok)
			if seen[key] > 1 {
				return false, fmt.Sprintf("%s message %q was delivered %d times", what, s.tok[:6], seen[key])
			}
			if s.err == nil && seen[key] != 1 {
				return false, fmt.Sprintf("%s message %q: the send succeeded but it was delivered %d times", what, s.tok[:6], seen[key])
			}
			if seen[key] == 1 {
				order = append(order, key)
			}
			delete(seen, key)
		}
		for k, n := range seen {
			if !strings.Contains(k, "probe") {
				return false, fmt.Sprintf("%s: a message that was never sent (or an altered one) was delivered %d time(s): %.40s", what, n, k)
			}
		}
		j := 0
		for _, g := range got {
			if j < len(order) && g == order[j] {
				j++
			}
		}
		if j != len(order) {
			return false, fmt.Sprintf("%s: deliveries are not in send order: %v", what, shorten(got))
		}
		return true, ""
	}
	deadline := time.Now().Add(3 * time.Second)
	for {
		ok1, r1 := check("host->equipment", hs, atEquip, 1)
		ok2, r2 := check("equipment->host", es, atHost, 3)
		if ok1 && ok2 {
			break
		}
		permanent := strings.Contains(r1+r2, "times") && !strings.Contains(r1+r2, "delivered 0 times") || strings.Contains(r1+r2, "never sent") || strings.Contains(r1+r2, "send order")
		if permanent || time.Now().After(deadline) {
			fail("%s %s", r1, r2)
		}
		time.Sleep(10 * time.Millisecond)
	}
	box.mu.Lock()
	maxE, maxH, yields := box.maxTx["e2h"], box.maxTx["h2e"], box.hostYields
	hit := 0
	for _, f := range faults {
		if f.used {
			hit++
		}
	}
	box.enabled = false
	box.mu.Unlock()
	if maxE > rty+1 {
		fail("the equipment transmitted one block %d times on one line generation, retry limit is %d", maxE, rty)
	}
	if maxH > rty+1 {
		fail("the host transmitted one block %d times without an intervening contention yield, retry limit is %d", maxH, rty)
	}
	// after any failure the link comes back and works (faults are off now)
	if !waitState(eq, hsms.SelectedState, 5*time.Second) || !waitState(ho, hsms.SelectedState, 5*time.Second) {
		fail("the line was not re-established (equipment %v, host %v)", eq.State(), ho.State())
	}
	probeOK := false
	for attempt := 0; attempt < 5 && !probeOK; attempt++ {
		ctx, cancel := ctxT(5 * time.Second)
		_, e1 := ho.SendDataMessage(ctx, 1, 1, false, secs2.A(fmt.Sprintf("probe-h%d", attempt)))
		_, e2 := eq.SendDataMessage(ctx, 1, 3, false, secs2.A(fmt.Sprintf("probe-e%d", attempt)))
		cancel()
		probeOK = e1 == nil && e2 == nil
		if !probeOK {
			time.Sleep(100 * time.Millisecond)
			waitState(eq, hsms.SelectedState, 3*time.Second)
			waitState(ho, hsms.SelectedState, 3*time.Second)
		}
	}
	if !probeOK {
		fail("after the faults stopped no message goes through any more")
	}
	failed := 0
	for _, s := range append(append([]sent(nil), hs...), es...) {
		if s.err != nil {
			failed++
		}
	}
	cls := []string{fmt.Sprintf("c18:rty:%d", rty), fmt.Sprintf("c18:faults-hit:%d", hit)}
	for _, f := range faults {
		if f.used {
			cls = append(cls, "c18:fault:"+f.class+":"+f.kind)
		}
	}
	if yields > 0 {
		cls = append(cls, "c18:contention")
	}
	if failed > 0 {
		cls = append(cls, "c18:send-failed")
	}
	var fs []string
	for _, x := range faults {
		fs = append(fs, x.String())
	}
	box.mu.Lock()
	lg := append([]string(nil), box.log...)
	box.mu.Unlock()
	if len(lg) > 60 {
		lg = lg[:60]
	}
	ev.Case(hit > 0 || yields > 0, fmt.Sprint(rty, fs, hb, eb, stagger), func() any {
		return map[string]any{"retryLimit": rty, "faults": fs, "hostBlocks": hb, "equipBlocks": eb, "elapsed": elapsed.String(), "failedSends": failed, "yields": yields, "line": lg}
	}, cls...)
}

func shorten(xs []string) []string {
	out := make([]string, len(xs))
	for i, x := range xs {
		if len(x) > 12 {
			x = x[:12]
		}
		out[i] = x
	}
	return out
}
