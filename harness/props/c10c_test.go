package props

// C10 on SECS-I (virtual time): "a closed connection can be opened again and behaves like a fresh
// one" - nothing the receive side remembered on one line generation (the last accepted block for
// duplicate detection, a half-assembled message) may act on the next.

import (
	"context"
	"fmt"
	"strings"
	"testing"
	"testing/synctest"
	"time"

	"github.com/arloliu/go-secs/v2/hsms"
	"github.com/arloliu/go-secs/v2/secs1"
	"github.com/arloliu/go-secs/v2/secs2"
	"pgregory.net/rapid"
	"verif/harness/ev"
	"verif/harness/netsim"
	"verif/harness/ref/e4"
	"verif/harness/vt"
)

func TestC10Secs1Fresh(t *testing.T) {
	ev.Rule("a secs1 connection (host/equipment x active/passive) against the reference E4 line peer, 2-4 line generations separated by Close + re-Open or by a peer drop + automatic reconnect; on every generation the peer (a restarted peer that always starts the same way) sends the SAME single-block primary with the same header, optionally leaves the first block(s) of a multi-block message unfinished before the generation ends, and the library sends one message. Oracle: on every generation the repeated primary is acknowledged AND delivered (a fresh connection has no 'last accepted block'), a continuation block of a message begun on the previous generation does not complete a message, a complete multi-block message sent afterwards is delivered intact, the outbound message arrives block for block; after each Close: State() NotConnected, every socket/listener handed to the library closed; non-trivial = a generation ended with a half-received message or the same primary was repeated after a Close")
	vt.Bubble(t, func(t *testing.T) {
		vt.CheckBubble(t, 1500, 60000, func(rt *rapid.T) {
			active, equip := rapid.Bool().Draw(rt, "active"), rapid.Bool().Draw(rt, "equip")
			const T1, T2, T4 = 50 * time.Millisecond, 150 * time.Millisecond, 400 * time.Millisecond
			w, err := newS1World(s1Opt{active: active, equip: equip, device: 10, opts: []secs1.Option{secs1.WithT1(T1), secs1.WithT2(T2), secs1.WithT4(T4), secs1.WithRetryLimit(1),
				secs1.WithConnectionOption(hsms.WithT3(time.Second)), secs1.WithConnectionOption(hsms.WithT5(30 * time.Millisecond)),
				secs1.WithConnectionOption(hsms.WithReconnectBackoff(10*time.Millisecond, 2)), secs1.WithConnectionOption(hsms.WithCloseTimeout(2 * time.Second))}})
			if err != nil {
				rt.Fatalf("VERIF-INFRA: %v", err)
			}
			dl := &s1Deliveries{}
			w.conn.AddDataMessageHandler(dl.handler)
			var conns []*netsim.Conn
			var hist []string
			var p *e4.Peer
			defer func() {
				_ = w.conn.Close()
				for _, c := range conns {
					_ = c.Close()
				}
				if w.ln != nil {
					_ = w.ln.Close()
				}
				synctest.Wait()
			}()
			fail := func(f string, a ...any) {
				tr := ""
				if p != nil {
					t := p.Trace
					if len(t) > 50 {
						t = t[len(t)-50:]
					}
					tr = strings.Join(t, "\n  ")
				}
				rt.Fatalf("C10 violated (secs1 active=%v equip=%v): %s\nhistory:\n  %s\nline (tail):\n  %s", active, equip, fmt.Sprintf(f, a...), strings.Join(hist, "\n  "), tr)
			}
			openIt := func() {
				if active {
					_ = w.listen()
				}
				if err := w.conn.Open(context.Background(), hsms.OpenBackground); err != nil {
					fail("Open: %v", err)
				}
			}
			connect := func() {
				synctest.Wait()
				if active {
					_ = w.listen()
				}
				c, err := w.lineUp(10 * time.Second)
				if err != nil {
					fail("the line was not (re-)established: %v", err)
				}
				conns = append(conns, c)
				p = &e4.Peer{C: c, IsMaster: !equip, T1: T1, T2: T2}
				if !waitState(w.conn, hsms.SelectedState, time.Second) {
					fail("never Selected on a live line")
				}
				if active && w.ln != nil {
					_ = w.ln.Close()
				}
			}
			// what the restarted peer always says first: the same header every time
			greeting := e4.Split(e4.Message{Device: 10, R: !equip, Stream: 1, Function: 13, W: false, Sys: 0x00000001, Body: []byte{0x41, 0x02, 'h', 'i'}})[0]
			long := func(sys uint32) []e4.Block {
				body := make([]byte, 2*244+17)
				for i := range body {
					body[i] = byte(i) ^ byte(sys)
				}
				return e4.Split(e4.Message{Device: 10, R: !equip, Stream: 7, Function: 3, Sys: sys, Body: body})
			}
			openIt()
			gens := rapid.IntRange(2, 4).Draw(rt, "generations")
			nontrivial := false
			var pendingTail []e4.Block // continuation of a message begun on the previous generation
			var resend []e4.Block      // that message, to be re-sent from its first block on the next generation
			for g := 0; g < gens; g++ {
				connect()
				delivered := len(dl.snapshot())
				// (0) a peer that re-sends, from its first block, the message it could not finish on the
				// previous generation: its first block has the SAME header as the last block accepted there
				if len(resend) > 0 {
					for _, b := range resend {
						if r := p.SendRaw(b.Bytes(), nil); r.Err != nil || r.Resp != e4.ACK {
							fail("generation %d: block %d of a message re-sent from its first block was not acknowledged: %+v", g+1, b.Number, r)
						}
					}
					synctest.Wait()
					if n := len(dl.snapshot()); n != delivered+1 {
						fail("generation %d: a message re-sent from its first block (whose header equals the last block accepted on the previous generation) produced %d deliveries, want 1", g+1, n-delivered)
					}
					delivered++
					resend, pendingTail = nil, nil
				}
				// (1) a continuation block of the previous generation's unfinished message: not a message
				if len(pendingTail) > 0 {
					r := p.SendRaw(pendingTail[len(pendingTail)-1].Bytes(), nil)
					if r.Err != nil {
						fail("generation %d: line error on a stale continuation block: %v", g+1, r.Err)
					}
					synctest.Wait()
					if n := len(dl.snapshot()); n != delivered {
						fail("generation %d: the LAST block of a message begun on the previous generation completed a message (%d deliveries)", g+1, n-delivered)
					}
					pendingTail = nil
				}
				// (2) the greeting: same header as on every earlier generation
				r := p.SendRaw(greeting.Bytes(), nil)
				if r.Err != nil || r.Resp != e4.ACK {
					fail("generation %d: the peer's first primary was not acknowledged: %+v", g+1, r)
				}
				synctest.Wait()
				if n := len(dl.snapshot()); n != delivered+1 {
					fail("generation %d: the peer's first primary (same header as on the previous generation) was acknowledged but not delivered: a new generation must not remember the last block of the old one", g+1)
				}
				delivered++
				if g > 0 {
					nontrivial = true
				}
				// (3) a complete multi-block message
				for _, b := range long(0x100 + uint32(g)) {
					if r := p.SendRaw(b.Bytes(), nil); r.Err != nil || r.Resp != e4.ACK {
						fail("generation %d: block %d of a fresh 3-block message was not acknowledged: %+v", g+1, b.Number, r)
					}
				}
				synctest.Wait()
				if n := len(dl.snapshot()); n != delivered+1 {
					fail("generation %d: a complete 3-block message produced %d deliveries", g+1, n-delivered)
				}
				delivered++
				// (4) outbound
				errCh := make(chan error, 1)
				go func() {
					ctx, cancel := ctxT(5 * time.Second)
					defer cancel()
					_, e := w.conn.SendDataMessage(ctx, 2, 1, false, secs2.A(fmt.Sprintf("gen%d", g)))
					errCh <- e
				}()
				blocks, rerr := p.ReceiveMessage(time.Second)
				if e := <-errCh; e != nil || rerr != nil || len(blocks) != 1 {
					fail("generation %d: the outbound message failed: %v / %v", g+1, e, rerr)
				}
				// (5) optionally leave a message half-received, then end the generation
				if rapid.Bool().Draw(rt, "leavePartial") {
					bl := long(0x200 + uint32(g))
					k := rapid.IntRange(1, 2).Draw(rt, "partialBlocks")
					for _, b := range bl[:k] {
						if r := p.SendRaw(b.Bytes(), nil); r.Err != nil || r.Resp != e4.ACK {
							fail("generation %d: partial block not acknowledged: %+v", g+1, r)
						}
					}
					pendingTail = bl[k:]
					if k == 1 && rapid.Bool().Draw(rt, "resendFromStart") {
						resend = bl
					}
					nontrivial = true
				} else if rapid.Bool().Draw(rt, "greetingLast") {
					// the generation ends right after the greeting: it is the last block accepted, and the
					// restarted peer's first block on the next generation
					if r := p.SendRaw(greeting.Bytes(), nil); r.Err != nil {
						fail("generation %d: line error: %v", g+1, r.Err)
					}
					synctest.Wait()
				}
				how := rapid.SampledFrom([]string{"close-reopen", "close-reopen", "peer-drop"}).Draw(rt, "end")
				hist = append(hist, fmt.Sprintf("generation %d ok; partial left: %v; ended by %s", g+1, pendingTail != nil, how))
				if g == gens-1 {
					break
				}
				if how == "close-reopen" {
					if err := w.conn.Close(); err != nil {
						fail("Close: %v", err)
					}
					synctest.Wait()
					if got := w.conn.State(); got != hsms.NotConnectedState {
						fail("State()=%v after Close", got)
					}
					if l := w.leaked(); len(l) > 0 {
						fail("left open after Close: %v", l)
					}
					_ = p.C.Close()
					openIt()
				} else {
					_ = p.C.Close()
				}
			}
			role := "host"
			if equip {
				role = "equipment"
			}
			ev.Case(nontrivial, strings.Join(hist, "|")+fmt.Sprint(active, equip), func() any { return hist }, "c10c:role:"+role)
		})
	})
}
