package props

import (
	"fmt"
	"math"
	"strings"
	"sync"
	"testing"

	"github.com/arloliu/go-secs/v2/hsms"
	"github.com/arloliu/go-secs/v2/secs2"
	"github.com/arloliu/go-secs/v2/sml"
	"pgregory.net/rapid"
	"verif/harness/ev"
	"verif/harness/gen"
	"verif/harness/obs"
	"verif/harness/ref/e5"
	"verif/harness/vt"
)

// sameSML is logical equality for SML round trips: NaN payload bits and the localized-string
// header are not carried by the text.
func sameSML(a, b e5.Value) bool {
	if a.FC != b.FC {
		return false
	}
	if a.FC == e5.List {
		if len(a.List) != len(b.List) {
			return false
		}
		for i := range a.List {
			if !sameSML(a.List[i], b.List[i]) {
				return false
			}
		}
		return true
	}
	if a.FC == e5.Local {
		return string(a.Bytes) == string(b.Bytes)
	}
	return e5.Same(a, b)
}

func drawEncoderOpts(rt *rapid.T) ([]sml.EncoderOption, string) {
	aq := rapid.SampledFrom([]sml.QuoteStyle{sml.QuoteDouble, sml.QuoteSingle, sml.QuoteNone}).Draw(rt, "asciiquote")
	sf := rapid.SampledFrom([]sml.QuoteStyle{sml.QuoteNone, sml.QuoteSingle, sml.QuoteDouble}).Draw(rt, "sfquote")
	bs := rapid.SampledFrom([]sml.BinaryStyle{sml.BinaryHex, sml.BinaryLiteral}).Draw(rt, "binstyle")
	n := rapid.IntRange(0, 8).Draw(rt, "indentlen")
	var ind strings.Builder
	for i := 0; i < n; i++ {
		ind.WriteString(rapid.SampledFrom([]string{" ", " ", " ", "\t", "\t", "\n", "\r"}).Draw(rt, "indentch"))
	}
	desc := fmt.Sprintf("asciiQuote=%d sfQuote=%d binary=%d indent=%q", aq, sf, bs, ind.String())
	return []sml.EncoderOption{sml.WithEncoderStrictMode(true), sml.WithASCIIQuote(aq), sml.WithSFQuote(sf), sml.WithBinaryStyle(bs), sml.WithIndent(ind.String())}, desc
}

func asciiSpecial(v e5.Value) bool {
	if v.FC == e5.ASCII {
		for _, c := range v.Bytes {
			if c == '"' || c == '\'' || c == '\\' || c == '>' || c == '<' || c < 0x20 || c >= 0x7f {
				return true
			}
		}
	}
	for _, c := range v.List {
		if asciiSpecial(c) {
			return true
		}
	}
	return false
}

func hasGT(v e5.Value) bool {
	if v.FC == e5.ASCII && strings.ContainsRune(string(v.Bytes), '>') {
		return true
	}
	for _, c := range v.List {
		if hasGT(c) {
			return true
		}
	}
	return false
}

func drawMessage(rt *rapid.T, budget int, excludeGT bool) (stream, function int, w bool, body e5.Value) {
	stream = rapid.SampledFrom([]int{0, 1, 2, 5, 6, 9, 10, 64, 99, 126, 127}).Draw(rt, "stream")
	function = rapid.SampledFrom([]int{0, 1, 2, 3, 9, 10, 11, 99, 100, 127, 128, 129, 254, 255}).Draw(rt, "function")
	w = function%2 == 1 && rapid.Bool().Draw(rt, "wbit")
	if rapid.IntRange(0, 19).Draw(rt, "emptybody") == 0 {
		return stream, function, w, e5.Value{FC: e5.Empty}
	}
	body = gen.Value(rt, gen.Opts{MaxDepth: 8, Budget: budget, Codes: gen.SMLCodes, NoBigCounts: true, Text: gen.SMLText(excludeGT)})
	return
}

func msgValue(m *hsms.DataMessage) (e5.Value, error) {
	it, err := m.Item()
	if err != nil {
		return e5.Value{}, err
	}
	return obs.Value(it, obs.ViaTo)
}

var (
	c13mu       sync.Mutex
	c13Encoders = map[string]*sml.Encoder{}
	c13Parser   *sml.Parser
)

// TestC13EncodeParse: strict encode -> strict parse is the identity on messages.
func TestC13EncodeParse(t *testing.T) {
	ev.Rule("messages (stream 0-127, any function, W only on odd functions) with bodies over lists, ASCII with all 256 byte values, binary, boolean, every integer and float width incl. NaN/Inf/-0/extremes, JIS-8 and localized text free of quotes/backslash/angle brackets/control characters, nesting <= 8, empty items and empty body x ASCII quote style x S/F quote style x binary style x whitespace indent of length 0-8. Oracle: ParseStrict(EncodeMessage_strict(m)) is exactly one message with the same stream/function/W and an equal body (NaN payload and localized header aside). Non-trivial: body has an ASCII item with a quote, backslash, angle bracket, control or 8-bit byte, or a float extreme, or depth >= 2; distinct by body encoding + options.")
	excl := vt.Known("F2")
	vt.Check(t, 20000, 500000, func(rt *rapid.T) {
		stream, function, w, v := drawMessage(rt, 4<<10, excl)
		if excl {
			ev.Count("excluded_known_F2_gt_in_ascii", 1)
		}
		opts, odesc := drawEncoderOpts(rt)
		it := gen.Build(rt, v, nil)
		m, err := hsms.NewDataMessage(uint8(stream), uint8(function), w, uint16(rapid.IntRange(0, 65535).Draw(rt, "session")), [4]byte{1, 2, 3, 4}, it)
		if err != nil {
			rt.Fatalf("harness: NewDataMessage(S%dF%d w=%v): %v", stream, function, w, err)
		}
		classes := []string{"c13enc"}
		special := asciiSpecial(v)
		if special {
			classes = append(classes, "ascii-special")
		}
		if hasGT(v) {
			classes = append(classes, "ascii-gt")
		}
		if extremeNumeric(v) {
			classes = append(classes, "float-extreme")
		}
		if v.FC == e5.Empty {
			classes = append(classes, "empty-body")
		}
		text, err := sml.NewEncoder(opts...).EncodeMessage(m)
		// a long-lived encoder with the same options (it has encoded every earlier message of this
		// process drawn with them) and a long-lived strict parser must agree with fresh ones
		var ltext string
		var lerr error
		func() {
			c13mu.Lock()
			defer c13mu.Unlock()
			le := c13Encoders[odesc]
			if le == nil {
				le = sml.NewEncoder(opts...)
				c13Encoders[odesc] = le
			}
			ltext, lerr = le.EncodeMessage(m)
		}()
		if ltext != text || (lerr == nil) != (err == nil) {
			rt.Fatalf("C13 violated: a long-lived Encoder (%s) and a fresh one render S%dF%d %s differently\n long-lived: %q (%v)\n fresh:      %q (%v)", odesc, stream, function, v, trunc200(ltext), lerr, trunc200(text), err)
		}
		ev.Case(special || extremeNumeric(v) || v.Depth() >= 2, fmt.Sprintf("%x|%s|%d|%d|%v", e5.Encode(v), odesc, stream, function, w), func() any {
			return map[string]any{"message": fmt.Sprintf("S%dF%d W=%v %s", stream, function, w, v), "options": odesc, "text": trunc200(text)}
		}, classes...)
		if err != nil {
			rt.Fatalf("C13 violated: strict EncodeMessage failed for S%dF%d %s: %v", stream, function, v, err)
		}
		msgs, err := sml.ParseStrict(text)
		if err != nil {
			rt.Fatalf("C13 violated: strict parser rejects the strict encoder's output (%s)\n message: S%dF%d W=%v %s\n text: %q\n error: %v", odesc, stream, function, w, v, trunc200(text), err)
		}
		if len(msgs) != 1 {
			rt.Fatalf("C13 violated: %d messages parsed from one encoded message (%s): %q", len(msgs), odesc, trunc200(text))
		}
		p := msgs[0]
		if int(p.Stream()) != stream || int(p.Function()) != function || p.WaitBit() != w {
			rt.Fatalf("C13 violated: header S%dF%d W=%v parsed back as S%dF%d W=%v (%s): %q", stream, function, w, p.Stream(), p.Function(), p.WaitBit(), odesc, trunc200(text))
		}
		pv, err := msgValue(p)
		if err != nil {
			rt.Fatalf("C13 violated: parsed body unreadable: %v", err)
		}
		if !sameSML(pv, v) {
			rt.Fatalf("C13 violated (%s): body %s parsed back as %s\n text: %q", odesc, v, pv, trunc200(text))
		}
		// the same through a reusable Parser and ParseMessage
		cut := 0
		if len(text) > 2 && rapid.IntRange(0, 2).Draw(rt, "rejectedTextFirst") == 0 {
			// the reusable parser is first given a damaged text (this one cut short at a drawn offset, a
			// quote or a digit possibly left open) and rejects or accepts it; nothing of that may show
			// in the next parse
			cut = rapid.IntRange(1, len(text)-1).Draw(rt, "cut")
		}
		var lpm *hsms.DataMessage
		var lperr error
		func() {
			c13mu.Lock()
			defer c13mu.Unlock()
			if c13Parser == nil {
				c13Parser = sml.NewParser(sml.WithParserStrictMode(true))
			}
			if cut > 0 {
				if _, e := c13Parser.ParseMessage(text[:cut]); e != nil {
					ev.Count("long_lived_parser_rejected_a_damaged_text_first", 1)
				}
			}
			lpm, lperr = c13Parser.ParseMessage(text)
		}()
		if lperr != nil {
			rt.Fatalf("C13 violated: a long-lived strict Parser rejects what ParseStrict accepts: %v\n text: %q", lperr, trunc200(text))
		}
		if lv, err := msgValue(lpm); err != nil || !sameSML(lv, v) {
			rt.Fatalf("C13 violated: a long-lived strict Parser read the body as %s (err %v), want %s", lv, err, v)
		}
		pm, err := sml.NewParser(sml.WithParserStrictMode(true)).ParseMessage(text)
		if err != nil {
			rt.Fatalf("C13 violated: Parser.ParseMessage rejects what ParseStrict accepts: %v", err)
		}
		if pmv, err := msgValue(pm); err != nil || !sameSML(pmv, v) {
			rt.Fatalf("C13 violated: Parser.ParseMessage body %s (err %v), want %s", pmv, err, v)
		}
		if !hasNaN(v) && !hasLocal(v) {
			pit, _ := p.Item()
			if !secs2.Equal(pit, it) {
				rt.Fatalf("C13 violated: secs2.Equal(parsed, original) is false for %s", v)
			}
		}
	})
}

func hasLocal(v e5.Value) bool {
	if v.FC == e5.Local {
		return true
	}
	for _, c := range v.List {
		if hasLocal(c) {
			return true
		}
	}
	return false
}

// textRestricted reports whether JIS-8 / localized text in v stays inside the property's grammar.
func textRestricted(v e5.Value) bool {
	if v.FC == e5.JIS8 || v.FC == e5.Local {
		for _, c := range v.Bytes {
			if c == '"' || c == '\'' || c == '\\' || c == '<' || c == '>' || c < 0x20 || c == 0x7f {
				return false
			}
		}
	}
	for _, c := range v.List {
		if !textRestricted(c) {
			return false
		}
	}
	return true
}

// TestC13ParseEncode: every accepted text re-encodes and re-parses to an equal message.
func TestC13ParseEncode(t *testing.T) {
	ev.Rule("texts written by an independent SML writer from generated messages with drawn stylistic variation (comments, blank lines, CRLF, message names, quoted SxFy, lower-case type names, size hints absent / [n] / [a..b] / [..b], hex/octal/binary/decimal numbers, T/F booleans, ASCII as arbitrary mixes of quoted runs, escapes and numeric tokens, 1-3 messages per text); kept when ParseStrict accepts. Oracle: for each parsed message m, ParseStrict(EncodeMessage_strict(m)) is one message Equal to m; accepted texts must also carry the values they were written from. Non-trivial: loose style or comments used and body non-empty; distinct by text.")
	excl := vt.Known("F2")
	vt.Check(t, 15000, 400000, func(rt *rapid.T) {
		nmsg := rapid.SampledFrom([]int{1, 1, 1, 2, 3}).Draw(rt, "nmsg")
		loose := rapid.IntRange(0, 3).Draw(rt, "loose") > 0
		comments := rapid.Bool().Draw(rt, "comments")
		style := gen.NewSMLStyle(rt, loose, comments, rapid.Bool().Draw(rt, "nogt") || excl)
		type want struct {
			s, f int
			w    bool
			v    e5.Value
		}
		var wants []want
		var sb strings.Builder
		for i := 0; i < nmsg; i++ {
			s, f, w, v := drawMessage(rt, 2<<10, false)
			wants = append(wants, want{s, f, w, v})
			sb.WriteString(style.Message(s, f, w, v))
			sb.WriteString(rapid.SampledFrom([]string{"\n", "\n\n", " \n", "\r\n"}).Draw(rt, "msgsep"))
		}
		text := sb.String()
		msgs, err := sml.ParseStrict(text)
		accepted := err == nil
		classes := []string{"c13parse"}
		if accepted {
			classes = append(classes, "accepted")
		} else {
			classes = append(classes, "rejected")
		}
		if loose {
			classes = append(classes, "loose")
		}
		if comments {
			classes = append(classes, "comments")
		}
		if nmsg > 1 {
			classes = append(classes, "multi")
		}
		ev.Case(accepted && (loose || comments), text, func() any { return map[string]any{"text": trunc200(text), "accepted": accepted} }, classes...)
		if !accepted {
			return // the property speaks about accepted texts only
		}
		// Informational only (the property speaks about re-encoding what was parsed, not about
		// what an accepted text means): count accepted texts whose parse differs from what the
		// writer intended.
		if len(msgs) == len(wants) {
			for i, m := range msgs {
				pv, perr := msgValue(m)
				wv := wants[i]
				if perr != nil || int(m.Stream()) != wv.s || int(m.Function()) != wv.f || m.WaitBit() != wv.w || !sameSML(pv, wv.v) {
					ev.Count("info_accepted_text_read_differently", 1)
				}
			}
		} else {
			ev.Count("info_accepted_text_message_count_differs", 1)
		}
		enc := sml.NewEncoder(sml.WithEncoderStrictMode(true))
		for i, m := range msgs {
			mv, _ := msgValue(m)
			if !textRestricted(mv) {
				ev.Count("outside_domain_text", 1)
				continue
			}
			if excl && hasGT(mv) {
				ev.Count("excluded_known_F2_gt_in_ascii", 1)
				continue
			}
			t2, err := enc.EncodeMessage(m)
			if err != nil {
				rt.Fatalf("C13 violated: re-encoding parsed message %d failed: %v", i, err)
			}
			m2s, err := sml.ParseStrict(t2)
			if err != nil || len(m2s) != 1 {
				rt.Fatalf("C13 violated: re-encoded text of parsed message %d (%s) does not re-parse: %v (%d msgs)\n re-encoded: %q", i, mv, err, len(m2s), trunc200(t2))
			}
			m2v, _ := msgValue(m2s[0])
			if m2s[0].Stream() != m.Stream() || m2s[0].Function() != m.Function() || m2s[0].WaitBit() != m.WaitBit() || !sameSML(m2v, mv) {
				rt.Fatalf("C13 violated: parse-encode-parse changed message %d: %s -> %s\n re-encoded: %q", i, mv, m2v, trunc200(t2))
			}
			if !hasNaN(mv) && !m.Equal(m2s[0]) {
				rt.Fatalf("C13 violated: DataMessage.Equal(parsed, reparsed) false for %s", mv)
			}
		}
	})
}

var _ = math.NaN
