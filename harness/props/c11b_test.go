package props

// C11 on the SECS-I transport (virtual time): after the line is lost the connection re-dials
// (re-listens) on the configured backoff schedule and comes back to a working Selected session.

import (
	"context"
	"fmt"
	"strings"
	"testing"
	"testing/synctest"
	"time"

	"github.com/arloliu/go-secs/v2/hsms"
	"github.com/arloliu/go-secs/v2/secs1"
	"github.com/arloliu/go-secs/v2/secs2"
	"pgregory.net/rapid"
	"verif/harness/ev"
	"verif/harness/netsim"
	"verif/harness/ref/e4"
	"verif/harness/ref/fsm"
	"verif/harness/vt"
)

func TestC11Secs1(t *testing.T) {
	ev.Rule("a secs1 connection (host/equipment x active/passive; backoff initial 5/20/100 ms, multiplier 1/1.5/2/3, T5 50/150/1000 ms; retry limit 0-2) against the reference E4 line peer; the first or second line generation is ended by: peer close / reset while idle, peer close after the library's ENQ, a peer that stops answering (retry limit exhausted: the send fails and the library itself drops the line), a peer that leaves a block unacknowledged; then 0-5 refused dials / failed listens; active: 0-3 refused dials before the very first connection. Oracle (virtual time): every gap between attempts equals ref/fsm.Backoff exactly, counted from the instant the library closed its end of the lost line (positive, non-decreasing, <= T5); the line comes back, reports Selected, a send is delivered block for block and an inbound message is delivered; Reconnects() grows by exactly one per successful re-dial (active) and stays 0 over a cold start; nothing is dialled or listened after Close; non-trivial = at least 2 refusals, or the line was lost with a send in flight")
	vt.Bubble(t, func(t *testing.T) {
		vt.CheckBubble(t, 3000, 150000, func(rt *rapid.T) { runC11Secs1(rt) })
	})
}

func runC11Secs1(rt *rapid.T) {
	active, equip := rapid.Bool().Draw(rt, "active"), rapid.Bool().Draw(rt, "equip")
	const T1, T2 = 50 * time.Millisecond, 150 * time.Millisecond
	rty := rapid.IntRange(0, 2).Draw(rt, "retryLimit")
	fault := rapid.SampledFrom([]string{"peer-close-idle", "peer-reset-idle", "peer-close-after-enq", "retry-exhausted", "no-ack"}).Draw(rt, "fault")
	refusals := rapid.SampledFrom([]int{0, 0, 1, 2, 3, 5}).Draw(rt, "refusals")
	initial := time.Duration(rapid.SampledFrom([]int{5, 20, 100}).Draw(rt, "initialMs")) * time.Millisecond
	mult := rapid.SampledFrom([]float64{1, 1.5, 2, 3}).Draw(rt, "mult")
	t5 := time.Duration(rapid.SampledFrom([]int{50, 150, 1000}).Draw(rt, "t5Ms")) * time.Millisecond
	atFirst := rapid.Bool().Draw(rt, "atFirst")
	cold := 0
	if active {
		cold = rapid.SampledFrom([]int{0, 0, 1, 3}).Draw(rt, "cold")
	}
	w, err := newS1World(s1Opt{active: active, equip: equip, device: 11, opts: []secs1.Option{secs1.WithT1(T1), secs1.WithT2(T2), secs1.WithT4(time.Second), secs1.WithRetryLimit(rty),
		secs1.WithConnectionOption(hsms.WithT3(2 * time.Second)), secs1.WithConnectionOption(hsms.WithT5(t5)), secs1.WithConnectionOption(hsms.WithReconnectBackoff(initial, mult)),
		secs1.WithConnectionOption(hsms.WithCloseTimeout(2 * time.Second))}})
	if err != nil {
		rt.Fatalf("VERIF-INFRA: %v", err)
	}
	dl := &s1Deliveries{}
	w.conn.AddDataMessageHandler(dl.handler)
	var conns []*netsim.Conn
	var hist []string
	t0 := time.Now()
	logf := func(f string, a ...any) {
		hist = append(hist, fmt.Sprintf("+%v ", time.Since(t0))+fmt.Sprintf(f, a...))
	}
	defer func() {
		_ = w.conn.Close()
		for _, c := range conns {
			_ = c.Close()
		}
		if w.ln != nil {
			_ = w.ln.Close()
		}
		synctest.Wait()
	}()
	var lastPeer *e4.Peer
	fail := func(f string, a ...any) {
		var evs []string
		for _, e := range w.nw.Events() {
			evs = append(evs, fmt.Sprintf("+%v %s", e.At.Sub(t0), e.Kind))
		}
		tr := ""
		if lastPeer != nil {
			tr = strings.Join(lastPeer.Trace, "\n  ")
		}
		rt.Fatalf("C11 violated (secs1 active=%v equip=%v fault=%s refusals=%d cold=%d backoff %v x%v T5 %v retry limit %d): %s\nhistory:\n  %s\ndial/listen log:\n  %s\nlast line:\n  %s",
			active, equip, fault, refusals, cold, initial, mult, t5, rty, fmt.Sprintf(f, a...), strings.Join(hist, "\n  "), strings.Join(evs, "\n  "), tr)
	}
	checkGaps := func(what string, prev time.Time, tries []time.Time) {
		delay := initial
		prevGap := time.Duration(0)
		for i, at := range tries {
			want := min(delay, t5)
			gap := at.Sub(prev)
			if gap != want {
				fail("%s: attempt %d came %v after the previous failure, the backoff prescribes %v", what, i, gap, want)
			}
			if gap < prevGap || gap > t5 || gap <= 0 {
				fail("%s: backoff gap %v after %v: must be positive, non-decreasing and <= T5", what, gap, prevGap)
			}
			prevGap, prev = gap, at
			delay, _ = fsm.Backoff(delay, mult, t5)
		}
	}
	tries := func(from int) []time.Time {
		var out []time.Time
		for _, e := range w.nw.Events()[from:] {
			if active && e.Kind == "dial" || !active && (e.Kind == "listen" || e.Kind == "listen-fail") {
				out = append(out, e.At)
			}
		}
		return out
	}
	if cold > 0 {
		w.nw.RefuseNextDials(cold)
	}
	if err := w.conn.Open(context.Background(), hsms.OpenBackground); err != nil {
		rt.Fatalf("VERIF-INFRA: open: %v", err)
	}
	up := func() *e4.Peer {
		synctest.Wait()
		c, err := w.lineUp(20 * time.Second)
		if err != nil {
			fail("the line was not (re-)established: %v", err)
		}
		conns = append(conns, c)
		p := &e4.Peer{C: c, IsMaster: !equip, T1: T1, T2: T2}
		lastPeer = p
		if !waitState(w.conn, hsms.SelectedState, time.Second) {
			fail("the connection never reported Selected on a live line")
		}
		return p
	}
	tok := 0
	roundTrip := func(p *e4.Peer, what string) {
		id := tok
		tok++
		errCh := make(chan error, 1)
		go func() {
			ctx, cancel := ctxT(5 * time.Second)
			defer cancel()
			_, e := w.conn.SendDataMessage(ctx, 1, 1, false, secs2.A(fmt.Sprintf("t%d", id)))
			errCh <- e
		}()
		blocks, rerr := p.ReceiveMessage(time.Second)
		if e := <-errCh; e != nil || rerr != nil || len(blocks) != 1 {
			fail("%s: a send on the live line failed: %v / %v", what, e, rerr)
		}
		before := len(dl.snapshot())
		in := e4.Split(e4.Message{Device: 11, R: !equip, Stream: 2, Function: 1, Sys: 0x22000000 + uint32(id), Body: []byte{0x21, 0x01, byte(id)}})[0]
		if res := p.SendRaw(in.Bytes(), nil); res.Err != nil || res.Resp != e4.ACK {
			fail("%s: an inbound block was not acknowledged: %+v", what, res)
		}
		synctest.Wait()
		if len(dl.snapshot()) != before+1 {
			fail("%s: an inbound message was not delivered", what)
		}
	}
	p := up()
	if active {
		// cold start: same schedule, never a reconnect
		d := tries(0)
		if len(d) != cold+1 {
			fail("cold start: %d dials for %d refusals + 1 success", len(d), cold)
		}
		checkGaps("cold start", d[0], d[1:])
		if n := w.conn.Metrics().Reconnects(); n != 0 {
			fail("Reconnects()=%d after the very first connect", n)
		}
	}
	roundTrip(p, "first generation")
	if !atFirst {
		_ = p.C.(*netsim.Conn).Close()
		if active {
			_ = w.listen()
		}
		p = up()
		roundTrip(p, "second generation")
	}
	logf("generation to be lost is up")
	reconnectsBefore := w.conn.Metrics().Reconnects()
	// the library's end of the line about to be lost
	w.lmu.Lock()
	libEnd := w.libConns[len(w.libConns)-1]
	w.lmu.Unlock()
	inFlight := false
	pc := p.C.(*netsim.Conn)
	// refuse the next attempts BEFORE the line is lost: the first one may follow at once
	if active {
		_ = w.listen()
		w.nw.RefuseNextDials(refusals)
	} else {
		w.nw.FailNextListens(refusals)
	}
	evIdx := len(w.nw.Events())
	sendErr := make(chan error, 1)
	startSend := func() {
		inFlight = true
		go func() {
			ctx, cancel := ctxT(30 * time.Second)
			defer cancel()
			_, e := w.conn.SendDataMessage(ctx, 1, 3, false, secs2.A("lost"))
			sendErr <- e
		}()
	}
	readENQ := func() {
		b := make([]byte, 1)
		_ = pc.SetReadDeadline(time.Now().Add(time.Second))
		if n, _ := pc.Read(b); n != 1 || b[0] != e4.ENQ {
			fail("expected ENQ from the library, got %v", b[:n])
		}
	}
	switch fault {
	case "peer-close-idle":
		_ = pc.Close()
	case "peer-reset-idle":
		pc.Reset()
		_ = pc.Close()
	case "peer-close-after-enq":
		startSend()
		readENQ()
		_ = pc.Close()
	case "retry-exhausted":
		// the peer never grants the line: (retry limit + 1) ENQs, then the send fails and the library
		// drops the line itself
		startSend()
	case "no-ack":
		startSend()
		readENQ()
		_, _ = pc.Write([]byte{e4.EOT})
	}
	if inFlight {
		select {
		case e := <-sendErr:
			if e == nil {
				fail("the send in flight when the line was lost reported success")
			}
			logf("send in flight ended: %v", e)
		case <-time.After(time.Duration(rty+2)*(T2+T1)*2 + 5*time.Second):
			fail("the send in flight when the line was lost never returned")
		}
	}
	time.Sleep(time.Duration(rty+2) * (T2 + T1) * 2) // retry-exhausted / no-ack: the library gives the line up
	synctest.Wait()
	endAt := libEnd.ClosedAt()
	if endAt.IsZero() {
		fail("the library never closed its end of the lost line")
	}
	logf("line lost (%s); library closed its end at +%v", fault, endAt.Sub(t0))
	_ = pc.Close()
	// recovery
	p = up()
	tr := tries(evIdx)
	if len(tr) != refusals+1 {
		fail("%d reconnect attempts after the loss, expected %d refused + 1 successful", len(tr), refusals)
	}
	checkGaps("recovery", endAt, tr)
	roundTrip(p, "recovered generation")
	if active {
		if d := w.conn.Metrics().Reconnects() - reconnectsBefore; d != 1 {
			fail("Reconnects() grew by %d over one successful re-dial", d)
		}
	}
	if err := w.conn.Close(); err != nil {
		fail("Close: %v", err)
	}
	n := len(w.nw.Events())
	time.Sleep(3*t5 + time.Second)
	synctest.Wait()
	if evs := w.nw.Events(); len(evs) != n {
		fail("a %s happened after Close", evs[n].Kind)
	}
	role := "passive"
	if active {
		role = "active"
	}
	cls := []string{"c11s:fault:" + fault, "c11s:role:" + role, fmt.Sprintf("c11s:refusals:%d", min(refusals, 3))}
	if cold > 0 {
		cls = append(cls, "c11s:cold-start")
	}
	ev.Case(refusals >= 2 || inFlight, fmt.Sprint(active, equip, fault, refusals, cold, initial, mult, t5, rty, atFirst), func() any { return hist }, cls...)
}
