package props

// C10 (virtual time): Close against a peer that has silently stopped reading. Nothing the library
// writes can leave (the peer's window is a few bytes and stays closed), so every write Close or a
// concurrent sender attempts can only end by a deadline. The bound on Close must not depend on the
// configured write timeout (30 s by default): the farewell Separate is a courtesy with its own
// short documented bound (500 ms), the joins are bounded by the close timeout.

import (
	"context"
	"fmt"
	"strings"
	"testing"
	"testing/synctest"
	"time"

	"github.com/arloliu/go-secs/v2/hsms"
	"github.com/arloliu/go-secs/v2/secs2"
	"pgregory.net/rapid"
	"verif/harness/ev"
	"verif/harness/vt"
)

// c10Farewell is the library's documented bound on the courtesy Separate written by Close
// (hsms/connection_lifecycle.go, farewellWriteTimeout).
const c10Farewell = 500 * time.Millisecond

func TestC10StuckPeer(t *testing.T) {
	ev.Rule("HSMS-SS, both roles, virtual time: the link is brought to a drawn state (connected-not-selected / selected), the peer then stops reading with a window of 0-13 bytes; optionally one sender is already blocked in its write; write timeout drawn from {library default 30 s, 5 s, 300 ms}, close timeout from {1 s, 2 s}; then Close. Oracle: Close returns within close timeout + the 500 ms farewell bound (exact virtual time, no slack), a second Close returns at once with the same result, State() is NotConnected, the blocked sender has returned with an error, every socket and listener handed to the library is closed, and nothing is dialled or listened afterwards; non-trivial = the link was Selected (a farewell is attempted) or a sender was blocked")
	vt.Bubble(t, func(t *testing.T) {
		vt.CheckBubble(t, 600, 40000, func(rt *rapid.T) {
			active := rapid.Bool().Draw(rt, "active")
			selected := rapid.Bool().Draw(rt, "selected")
			writer := selected && rapid.Bool().Draw(rt, "writerInFlight")
			window := rapid.SampledFrom([]int{0, 1, 4, 9, 13}).Draw(rt, "window")
			closeTO := time.Duration(rapid.SampledFrom([]int{1000, 2000}).Draw(rt, "closeTimeoutMs")) * time.Millisecond
			wtSel := rapid.SampledFrom([]string{"default", "5s", "300ms"}).Draw(rt, "writeTimeout")
			opts := []hsms.ConnOption{hsms.WithT3(45 * time.Second), hsms.WithT5(100 * time.Millisecond), hsms.WithT6(5 * time.Second), hsms.WithT7(10 * time.Second),
				hsms.WithT8(5 * time.Second), hsms.WithCloseTimeout(closeTO), hsms.WithReconnectBackoff(50*time.Millisecond, 2)}
			switch wtSel {
			case "5s":
				opts = append(opts, hsms.WithWriteTimeout(5*time.Second))
			case "300ms":
				opts = append(opts, hsms.WithWriteTimeout(300*time.Millisecond))
			}
			w, err := newWorld(worldOpt{active: active, connOpts: opts})
			if err != nil {
				rt.Fatalf("VERIF-INFRA: %v", err)
			}
			var hist []string
			t0 := time.Now()
			logf := func(f string, a ...any) {
				hist = append(hist, fmt.Sprintf("+%v ", time.Since(t0))+fmt.Sprintf(f, a...))
			}
			fail := func(f string, a ...any) {
				rt.Fatalf("C10 violated (active=%v selected=%v writer=%v window=%d closeTimeout=%v writeTimeout=%s): %s\nhistory:\n  %s", active, selected, writer, window, closeTO, wtSel,
					fmt.Sprintf(f, a...), strings.Join(hist, "\n  "))
			}
			if err := w.conn.Open(context.Background(), hsms.OpenBackground); err != nil {
				rt.Fatalf("VERIF-INFRA: open: %v", err)
			}
			p, err := w.peerUp(5 * time.Second)
			if err != nil {
				rt.Fatalf("VERIF-INFRA: %v", err)
			}
			defer func() {
				p.Close()
				if w.ln != nil {
					_ = w.ln.Close()
				}
				synctest.Wait()
			}()
			if selected {
				if err := w.selectAsPeer(p, 0x5e1ec7); err != nil {
					rt.Fatalf("VERIF-INFRA: select: %v", err)
				}
			} else if active {
				// the library's own Select.req stays unanswered (T6 is far away)
				synctest.Wait()
			}
			synctest.Wait()
			// the peer stops reading
			p.C.SetInboundWindow(window)
			p.C.StallInbound(true)
			logf("peer stopped reading (window %d)", window)
			sendDone := make(chan error, 1)
			if writer {
				go func() {
					ctx, cancel := ctxT(40 * time.Second)
					defer cancel()
					_, e := w.conn.SendDataMessage(ctx, 1, 1, false, secs2.A("this write cannot leave: the peer's window is closed"))
					sendDone <- e
				}()
				synctest.Wait()
				logf("a sender is blocked in its write")
			}
			ne := len(w.nw.Events())
			st := time.Now()
			err1 := w.conn.Close()
			d1 := time.Since(st)
			st = time.Now()
			err2 := w.conn.Close()
			d2 := time.Since(st)
			logf("Close -> %v after %v; again -> %v after %v", err1, d1, err2, d2)
			if d1 > closeTO+c10Farewell {
				fail("Close took %v against a peer that stopped reading; bound: close timeout %v + farewell %v", d1, closeTO, c10Farewell)
			}
			if d2 != 0 {
				fail("the second Close took %v", d2)
			}
			if fmt.Sprint(err1) != fmt.Sprint(err2) {
				fail("the second Close returned %v, the first %v", err2, err1)
			}
			if err1 != nil {
				fail("Close returned %v although every handler returns", err1)
			}
			if got := w.conn.State(); got != hsms.NotConnectedState {
				fail("State()=%v after Close", got)
			}
			if writer {
				synctest.Wait()
				select {
				case e := <-sendDone:
					if e == nil {
						fail("the blocked send reported success although the peer never read it")
					}
					logf("blocked sender returned: %v", e)
				default:
					fail("the sender blocked in its write has not returned after Close")
				}
			}
			synctest.Wait()
			if l := w.leaked(); len(l) > 0 {
				fail("after Close these resources handed to the library are still open: %v", l)
			}
			time.Sleep(time.Second)
			synctest.Wait()
			if evs := w.nw.Events(); len(evs) != ne {
				fail("a %s happened after Close", evs[ne].Kind)
			}
			cls := []string{"c10b:wt:" + wtSel}
			if selected {
				cls = append(cls, "c10b:selected")
			}
			if writer {
				cls = append(cls, "c10b:writer-in-flight")
			}
			ev.Case(selected || writer, fmt.Sprintf("%v/%v/%v/%d/%v/%s", active, selected, writer, window, closeTO, wtSel), func() any { return hist }, cls...)
		})
	})
}
