package props

import (
	"errors"
	"fmt"
	"os"
	"os/exec"
	"path/filepath"
	"strings"
	"sync"
	"syscall"
	"testing"
	"time"

	"github.com/arloliu/go-secs/v2/hsms"
	"github.com/arloliu/go-secs/v2/sml"
	"pgregory.net/rapid"
	"verif/harness/ev"
	"verif/harness/gen"
	"verif/harness/ref/e5"
	"verif/harness/vt"
)

// ---- oracle --------------------------------------------------------------------------------

// wantPos computes line/col for an offset independently of the library.
func wantPos(input string, off int) (line, col int) {
	line = 1 + strings.Count(input[:off], "\n")
	last := strings.LastIndexByte(input[:off], '\n')
	col = off - last // last == -1 -> off+1
	return
}

func checkParseError(input string, err error) string {
	var pe *sml.ParseError
	if !errors.As(err, &pe) {
		return "" // construction / validation errors are plain wrapped errors by contract
	}
	if pe.Offset < 0 || pe.Offset > len(input) {
		return fmt.Sprintf("ParseError.Offset=%d outside [0,%d]", pe.Offset, len(input))
	}
	l, c := wantPos(input, pe.Offset)
	if pe.Line != l || pe.Col != c {
		return fmt.Sprintf("ParseError at offset %d reports line %d col %d, offset implies line %d col %d", pe.Offset, pe.Line, pe.Col, l, c)
	}
	return ""
}

func validMessage(m *hsms.DataMessage) string {
	if m == nil {
		return "nil message in a successful result"
	}
	if m.Stream() > 127 {
		return fmt.Sprintf("stream %d > 127", m.Stream())
	}
	if m.WaitBit() && m.Function()%2 == 0 {
		return fmt.Sprintf("W-bit on even function %d", m.Function())
	}
	it, err := m.Item()
	if err != nil {
		return fmt.Sprintf("Item() error: %v", err)
	}
	if it == nil {
		return "nil body"
	}
	if e := it.Error(); e != nil {
		return fmt.Sprintf("body carries a deferred error: %v", e)
	}
	b := m.ToBytes()
	if len(b) != 14+it.EncodedLen() {
		return fmt.Sprintf("ToBytes length %d, want %d", len(b), 14+it.EncodedLen())
	}
	return ""
}

type parseOutcome struct {
	n    int    // messages
	err  string // error text ("" = nil)
	desc string // canonical description of the result (for sequential/concurrent comparison)
}

// runAllEntryPoints parses input through every entry point in one mode and returns a violation
// description ("" if none) plus a canonical outcome string.
func runAllEntryPoints(input string, strict bool) (viol string, outcome string) {
	var sb strings.Builder
	try := func(name string, f func() ([]*hsms.DataMessage, error, bool)) {
		if viol != "" {
			return
		}
		defer func() {
			if p := recover(); p != nil {
				viol = fmt.Sprintf("%s(strict=%v) panicked: %v", name, strict, p)
			}
		}()
		msgs, err, single := f()
		if err != nil {
			if msgs != nil {
				for _, m := range msgs {
					if m != nil {
						viol = fmt.Sprintf("%s(strict=%v) returned messages together with error %v", name, strict, err)
						return
					}
				}
			}
			if v := checkParseError(input, err); v != "" {
				viol = fmt.Sprintf("%s(strict=%v): %s (error: %v)", name, strict, v, err)
				return
			}
			fmt.Fprintf(&sb, "%s:err:%v;", name, err)
			return
		}
		if single && len(msgs) == 1 && msgs[0] == nil {
			viol = fmt.Sprintf("%s(strict=%v) returned (nil, nil)", name, strict)
			return
		}
		for i, m := range msgs {
			if v := validMessage(m); v != "" {
				viol = fmt.Sprintf("%s(strict=%v) message %d invalid: %s", name, strict, i, v)
				return
			}
			fmt.Fprintf(&sb, "%s:%d:%x;", name, i, m.ToBytes())
		}
		fmt.Fprintf(&sb, "%s:n=%d;", name, len(msgs))
	}
	describe := func(ms []*hsms.DataMessage, err error) string {
		var b strings.Builder
		fmt.Fprintf(&b, "err=%v n=%d", err, len(ms))
		for _, m := range ms {
			if m != nil {
				fmt.Fprintf(&b, " %x", m.ToBytes())
			}
		}
		return b.String()
	}
	try("Parse", func() ([]*hsms.DataMessage, error, bool) {
		// the package-level shortcuts are "a parser of that mode": whatever the process parsed before
		// (in either mode, successfully or not), they must agree with a fresh Parser on this input
		var m []*hsms.DataMessage
		var err error
		if strict {
			m, err = sml.ParseStrict(input)
		} else {
			m, err = sml.Parse(input)
		}
		fm, ferr := sml.NewParser(sml.WithParserStrictMode(strict)).Parse(input)
		if a, b := describe(m, err), describe(fm, ferr); a != b {
			viol = fmt.Sprintf("the package-level parse shortcut (strict=%v) and a fresh Parser of the same mode disagree on this input:\n shortcut: %.300s\n fresh:    %.300s", strict, a, b)
		}
		return m, err, false
	})
	try("Parser.Parse", func() ([]*hsms.DataMessage, error, bool) {
		m, err := sml.NewParser(sml.WithParserStrictMode(strict)).Parse(input)
		return m, err, false
	})
	// a LONG-LIVED parser (one per mode for the whole process: by now it has parsed thousands of
	// inputs, most of them rejected half-way) must behave on this input exactly like a fresh one
	try("Parser.Parse(reused)", func() ([]*hsms.DataMessage, error, bool) {
		describe := func(ms []*hsms.DataMessage, err error) string {
			var b strings.Builder
			fmt.Fprintf(&b, "err=%v n=%d", err, len(ms))
			for _, m := range ms {
				if m != nil {
					fmt.Fprintf(&b, " %x", m.ToBytes())
				}
			}
			return b.String()
		}
		var m []*hsms.DataMessage
		var err error
		func() {
			reusedMu.Lock()
			defer reusedMu.Unlock() // also when the parser panics (reported by try)
			rp := reusedParsers[strict]
			if rp == nil {
				rp = sml.NewParser(sml.WithParserStrictMode(strict))
				reusedParsers[strict] = rp
				// its history begins with inputs abandoned deep inside nested lists (cut short, or with a
				// junk byte 3000 lists down): nothing of an abandoned parse may be carried into the next
				for _, in := range []string{"S1F1\n" + repeat("<L", 4000), "S1F1\n" + repeat("<L\n", 4000), "S1F1\n" + repeat("<L ", 3000) + "<U1 x>", "S1F1 W\n" + repeat("<L[1] ", 3500) + "#"} {
					_, _ = rp.Parse(in)
					_, _ = rp.ParseMessage(in)
				}
			}
			m, err = rp.Parse(input)
		}()
		fm, ferr := sml.NewParser(sml.WithParserStrictMode(strict)).Parse(input)
		if a, b := describe(m, err), describe(fm, ferr); a != b {
			viol = fmt.Sprintf("a long-lived Parser(strict=%v) and a fresh one disagree on this input:\n long-lived: %.300s\n fresh:      %.300s", strict, a, b)
		}
		return m, err, false
	})
	try("ParseMessage", func() ([]*hsms.DataMessage, error, bool) {
		m, err := sml.NewParser(sml.WithParserStrictMode(strict)).ParseMessage(input)
		if err != nil {
			if m != nil {
				return []*hsms.DataMessage{m}, err, true
			}
			return nil, err, true
		}
		return []*hsms.DataMessage{m}, nil, true
	})
	try("ParseHeader", func() ([]*hsms.DataMessage, error, bool) {
		m, err := sml.NewParser(sml.WithParserStrictMode(strict)).ParseHeader(input)
		if err != nil {
			if m != nil {
				return []*hsms.DataMessage{m}, err, true
			}
			return nil, err, true
		}
		return []*hsms.DataMessage{m}, nil, true
	})
	return viol, sb.String()
}

var (
	reusedMu      sync.Mutex
	reusedParsers = map[bool]*sml.Parser{}
)

// ---- generators ----------------------------------------------------------------------------

var smlAlphabet = []string{"<", ">", "[", "]", "L", "A", "B", "BOOLEAN", "I1", "I2", "I4", "I8", "U1", "U2", "U4", "U8", "F4", "F8", "J", "W",
	"\"", "'", "\\", ".", "..", ":", " ", "\n", "\r\n", "\t", "//", "/*", "*/", "S", "F", "W", "S1F1", "S1F1 W", "S128F1", "S1F256", "S1F2 W",
	"0", "1", "-1", "0x", "0xFF", "256", "1e999", "NaN", "T", "F", "True", "\x00", "\x7f", "\xff", "é", "漢", " ", "99999999999999999999"}

// hostileHints are size-hint values beyond anything the input can back (kept small enough that an
// in-process pre-allocation from the hint cannot take the harness down; the huge ones run in child
// processes, see TestC14Resources).
var inProcHints = []string{"0", "1", "2", "7", "255", "65535", "65536", "-1", "1..0", "3..2", "..", "..5", "5..", "0..65536", "x", "", " 4 ", "4294967296", "99999999999999999999", "2147483648"}

func mutateText(rt *rapid.T, s string) (string, string) {
	kind := rapid.IntRange(0, 11).Draw(rt, "textmut")
	pos := func(label string) int {
		if len(s) == 0 {
			return 0
		}
		return rapid.IntRange(0, len(s)).Draw(rt, label)
	}
	switch kind {
	case 0:
		return s, "valid"
	case 1: // truncate
		return s[:pos("cut")], "truncate"
	case 2: // delete one char
		if len(s) == 0 {
			return s, "valid"
		}
		p := rapid.IntRange(0, len(s)-1).Draw(rt, "del")
		return s[:p] + s[p+1:], "delete"
	case 3: // insert a token
		p := pos("ins")
		return s[:p] + rapid.SampledFrom(smlAlphabet).Draw(rt, "tok") + s[p:], "insert"
	case 4: // remove every closing bracket from a point on
		p := pos("unbalance")
		return s[:p] + strings.ReplaceAll(s[p:], ">", ""), "unbalance-close"
	case 5: // drop quotes from a point on
		p := pos("dropq")
		return s[:p] + strings.NewReplacer("\"", "", "'", "").Replace(s[p:]), "dropquotes"
	case 6: // rewrite a size hint
		i := strings.IndexByte(s, '[')
		if i < 0 {
			return s, "valid"
		}
		// pick the k-th '['
		idxs := []int{}
		for j := 0; j < len(s); j++ {
			if s[j] == '[' {
				idxs = append(idxs, j)
			}
		}
		i = idxs[rapid.IntRange(0, len(idxs)-1).Draw(rt, "whichhint")]
		j := strings.IndexByte(s[i:], ']')
		if j < 0 {
			return s, "valid"
		}
		return s[:i+1] + rapid.SampledFrom(inProcHints).Draw(rt, "hint") + s[i+j:], "hint"
	case 7: // duplicate a span
		a := pos("dupa")
		b := pos("dupb")
		if a > b {
			a, b = b, a
		}
		if b-a > 200 {
			b = a + 200
		}
		return s[:b] + s[a:b] + s[b:], "duplicate"
	case 8: // swap brackets
		return strings.NewReplacer("<", ">", ">", "<").Replace(s), "swapbrackets"
	case 9: // unterminated comment / string
		p := pos("open")
		return s[:p] + rapid.SampledFrom([]string{"/*", "//", "\"", "'", "<A \"", "<A[3] '", "<J '", "<W \"", "<A 0x"}).Draw(rt, "opener") + s[p:], "unterminated"
	case 10: // header damage
		return rapid.SampledFrom([]string{"", "S", "SF", "S1", "S1F", "F1", "S999F1", "S1F999", "S1F2 W", "S-1F1", "s1f1", ":", "a:b:S1F1", "'S1F1", "S1F1'", "S 1 F 1"}).Draw(rt, "hdr") + "\n" + s[min(len(s), strings.IndexByte(s+"\n", '\n')+1):], "header"
	default: // random soup
		n := rapid.IntRange(0, 30).Draw(rt, "soupn")
		var sb strings.Builder
		for i := 0; i < n; i++ {
			sb.WriteString(rapid.SampledFrom(smlAlphabet).Draw(rt, "soup"))
		}
		return sb.String(), "soup"
	}
}

func TestC14Total(t *testing.T) {
	ev.Rule("inputs = SML written from generated messages (all item types, loose and canonical styles, comments, 1-3 messages) put through text mutators (truncate anywhere, delete/insert tokens incl. NUL, 8-bit and multi-byte runes, unbalanced brackets, dropped quotes, size-hint rewrites incl. negative/overflowing/inverted ranges, duplicated spans, swapped brackets, unterminated comments and strings, damaged headers) and token soup; each through Parse, Parser.Parse (a fresh parser and a long-lived one that has seen every earlier input of the process: both must agree), ParseMessage, ParseHeader in strict and non-strict mode. Oracle: no panic; result is (valid messages, nil) or (nil, err); every *ParseError has 0<=Offset<=len, Line == 1+newlines before Offset, Col == Offset - last newline before it (computed independently). Non-trivial: input contains '<' and at least one entry point rejects it; distinct by input. Size hints > 65536 are exercised in child processes (TestC14Resources), not here.")
	vt.Check(t, 30000, 1000000, func(rt *rapid.T) {
		nmsg := rapid.SampledFrom([]int{1, 1, 2, 3}).Draw(rt, "nmsg")
		style := gen.NewSMLStyle(rt, rapid.Bool().Draw(rt, "loose"), rapid.Bool().Draw(rt, "comments"), rapid.Bool().Draw(rt, "nogt"))
		var sb strings.Builder
		for i := 0; i < nmsg; i++ {
			s, f, w, v := drawMessage(rt, 1<<10, false)
			sb.WriteString(style.Message(s, f, w, v))
			sb.WriteString("\n")
		}
		input, kind := mutateText(rt, sb.String())
		if rapid.IntRange(0, 4).Draw(rt, "twice") == 0 {
			var k2 string
			input, k2 = mutateText(rt, input)
			kind += "+" + k2
		}
		anyRejected := false
		for _, strict := range []bool{false, true} {
			viol, outcome := runAllEntryPoints(input, strict)
			if viol != "" {
				rt.Fatalf("C14 violated for input %q (%s): %s", trunc200(input), kind, viol)
			}
			if strings.Contains(outcome, ":err:") {
				anyRejected = true
			}
		}
		acc := "all-accepted"
		if anyRejected {
			acc = "some-rejected"
		}
		ev.Case(strings.Contains(input, "<") && anyRejected, input, func() any { return map[string]any{"mutation": kind, "input": trunc200(input)} },
			"c14:"+strings.SplitN(kind, "+", 2)[0], "c14:"+acc)
	})
}

// ---- resource shapes in child processes -------------------------------------------------------

type shape struct {
	name  string
	build func() string
}

func repeat(s string, n int) string { return strings.Repeat(s, n) }

func resourceShapes(thorough bool) []shape {
	var out []shape
	add := func(name string, f func() string) { out = append(out, shape{name, f}) }
	depths := []int{1000, 100000, 1000000, 4000000}
	if thorough {
		depths = append(depths, 8000000)
	}
	for _, n := range depths {
		n := n
		add(fmt.Sprintf("nest-open-%d", n), func() string { return "S1F1\n" + repeat("<L", n) })
		add(fmt.Sprintf("nest-closed-%d", n), func() string { return "S1F1\n" + repeat("<L", n) + repeat(">", n) + "\n." })
		add(fmt.Sprintf("nest-hinted-%d", n), func() string { return "S1F1\n" + repeat("<L[1]\n", n) + "<A \"x\">" + repeat(">", n) + "\n." })
	}
	// scalar siblings BEFORE the deep nest: whatever bounds the nesting must count lists only
	for _, n := range []int{10001, 1000000, 4000000} {
		n := n
		add(fmt.Sprintf("nest-after-scalars-open-%d", n), func() string { return "S1F1\n<L\n" + repeat("<B 0x01>\n", 60) + repeat("<L", n) })
		add(fmt.Sprintf("nest-after-scalars-closed-%d", n), func() string {
			return "S1F1\n<L\n" + repeat("<B 0x01>\n", 60) + repeat("<L", n) + repeat(">", n) + "\n>\n."
		})
	}
	// as many scalar siblings as nesting levels: if anything but lists moves the depth counter, the
	// bound on the nesting is gone and the recursion runs as deep as the input is long
	add("scalars-then-nest-4000000", func() string {
		return "S1F1\n<L\n" + repeat("<B 1>", 4000000) + repeat("<L", 4000000)
	})
	big := 20000
	if thorough {
		big = 100000
	}
	add(fmt.Sprintf("many-header-only-%d", big), func() string { return repeat("S1F1 W\n.\n", big) })
	add(fmt.Sprintf("many-small-%d", big), func() string { return repeat("S1F1 W\n<L[2]\n<U1 1>\n<A \"x\">\n>\n.\n", big) })
	tok := 100000
	add("long-int-token", func() string { return "S1F1\n<I4 " + repeat("9", tok) + ">\n." })
	add("long-ascii-numtoken", func() string { return "S1F1\n<A 0x" + repeat("1", tok) + ">\n." })
	add("long-ascii-run", func() string { return "S1F1\n<A \"" + repeat("a", 4<<20) + "\">\n." })
	add("many-unterminated-quotes", func() string { return "S1F1\n" + repeat("<A \"", tok) })
	add("many-escapes", func() string { return "S1F1\n<A \"" + repeat("\\", 1<<20) + "\">\n." })
	add("long-comment", func() string { return "/*" + repeat("x", 4<<20) })
	add("many-comments", func() string { return repeat("// c\n", 200000) + "S1F1\n." })
	add("wide-list", func() string { return "S1F1\n<L\n" + repeat("<U1 1>\n", 300000) + ">\n." })
	add("wide-values", func() string { return "S1F1\n<U1 " + repeat("1 ", 1000000) + ">\n." })
	hints := []string{"2147483647", "2000000000", "1073741824", "..2147483647", "0..2147483647", "2147483647..2147483647", "16777216",
		// at and beyond the integer widths a size-hint parser may use
		"2147483648", "4294967295", "4294967296", "9223372036854775807", "..9223372036854775807", "1..9223372036854775807", "9223372036854775807..",
		"9223372036854775808", "18446744073709551615", "18446744073709551616"}
	for _, typ := range []string{"L", "A", "J", "W", "B", "BOOLEAN", "I1", "I8", "U1", "U8", "F4", "F8"} {
		for _, h := range hints {
			typ, h := typ, h
			val := " 1"
			switch typ {
			case "L":
				val = " <U1 1>"
			case "A", "J", "W":
				val = " \"x\""
			case "BOOLEAN":
				val = " T"
			}
			add(fmt.Sprintf("hint-%s-%s", typ, h), func() string { return "S1F1\n<" + typ + "[" + h + "]" + val + ">\n." })
		}
	}
	add("hint-nested", func() string { return "S1F1\n" + repeat("<L[2147483647]\n", 50) + repeat(">", 50) + "\n." })
	add("hint-many", func() string { return "S1F1\n<L\n" + repeat("<A[2147483647] \"x\">\n", 2000) + ">\n." })
	return out
}

// childMain runs inside the child process: parse the file in every mode, report, exit 0.
func childMain(path string) {
	b, err := os.ReadFile(path)
	if err != nil {
		fmt.Println("CHILD-INFRA: read:", err)
		os.Exit(3)
	}
	input := string(b)
	start := time.Now()
	for _, strict := range []bool{false, true} {
		viol, _ := runAllEntryPoints(input, strict)
		if viol != "" {
			fmt.Println("CHILD-VIOLATION:", viol)
			os.Exit(4)
		}
	}
	fmt.Printf("CHILD-OK %d bytes in %v\n", len(input), time.Since(start))
	os.Exit(0)
}

func TestMain(m *testing.M) {
	if p := os.Getenv("VERIF_C14_CHILD"); p != "" {
		childMain(p)
	}
	os.Exit(m.Run())
}

const childMemKiB = 4 << 20 // ulimit -v 4 GiB

// The time budget is CPU time (ulimit -t: the kernel kills the child with SIGXCPU), which does not
// depend on how busy the machine is; the slowest shape needs about 10 CPU-seconds. The wall-clock
// bound only protects the run and is reported as an infrastructure problem, never as a violation.
const childCPUSeconds = 240
const childWallBudget = 20 * time.Minute

func runChild(dir, name, input string) (ok bool, detail string) {
	path := filepath.Join(dir, name+".sml")
	if err := os.WriteFile(path, []byte(input), 0o644); err != nil {
		return false, "INFRA write: " + err.Error()
	}
	defer os.Remove(path)
	self, err := os.Executable()
	if err != nil {
		return false, "INFRA: " + err.Error()
	}
	cmd := exec.Command("sh", "-c", fmt.Sprintf("ulimit -v %d; ulimit -t %d; exec \"$0\" -test.run '^$'", childMemKiB, childCPUSeconds), self)
	cmd.Env = append(os.Environ(), "VERIF_C14_CHILD="+path, "GOMAXPROCS=2")
	done := make(chan struct{})
	var out []byte
	var runErr error
	go func() { out, runErr = cmd.CombinedOutput(); close(done) }()
	select {
	case <-done:
	case <-time.After(childWallBudget):
		_ = cmd.Process.Kill()
		<-done
		return false, fmt.Sprintf("INFRA: the child did not finish within %v of wall-clock time without using up its CPU budget (input %d bytes)", childWallBudget, len(input))
	}
	if ws, ok := cmd.ProcessState.Sys().(syscall.WaitStatus); ok && ws.Signaled() && (ws.Signal() == syscall.SIGXCPU || ws.Signal() == syscall.SIGKILL) && cmd.ProcessState.UserTime()+cmd.ProcessState.SystemTime() >= (childCPUSeconds-5)*time.Second {
		return false, fmt.Sprintf("parsing did not finish within %d s of CPU time (input %d bytes)", childCPUSeconds, len(input))
	}
	s := string(out)
	if runErr == nil && strings.Contains(s, "CHILD-OK") {
		return true, strings.TrimSpace(s)
	}
	if strings.Contains(s, "CHILD-INFRA") {
		return false, "INFRA " + s
	}
	if len(s) > 600 {
		s = s[:600]
	}
	return false, fmt.Sprintf("child process died (%v): %s", runErr, s)
}

func TestC14Resources(t *testing.T) {
	defer ev.Flush()
	ev.Rule("resource shapes (parametric families): list nesting 1e3..4e6 deep (open, closed, hinted, and preceded by 60 scalar siblings), 2e4 header-only / small messages, a 1e5-digit numeric token, a 4 MiB quoted run, 1e5 unterminated quotes, 1 Mi backslashes, 4 MiB unterminated comment, 2e5 comments, 3e5 list children, 1e6 values, size hints 2^24..2^31-1 and 2^31, 2^32-1, 2^32, 2^63-1, 2^63, 2^64-1, 2^64 in every form on every item type, nested and repeated. Each input is parsed by every entry point in strict and non-strict mode in a CHILD PROCESS (this test binary re-executed) under ulimit -v 4 GiB, Go's default 1 GB stack cap and a budget of 240 s of CPU time (ulimit -t; wall-clock time is not an oracle); death by fatal error, signal or CPU-limit is the violation. Non-trivial: every shape (all have size parameter >= 1000 or a hint >= 2^24); distinct by shape.")
	dir := os.Getenv("VERIF_SCRATCH")
	if dir == "" {
		dir = t.TempDir()
	}
	shapes := resourceShapes(vt.Thorough())
	exclF3, exclF4 := vt.Known("F3"), vt.Known("F4")
	type res struct {
		name   string
		ok     bool
		detail string
	}
	results := make([]res, len(shapes))
	sem := make(chan struct{}, 6)
	var wg sync.WaitGroup
	for i, sh := range shapes {
		if exclF3 && strings.HasPrefix(sh.name, "hint-") {
			ev.Count("excluded_known_F3", 1)
			results[i] = res{sh.name, true, "excluded"}
			continue
		}
		if exclF4 && strings.HasPrefix(sh.name, "nest-") && !strings.HasSuffix(sh.name, "-1000") && !strings.HasSuffix(sh.name, "-100000") {
			ev.Count("excluded_known_F4", 1)
			results[i] = res{sh.name, true, "excluded"}
			continue
		}
		wg.Add(1)
		go func(i int, sh shape) {
			defer wg.Done()
			sem <- struct{}{}
			defer func() { <-sem }()
			ok, detail := runChild(dir, sh.name, sh.build())
			results[i] = res{sh.name, ok, detail}
		}(i, sh)
	}
	wg.Wait()
	for _, r := range results {
		cls := "shape:" + strings.SplitN(r.name, "-", 2)[0]
		ev.Case(true, r.name, func() any { return map[string]any{"shape": r.name, "result": r.detail} }, cls)
		if !r.ok {
			if strings.HasPrefix(r.detail, "INFRA") {
				t.Fatalf("VERIF-INFRA: shape %s: %s", r.name, r.detail)
			}
			t.Errorf("VERIF-VIOLATION: C14 violated by resource shape %s: %s", r.name, r.detail)
		}
	}
}

// ---- concurrency: distinct parser / encoder instances share no mutable state -------------------

func TestC14Concurrent(t *testing.T) {
	ev.Rule("8 goroutines, each with its own parsers (strict and non-strict mixed) and encoders, parse and encode a drawn batch of valid and mutated texts concurrently; every result must equal the sequential result; built with -race. Non-trivial: batch has accepted and rejected texts; distinct by batch.")
	vt.Check(t, 300, 5000, func(rt *rapid.T) {
		n := rapid.IntRange(4, 12).Draw(rt, "batch")
		inputs := make([]string, n)
		vals := make([]e5.Value, n)
		for i := range inputs {
			style := gen.NewSMLStyle(rt, rapid.Bool().Draw(rt, "loose"), rapid.Bool().Draw(rt, "comments"), true)
			s, f, w, v := drawMessage(rt, 512, false)
			vals[i] = v
			inputs[i], _ = mutateText(rt, style.Message(s, f, w, v))
		}
		seq := make([][2]string, n)
		accepted, rejected := 0, 0
		for i, in := range inputs {
			for k, strict := range []bool{false, true} {
				viol, out := runAllEntryPoints(in, strict)
				if viol != "" {
					rt.Fatalf("C14 violated (sequential) for %q: %s", trunc200(in), viol)
				}
				seq[i][k] = out
				if strings.Contains(out, ":err:") {
					rejected++
				} else {
					accepted++
				}
			}
		}
		encSeq := make([]string, n)
		for i, v := range vals {
			it := gen.BuildCanonical(v)
			encSeq[i] = sml.Encode(it) + "|" + sml.EncodeStrict(it)
		}
		ev.Case(accepted > 0 && rejected > 0, strings.Join(inputs, "\x00"), func() any { return map[string]any{"batch": n, "first": trunc200(inputs[0])} }, "c14conc")
		var wg sync.WaitGroup
		errs := make(chan string, 64)
		for g := 0; g < 8; g++ {
			wg.Add(1)
			go func(g int) {
				defer wg.Done()
				for r := 0; r < 3; r++ {
					for j := range inputs {
						i := (j + g) % n
						k := (g + r + j) % 2
						viol, out := runAllEntryPoints(inputs[i], k == 1)
						if viol != "" {
							errs <- viol
							return
						}
						if out != seq[i][k] {
							errs <- fmt.Sprintf("input %q (strict=%v): concurrent result differs from sequential:\n seq:  %s\n conc: %s", trunc200(inputs[i]), k == 1, trunc200(seq[i][k]), trunc200(out))
							return
						}
						it := gen.BuildCanonical(vals[i])
						if e := sml.Encode(it) + "|" + sml.EncodeStrict(it); e != encSeq[i] {
							errs <- fmt.Sprintf("concurrent encoding of %s differs from sequential", vals[i])
							return
						}
					}
				}
			}(g)
		}
		wg.Wait()
		close(errs)
		for e := range errs {
			rt.Fatalf("C14 violated (concurrent use of distinct instances): %s", e)
		}
	})
}
