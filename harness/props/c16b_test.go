package props

// C16 (end to end, virtual time): an errored item - at the top or nested in lists - offered to any
// send entry point of a Selected connection (including the endpoint handed to a data handler) is
// refused with an error and not one byte of it reaches the peer.

import (
	"context"
	"fmt"
	"strings"
	"testing"
	"testing/synctest"
	"time"

	"github.com/arloliu/go-secs/v2/hsms"
	"github.com/arloliu/go-secs/v2/secs2"
	"pgregory.net/rapid"
	"verif/harness/ev"
	"verif/harness/netsim"
	"verif/harness/ref/e37"
	"verif/harness/vt"
)

// c16Errored builds an item whose Error() is non-nil through a drawn constructor misuse, nested
// 0-4 lists deep among healthy siblings.
func c16Errored(rt *rapid.T) (secs2.Item, string) {
	makers := []struct {
		name string
		f    func() secs2.Item
	}{
		{`I1("abc")`, func() secs2.Item { return secs2.I1("abc") }},
		{`I1("abc", int8(5))`, func() secs2.Item { return secs2.I1("abc", int8(5)) }},
		{`U2(struct{}{})`, func() secs2.Item { return secs2.U2(struct{}{}) }},
		{`NewIntItem(3, 1)`, func() secs2.Item { return secs2.NewIntItem(3, 1) }},
		{`NewUintItem(0, 1)`, func() secs2.Item { return secs2.NewUintItem(0, 1) }},
		{`NewFloatItem(2, 1.5)`, func() secs2.Item { return secs2.NewFloatItem(2, 1.5) }},
		{`F8("not a number")`, func() secs2.Item { return secs2.F8("not a number") }},
		{`BOOLEAN("maybe")`, func() secs2.Item { return secs2.BOOLEAN("maybe") }},
		{`B(make(chan int))`, func() secs2.Item { return secs2.B(make(chan int)) }},
		{`U8("1", "0x", 3)`, func() secs2.Item { return secs2.U8("1", "0x", 3) }},
	}
	m := makers[rapid.IntRange(0, len(makers)-1).Draw(rt, "maker")]
	cur := m.f()
	if cur.Error() == nil {
		rt.Fatalf("VERIF-INFRA: %s is not an errored item on this tree", m.name)
	}
	depth := rapid.IntRange(0, 4).Draw(rt, "depth")
	for i := 0; i < depth; i++ {
		kids := []secs2.Item{}
		for j := rapid.IntRange(0, 2).Draw(rt, "before"); j > 0; j-- {
			kids = append(kids, secs2.A("healthy"))
		}
		kids = append(kids, cur)
		if rapid.Bool().Draw(rt, "after") {
			kids = append(kids, secs2.U1(1))
		}
		cur = secs2.L(kids...)
	}
	return cur, fmt.Sprintf("%s nested %d deep", m.name, depth)
}

func TestC16Wire(t *testing.T) {
	ev.Rule("a Selected HSMS-SS connection (both roles, virtual time); 1-8 calls, each offering an errored item (10 constructor misuses, nested 0-4 lists deep among healthy siblings) or, as a control, a healthy item to a drawn entry point: SendDataMessage W/no-W, SendDataMessageAsync, SendSECS2Message, ReplyDataMessage, the endpoint's ReplyDataMessage / SendDataMessage inside a data handler, NewDataMessage+Forward. Oracle: an errored item makes the call (or the message construction) fail, the raw peer receives no frame for it, the data-sent counter does not move, the link still answers a Linktest; a healthy item goes through (exactly one data frame); non-trivial = an errored item nested >= 1 deep or offered through a handler endpoint")
	vt.Bubble(t, func(t *testing.T) {
		vt.CheckBubble(t, 3000, 200000, func(rt *rapid.T) {
			active := rapid.Bool().Draw(rt, "active")
			w, err := newWorld(worldOpt{active: active, connOpts: []hsms.ConnOption{hsms.WithT3(500 * time.Millisecond)}})
			if err != nil {
				rt.Fatalf("VERIF-INFRA: %v", err)
			}
			// the handler replies / sends with whatever item the test has parked for it
			var parked secs2.Item
			var viaSend bool
			handlerRes := make(chan error, 4)
			w.conn.AddDataMessageHandler(func(m *hsms.DataMessage, ep hsms.SECS2Endpoint) {
				if m.Stream() != 9 {
					return
				}
				ctx, cancel := ctxT(time.Second)
				defer cancel()
				if viaSend {
					handlerRes <- ep.SendDataMessageAsync(ctx, 9, 3, false, parked)
				} else {
					handlerRes <- ep.ReplyDataMessage(ctx, m, parked)
				}
			})
			var p *netsim.Peer
			defer func() {
				_ = w.conn.Close()
				if p != nil {
					p.Close()
				}
				if w.ln != nil {
					_ = w.ln.Close()
				}
				synctest.Wait()
			}()
			if err := w.conn.Open(context.Background(), hsms.OpenBackground); err != nil {
				rt.Fatalf("VERIF-INFRA: %v", err)
			}
			if p, err = w.peerUp(time.Second); err != nil {
				rt.Fatalf("VERIF-INFRA: %v", err)
			}
			if err := w.selectAsPeer(p, 99); err != nil {
				rt.Fatalf("VERIF-INFRA: %v", err)
			}
			p.Take()
			var hist []string
			fail := func(f string, a ...any) {
				rt.Fatalf("C16 violated (active=%v): %s\nhistory:\n  %s\nwire:\n%s", active, fmt.Sprintf(f, a...), strings.Join(hist, "\n  "), p.Transcript())
			}
			n := rapid.IntRange(1, 8).Draw(rt, "calls")
			nontrivial := false
			var cls []string
			for i := 0; i < n; i++ {
				healthy := rapid.IntRange(0, 4).Draw(rt, "healthy") == 0
				var it secs2.Item
				desc := "healthy item"
				if healthy {
					it = secs2.L(secs2.A("fine"), secs2.U1(uint8(i)))
				} else {
					it, desc = c16Errored(rt)
				}
				entry := rapid.SampledFrom([]string{"SendDataMessage/W", "SendDataMessage/noW", "SendDataMessageAsync", "SendSECS2Message", "ReplyDataMessage", "Forward", "handler-reply", "handler-send"}).Draw(rt, "entry")
				sentBefore := w.conn.Metrics().DataMsgSendCount()
				ctx, cancel := ctxT(300 * time.Millisecond)
				var callErr error
				expectFrames := 1
				switch entry {
				case "SendDataMessage/W":
					// (a healthy primary gets no reply from the raw peer and ends in T3: its frame is out)
					_, callErr = w.conn.SendDataMessage(ctx, 1, 1, true, it)
					if healthy {
						callErr = nil
					}
				case "SendDataMessage/noW":
					_, callErr = w.conn.SendDataMessage(ctx, 6, 11, false, it)
				case "SendDataMessageAsync":
					callErr = w.conn.SendDataMessageAsync(ctx, 6, 13, false, it)
				case "SendSECS2Message":
					_, callErr = w.conn.SendSECS2Message(ctx, s2msg{6, 15, false, it})
				case "ReplyDataMessage":
					prim, perr := hsms.NewDataMessage(3, 1, true, 0xffff, [4]byte{0xC0, 0, 0, byte(i)}, nil)
					if perr != nil {
						rt.Fatalf("VERIF-INFRA: %v", perr)
					}
					callErr = w.conn.ReplyDataMessage(ctx, prim, it)
				case "Forward":
					m, merr := hsms.NewDataMessage(5, 1, false, 0xffff, [4]byte{0xD0, 0, 0, byte(i)}, it)
					if merr != nil {
						callErr = merr
					} else if m == nil {
						fail("NewDataMessage returned (nil, nil)")
					} else {
						callErr = w.conn.ForwardDataMessage(ctx, m)
					}
				case "handler-reply", "handler-send":
					parked, viaSend = it, entry == "handler-send"
					_ = p.Send(e37.DataFrame(0xffff, 9, 1, true, 0xE0000000+uint32(i), nil))
					synctest.Wait()
					select {
					case callErr = <-handlerRes:
					default:
						fail("the data handler was not called for an S9F1-shaped primary from the peer")
					}
				}
				cancel()
				synctest.Wait()
				var data []netsim.RecvFrame
				for _, rf := range p.Take() {
					if rf.F.IsData() {
						data = append(data, rf)
					}
				}
				hist = append(hist, fmt.Sprintf("%s(%s) -> %v; peer received %d data frames", entry, desc, callErr, len(data)))
				if healthy {
					if callErr != nil {
						fail("%s with a healthy item failed: %v", entry, callErr)
					}
					if len(data) != expectFrames {
						fail("%s with a healthy item put %d data frames on the wire, want %d", entry, len(data), expectFrames)
					}
					continue
				}
				if callErr == nil {
					fail("%s accepted an errored item (%s) and reported success", entry, desc)
				}
				if len(data) != 0 {
					fail("%s was offered an errored item (%s) and %d data frames reached the peer: %v", entry, desc, len(data), data[0].F)
				}
				if got := w.conn.Metrics().DataMsgSendCount(); got != sentBefore {
					fail("%s with an errored item moved the data-sent counter from %d to %d", entry, sentBefore, got)
				}
				if strings.Contains(desc, "nested") && !strings.Contains(desc, "nested 0") || strings.HasPrefix(entry, "handler") {
					nontrivial = true
				}
				cls = append(cls, "c16w:"+entry)
			}
			if !barrier(p, 7, time.Second) {
				fail("the link no longer answers a Linktest.req after the refused sends")
			}
			if w.conn.State() != hsms.SelectedState {
				fail("State()=%v after the refused sends", w.conn.State())
			}
			ev.Case(nontrivial, strings.Join(hist, "|"), func() any { return hist }, cls...)
		})
	})
}
