package props

// C03: HSMS messages serialize to exact E37 frames and decode back unchanged. Pure part: generated
// (stream, function, W, session, system bytes, body) tuples through every constructor / re-stamp /
// derive path and all nine control factories, against ref/e37 + ref/e5. Wire part: a Selected
// connection writes generated messages through every send entry point and the raw peer compares
// the bytes it reads with msg.ToBytes() / the reference frame.

import (
	"bytes"
	"context"
	"encoding/binary"
	"errors"
	"fmt"
	"strings"
	"sync"
	"testing"
	"testing/synctest"
	"time"

	"github.com/arloliu/go-secs/v2/hsms"
	"github.com/arloliu/go-secs/v2/secs2"
	"pgregory.net/rapid"
	"verif/harness/ev"
	"verif/harness/gen"
	"verif/harness/netsim"
	"verif/harness/ref/e37"
	"verif/harness/ref/e5"
	"verif/harness/vt"
)

func sysArr(s uint32) [4]byte { return [4]byte{byte(s >> 24), byte(s >> 16), byte(s >> 8), byte(s)} }

func genHeaderWord16(rt *rapid.T, label string) uint16 {
	if rapid.Bool().Draw(rt, label+"Edge") {
		return rapid.SampledFrom([]uint16{0, 1, 0xff, 0x100, 0x7fff, 0x8000, 0xfffe, 0xffff, 0x8001, 0x0180}).Draw(rt, label)
	}
	return uint16(rapid.IntRange(0, 0xffff).Draw(rt, label))
}

func genHeaderWord32(rt *rapid.T, label string) uint32 {
	if rapid.Bool().Draw(rt, label+"Edge") {
		return rapid.SampledFrom([]uint32{0, 1, 0xff, 0x100, 0xffff, 0x10000, 0x7fffffff, 0x80000000, 0xffffffff, 0x01020304, 0x80000001}).Draw(rt, label)
	}
	return rapid.Uint32().Draw(rt, label)
}

// checkDecoded verifies one decode entry point's result against the expected fields.
func checkDecoded(rt *rapid.T, how string, m hsms.Message, err error, want e37.Frame, wantBody e5.Value, frame []byte) {
	if err != nil {
		rt.Fatalf("C03 violated: %s rejected a frame the library itself serialized: %v (frame %x)", how, err, trunc(frame))
	}
	if m.SessionID() != want.Session || m.SystemBytes() != sysArr(want.Sys) || m.HeaderBytes() != want.Header() || byte(m.Type()) != want.SType {
		rt.Fatalf("C03 violated: %s decoded header %x, want %x", how, m.HeaderBytes(), want.Header())
	}
	if !bytes.Equal(m.ToBytes(), frame) {
		rt.Fatalf("C03 violated: %s: re-serialized frame differs\n got  %x\n want %x", how, trunc(m.ToBytes()), trunc(frame))
	}
	if want.SType != e37.Data {
		if _, ok := m.ToDataMessage(); ok {
			rt.Fatalf("C03 violated: %s: control frame decoded as a data message", how)
		}
		return
	}
	dm, ok := m.ToDataMessage()
	if !ok {
		rt.Fatalf("C03 violated: %s: data frame did not decode as a data message", how)
	}
	if dm.Stream() != want.Stream() || dm.Function() != want.Function() || dm.WaitBit() != want.WBit() {
		rt.Fatalf("C03 violated: %s: S%dF%d W=%v, want S%dF%d W=%v", how, dm.Stream(), dm.Function(), dm.WaitBit(), want.Stream(), want.Function(), want.WBit())
	}
	it, ierr := dm.Item()
	if ierr != nil {
		rt.Fatalf("C03 violated: %s: body of a valid message does not decode: %v", how, ierr)
	}
	if got := it.ToBytes(); !bytes.Equal(got, e5.Encode(wantBody)) && !hasNaN(wantBody) {
		rt.Fatalf("C03 violated: %s: decoded body differs\n got  %x\n want %x", how, trunc(got), trunc(e5.Encode(wantBody)))
	}
}

func trunc(b []byte) []byte {
	if len(b) > 80 {
		return b[:80]
	}
	return b
}

func TestC03Frames(t *testing.T) {
	ev.Rule("(stream 0..255, function 0..255, W, session id, system bytes, body tree incl. errored items) tuples through NewDataMessage / NewDataMessageFromHeader / Derive().With*().Build() / WithSessionID / WithSystemBytes / WithID chains, and all nine control factories with every status/reason byte; oracle: acceptance predicate (stream<=127, no W on even function, body error-free), ToBytes == ref/e37 frame over ref/e5 body, three decode entry points agree and re-serialize byte-identically, re-stamping changes only bytes 0-1 / 6-9; non-trivial = a header field has bits set in both halves and the body is non-empty, or the constructor call is rejected")
	vt.Check(t, 30000, 500000, func(rt *rapid.T) {
		if rapid.IntRange(0, 4).Draw(rt, "part") == 0 {
			c03Control(rt)
			return
		}
		stream := byte(rapid.IntRange(0, 255).Draw(rt, "stream"))
		if rapid.IntRange(0, 3).Draw(rt, "streamEdge") == 0 {
			stream = rapid.SampledFrom([]byte{0, 1, 126, 127, 128, 129, 255}).Draw(rt, "streamE")
		}
		function := byte(rapid.IntRange(0, 255).Draw(rt, "function"))
		w := rapid.Bool().Draw(rt, "w")
		session := genHeaderWord16(rt, "session")
		sys := genHeaderWord32(rt, "sys")
		body := gen.Value(rt, gen.Opts{MaxDepth: 6, Budget: 2048, NoBigCounts: true})
		var item secs2.Item = gen.Build(rt, body, nil)
		errored := false
		if rapid.IntRange(0, 9).Draw(rt, "erroredBody") == 0 {
			bad := secs2.NewIntItem(3, 1) // invalid byte size: deferred error
			if rapid.Bool().Draw(rt, "nested") {
				item = secs2.L(item, secs2.L(bad))
			} else {
				item = bad
			}
			errored = true
		}
		if body.FC == e5.Empty && rapid.Bool().Draw(rt, "nilItem") {
			item = nil
		}
		valid := stream <= 127 && !(w && function%2 == 0) && !errored
		violations := 0
		if stream > 127 {
			violations++
		}
		if w && function%2 == 0 {
			violations++
		}
		if errored {
			violations++
		}
		m, err := hsms.NewDataMessage(stream, function, w, session, sysArr(sys), item)
		if (err == nil) != valid {
			rt.Fatalf("C03 violated: NewDataMessage(S%d, F%d, W=%v, errored body=%v) error=%v, validity predicate says valid=%v", stream, function, w, errored, err, valid)
		}
		if !valid {
			if m != nil {
				rt.Fatalf("C03 violated: rejected construction returned a message")
			}
			if violations == 1 {
				switch {
				case stream > 127 && !errors.Is(err, hsms.ErrInvalidStreamCode):
					rt.Fatalf("C03 violated: stream %d rejected with %v, want ErrInvalidStreamCode", stream, err)
				case w && function%2 == 0 && !errors.Is(err, hsms.ErrInvalidRspMsg):
					rt.Fatalf("C03 violated: W-bit on even function rejected with %v, want ErrInvalidRspMsg", err)
				case errored && (errors.Is(err, hsms.ErrInvalidStreamCode) || errors.Is(err, hsms.ErrInvalidRspMsg)):
					rt.Fatalf("C03 violated: errored body rejected with the wrong sentinel %v", err)
				}
			}
			// the header-based constructor and the builder must refuse as well
			hdr := e37.DataFrame(session, stream&0x7f, function, w, sys, nil).Header()
			if stream <= 127 {
				if _, err2 := hsms.NewDataMessageFromHeader(hdr, item); err2 == nil {
					rt.Fatalf("C03 violated: NewDataMessageFromHeader accepted what NewDataMessage refused (S%dF%d W=%v errored=%v)", stream, function, w, errored)
				}
			}
			base, _ := hsms.NewDataMessage(1, 1, false, 0, [4]byte{}, nil)
			if _, err3 := base.Derive().WithStream(stream).WithFunction(function).WithWaitBit(w).WithItem(item).Build(); err3 == nil {
				rt.Fatalf("C03 violated: Derive().Build() accepted what NewDataMessage refused (S%dF%d W=%v errored=%v)", stream, function, w, errored)
			}
			ev.Case(true, fmt.Sprint("rej", stream, function, w, errored), func() any {
				return fmt.Sprintf("rejected: S%dF%d W=%v erroredBody=%v -> %v", stream, function, w, errored, err)
			}, "c03:rejected")
			return
		}
		bodyBytes := e5.Encode(body)
		want := e37.DataFrame(session, stream, function, w, sys, bodyBytes)
		// the very first serialization of the message goes through one of the copying entry points; the
		// buffer it returns is the caller's (a scratch buffer reused for the next message): what the
		// caller writes into it afterwards must not show in any later serialization
		var frame []byte
		switch rapid.IntRange(0, 2).Draw(rt, "firstSerialization") {
		case 0:
			first := m.ToBytes()
			frame = bytes.Clone(first)
			scribbleBytes(first)
		case 1:
			fb := m.AppendBodyTo(make([]byte, 3, 3+m.BodyLen()))
			hb := m.HeaderBytes()
			frame = binary.BigEndian.AppendUint32(nil, uint32(10+len(fb)-3))
			frame = append(append(frame, hb[:]...), fb[3:]...)
			scribbleBytes(fb)
		default:
			fb := m.AppendBodyTo(nil)
			first := m.ToBytes()
			frame = bytes.Clone(first)
			scribbleBytes(fb)
			scribbleBytes(first)
		}
		if err := sameFrame(body, frame, want.Bytes()); err != nil {
			rt.Fatalf("C03 violated: ToBytes of S%dF%d W=%v sess=%04x sys=%08x: %v", stream, function, w, session, sys, err)
		}
		if !bytes.Equal(m.ToBytes(), frame) {
			rt.Fatalf("C03 violated: ToBytes is not deterministic")
		}
		if m.BodyLen() != len(frame)-14 || !bytes.Equal(m.AppendBodyTo(nil), frame[14:]) {
			rt.Fatalf("C03 violated: BodyLen/AppendBodyTo disagree with ToBytes")
		}
		if m.HeaderBytes() != want.Header() {
			rt.Fatalf("C03 violated: HeaderBytes %x, want %x", m.HeaderBytes(), want.Header())
		}
		// decode: three entry points
		d1, e1 := hsms.DecodeHSMSMessage(frame)
		checkDecoded(rt, "DecodeHSMSMessage", d1, e1, want, body, frame)
		d2, e2 := hsms.DecodeHSMSPayload(frame[4:])
		checkDecoded(rt, "DecodeHSMSPayload", d2, e2, want, body, frame)
		d3, e3 := hsms.DecodeOwnedHSMSPayload(append([]byte(nil), frame[4:]...))
		checkDecoded(rt, "DecodeOwnedHSMSPayload", d3, e3, want, body, frame)
		// other construction paths give the same frame
		if m2, err := hsms.NewDataMessageFromHeader(want.Header(), item); err != nil || !bytes.Equal(m2.ToBytes(), frame) {
			rt.Fatalf("C03 violated: NewDataMessageFromHeader(%x): err=%v, frame differs=%v", want.Header(), err, err == nil)
		}
		// re-stamp chain
		cur := m
		curFrame := frame
		steps := rapid.IntRange(1, 4).Draw(rt, "restamps")
		for i := 0; i < steps; i++ {
			prev := curFrame
			src := cur
			if rapid.IntRange(0, 3).Draw(rt, "viaDecoded") == 0 { // re-stamp a wire-decoded copy whose Item() was never called
				dm, derr := hsms.DecodeHSMSMessage(prev)
				if derr != nil {
					rt.Fatalf("C03 violated: re-decode: %v", derr)
				}
				src, _ = dm.ToDataMessage()
			}
			var lo, hi int
			switch rapid.IntRange(0, 4).Draw(rt, "restampKind") {
			case 0:
				session = genHeaderWord16(rt, "session2")
				cur = src.WithSessionID(session)
				lo, hi = 4, 6
			case 1:
				sys = genHeaderWord32(rt, "sys2")
				cur = src.WithSystemBytes(sysArr(sys))
				lo, hi = 10, 14
			case 2:
				sys = genHeaderWord32(rt, "sys3")
				cur = src.WithID(sys)
				lo, hi = 10, 14
			case 3:
				session = genHeaderWord16(rt, "session3")
				sys = genHeaderWord32(rt, "sys4")
				var berr error
				cur, berr = src.Derive().WithSessionID(session).WithSystemBytes(sysArr(sys)).Build()
				if berr != nil {
					rt.Fatalf("C03 violated: Derive().WithSessionID().WithSystemBytes().Build() of a valid message failed: %v", berr)
				}
				lo, hi = 4, 14
			default:
				sys = genHeaderWord32(rt, "sys5")
				var berr error
				cur, berr = src.Derive().WithID(sys).Build()
				if berr != nil {
					rt.Fatalf("C03 violated: Derive().WithID().Build() of a valid message failed: %v", berr)
				}
				lo, hi = 10, 14
			}
			curFrame = cur.ToBytes()
			wantF := e37.DataFrame(session, stream, function, w, sys, bodyBytes).Bytes()
			if err := sameFrame(body, curFrame, wantF); err != nil {
				rt.Fatalf("C03 violated: after re-stamp %d: %v", i, err)
			}
			if len(curFrame) != len(prev) {
				rt.Fatalf("C03 violated: re-stamp changed the frame length")
			}
			for j := range curFrame {
				if (j < lo || j >= hi) && curFrame[j] != prev[j] && !(lo == 4 && hi == 14 && j >= 4 && j < 14 && (j < 6 || j >= 10)) {
					rt.Fatalf("C03 violated: re-stamp changed byte %d outside the stamped field [%d,%d)", j, lo, hi)
				}
			}
			if lo == 4 && hi == 14 {
				for j := 6; j < 10; j++ {
					if curFrame[j] != prev[j] {
						rt.Fatalf("C03 violated: session/system-bytes re-stamp changed header byte %d", j-4)
					}
				}
			}
			if cur.SessionID() != session || cur.SystemBytes() != sysArr(sys) || cur.ID() != sys {
				rt.Fatalf("C03 violated: re-stamped accessors disagree with the stamp")
			}
		}
		// the original is untouched by re-stamping copies
		if !bytes.Equal(m.ToBytes(), frame) {
			rt.Fatalf("C03 violated: re-stamping a copy changed the original message")
		}
		mixed := func(x uint32, bits uint) bool { return x>>(bits/2) != 0 && x&(1<<(bits/2)-1) != 0 }
		nontrivial := len(bodyBytes) > 0 && (mixed(uint32(session), 16) || mixed(sys, 32))
		ev.Case(nontrivial, fmt.Sprint(stream, function, w, session, sys, len(bodyBytes), steps), func() any {
			return fmt.Sprintf("S%dF%d W=%v sess=%04x sys=%08x body=%s restamps=%d", stream, function, w, session, sys, body.String(), steps)
		}, "c03:data", fmt.Sprintf("c03:restamps:%d", steps))
	})
}

func sameFrame(body e5.Value, got, want []byte) error {
	if bytes.Equal(got, want) {
		return nil
	}
	if hasNaN(body) && len(got) == len(want) && len(got) >= 14 && bytes.Equal(got[:14], want[:14]) {
		return sameEncoding(body, got[14:], want[14:])
	}
	return fmt.Errorf("frame differs from the E37 reference at byte %d:\n got  %x\n want %x", firstDiff(got, want), trunc(got), trunc(want))
}

// c03Control: the nine control message kinds with every status / reason byte.
func c03Control(rt *rapid.T) {
	session := genHeaderWord16(rt, "session")
	sys := genHeaderWord32(rt, "sys")
	status := rapid.Byte().Draw(rt, "status")
	kind := rapid.IntRange(0, 9).Draw(rt, "ctl")
	var m *hsms.ControlMessage
	var want e37.Frame
	req := func(st byte, sess uint16) *hsms.ControlMessage {
		// a request as it arrives from the wire, possibly with stray header bytes
		f := e37.Frame{Session: sess, SType: st, Sys: sys}
		if rapid.Bool().Draw(rt, "dirtyReq") {
			f.B2, f.B3 = rapid.Byte().Draw(rt, "rb2"), rapid.Byte().Draw(rt, "rb3")
		}
		d, err := hsms.DecodeHSMSMessage(f.Bytes())
		if err != nil {
			rt.Fatalf("C03 violated: well-formed control frame %v rejected: %v", f, err)
		}
		return d.(*hsms.ControlMessage)
	}
	var err error
	switch kind {
	case 0:
		m, want = hsms.NewSelectReq(session, sysArr(sys)), e37.Control(e37.SelectReq, session, 0, 0, sys)
	case 1:
		m, err = hsms.NewSelectRsp(req(e37.SelectReq, session), status)
		want = e37.Control(e37.SelectRsp, session, 0, status, sys)
	case 2:
		m, want = hsms.NewDeselectReq(session, sysArr(sys)), e37.Control(e37.DeselectReq, session, 0, 0, sys)
	case 3:
		m, err = hsms.NewDeselectRsp(req(e37.DeselectReq, session), status)
		want = e37.Control(e37.DeselectRsp, session, 0, status, sys)
	case 4:
		m, want = hsms.NewLinktestReq(sysArr(sys)), e37.Control(e37.LinktestReq, 0xffff, 0, 0, sys)
	case 5:
		m, err = hsms.NewLinktestRsp(req(e37.LinktestReq, session))
		want = e37.Control(e37.LinktestRsp, 0xffff, 0, 0, sys)
	case 6:
		m, want = hsms.NewSeparateReq(session, sysArr(sys)), e37.Control(e37.SeparateReq, session, 0, 0, sys)
	case 7:
		pt, st := rapid.Byte().Draw(rt, "ptype"), rapid.Byte().Draw(rt, "stype")
		m = hsms.NewRejectReqRaw(session, pt, st, sysArr(sys), status)
		b2 := st
		if status == 2 {
			b2 = pt
		}
		want = e37.Control(e37.RejectReq, session, b2, status, sys)
	case 8:
		// Reject.req for a received data message
		dm, derr := hsms.NewDataMessage(byte(rapid.IntRange(0, 127).Draw(rt, "s")), 1, true, session, sysArr(sys), nil)
		if derr != nil {
			rt.Fatalf("VERIF-INFRA: %v", derr)
		}
		m, want = hsms.NewRejectReq(dm, status), e37.Control(e37.RejectReq, session, 0, status, sys)
	default:
		// Reject.req for a received control message
		st := rapid.SampledFrom([]byte{1, 2, 3, 4, 5, 6, 9}).Draw(rt, "rejType")
		r := req(st, session)
		m = hsms.NewRejectReq(r, status)
		want = e37.Control(e37.RejectReq, session, st, status, sys)
		if status == 2 {
			want.B2 = 0 // the offending PType of a PType-0 message
		}
	}
	if err != nil {
		rt.Fatalf("C03 violated: control factory %d failed: %v", kind, err)
	}
	frame := m.ToBytes()
	if !bytes.Equal(frame, want.Bytes()) {
		rt.Fatalf("C03 violated: control kind %d: frame %x, E37 reference %x", kind, frame, want.Bytes())
	}
	if len(frame) != 14 {
		rt.Fatalf("C03 violated: control frame is %d bytes", len(frame))
	}
	d, derr := hsms.DecodeHSMSMessage(frame)
	checkDecoded(rt, "DecodeHSMSMessage", d, derr, want, e5.Value{}, frame)
	d2, derr2 := hsms.DecodeHSMSPayload(frame[4:])
	checkDecoded(rt, "DecodeHSMSPayload", d2, derr2, want, e5.Value{}, frame)
	// re-stamp
	s2, y2 := genHeaderWord16(rt, "s2"), genHeaderWord32(rt, "y2")
	r1 := m.WithSessionID(s2).ToBytes()
	w1 := want
	w1.Session = s2
	if !bytes.Equal(r1, w1.Bytes()) {
		rt.Fatalf("C03 violated: control WithSessionID: %x want %x", r1, w1.Bytes())
	}
	r2 := m.WithSystemBytes(sysArr(y2)).ToBytes()
	w2 := want
	w2.Sys = y2
	if !bytes.Equal(r2, w2.Bytes()) {
		rt.Fatalf("C03 violated: control WithSystemBytes: %x want %x", r2, w2.Bytes())
	}
	if !bytes.Equal(m.ToBytes(), frame) {
		rt.Fatalf("C03 violated: re-stamping a control copy changed the original")
	}
	ev.Case(true, fmt.Sprint("ctl", kind, session, sys, status), func() any { return "control " + want.String() }, fmt.Sprintf("c03:control:%d", kind))
}

// c03Garbage describes bytes written by the library that do not form whole E37 frames (the wire is
// quiescent when it is called: a frame is written in one piece, so an incomplete trailing frame is
// a frame with a wrong length field or a torn header).
func c03Garbage(p *netsim.Peer) string {
	if p == nil || p.PendingBytes() == 0 {
		return ""
	}
	raw := p.Raw()
	n := p.PendingBytes()
	if n > len(raw) {
		n = len(raw)
	}
	tail := raw[len(raw)-n:]
	if len(tail) > 32 {
		tail = tail[:32]
	}
	return fmt.Sprintf("the library wrote bytes that are not a well-formed E37 frame: %d trailing bytes do not form a frame of the length their length field announces, beginning %x", n, tail)
}

// TestC03Wire: what a connection writes to the socket for a message is exactly msg.ToBytes().
func TestC03Wire(t *testing.T) {
	ev.Rule("a Selected connection (both roles) sends generated messages through ForwardDataMessage / ForwardDataMessageAsync (exact bytes known; the forwarded message is built with its header, or re-stamped to it from a message built or wire-decoded with another header, or decoded from the wire), SendDataMessage / SendDataMessageAsync / SendSECS2Message / ReplyDataMessage (bytes known up to the library-chosen system bytes / session id, read back at their E37 positions); the raw peer compares the bytes it reads; optionally 2-5 re-stamped copies of one message are forwarded concurrently (sync and async) and the wire must carry exactly their reference frames; non-trivial = body non-empty")
	vt.Bubble(t, func(t *testing.T) {
		vt.CheckBubble(t, 8000, 400000, func(rt *rapid.T) {
			active := rapid.Bool().Draw(rt, "active")
			session := genHeaderWord16(rt, "cfgSession")
			w, err := newWorld(worldOpt{active: active, connOpts: []hsms.ConnOption{hsms.WithSessionID(session), hsms.WithT3(time.Second)}})
			if err != nil {
				rt.Fatalf("VERIF-INFRA: %v", err)
			}
			var p *netsim.Peer
			defer func() {
				_ = w.conn.Close()
				if p != nil {
					p.Close()
				}
				if w.ln != nil {
					_ = w.ln.Close()
				}
				synctest.Wait()
			}()
			if err := w.conn.Open(context.Background(), hsms.OpenBackground); err != nil {
				rt.Fatalf("VERIF-INFRA: %v", err)
			}
			if p, err = w.peerUp(time.Second); err != nil {
				rt.Fatalf("VERIF-INFRA: %v", err)
			}
			if err := w.selectAsPeer(p, 99); err != nil {
				if g := c03Garbage(p); g != "" {
					rt.Fatalf("C03 violated (active=%v): the select exchange did not complete: %s", active, g)
				}
				rt.Fatalf("VERIF-INFRA: %v", err)
			}
			p.Take()
			defer func() {
				// every byte the library wrote on this connection belongs to a whole, well-formed frame
				synctest.Wait()
				if g := c03Garbage(p); g != "" && !rt.Failed() {
					rt.Fatalf("C03 violated (active=%v): %s", active, g)
				}
			}()
			n := rapid.IntRange(1, 6).Draw(rt, "messages")
			seen := map[uint32]bool{}
			for i := 0; i < n; i++ {
				body := gen.Value(rt, gen.Opts{MaxDepth: 5, Budget: 1500, NoBigCounts: true})
				item := gen.Build(rt, body, nil)
				stream := byte(rapid.IntRange(0, 127).Draw(rt, "stream"))
				function := byte(rapid.IntRange(0, 255).Draw(rt, "function"))
				entry := rapid.SampledFrom([]string{"Forward", "ForwardAsync", "Send", "SendAsync", "SendSECS2", "Reply"}).Draw(rt, "entry")
				bodyBytes := e5.Encode(body)
				ctx, cancel := ctxT(time.Second)
				var want e37.Frame
				exact := false
				var callErr error
				switch entry {
				case "Forward", "ForwardAsync":
					wbit := function%2 == 1 && rapid.Bool().Draw(rt, "w")
					fs, fy := genHeaderWord16(rt, "fsession"), 0xF0000000|genHeaderWord32(rt, "fsys")>>4
					// where the forwarded message comes from: built with its final header, or re-stamped to it
					// (WithSessionID + WithSystemBytes / WithID) from a message built with ANOTHER header or
					// decoded from another header's wire frame - what goes on the socket must be the
					// re-stamped header, not anything remembered from the source
					origin := rapid.SampledFrom([]string{"built", "built", "restamped", "decoded-restamped", "decoded"}).Draw(rt, "origin")
					var m *hsms.DataMessage
					var merr error
					switch origin {
					case "built":
						m, merr = hsms.NewDataMessage(stream, function, wbit, fs, sysArr(fy), item)
					case "decoded":
						var dm hsms.Message
						if dm, merr = hsms.DecodeHSMSMessage(e37.DataFrame(fs, stream, function, wbit, fy, bodyBytes).Bytes()); merr == nil {
							m, _ = dm.ToDataMessage()
						}
					default:
						os, oy := fs^0x5a5a, fy^0x00a5a5a5
						var src *hsms.DataMessage
						if origin == "restamped" {
							src, merr = hsms.NewDataMessage(stream, function, wbit, os, sysArr(oy), item)
						} else {
							var dm hsms.Message
							if dm, merr = hsms.DecodeHSMSMessage(e37.DataFrame(os, stream, function, wbit, oy, bodyBytes).Bytes()); merr == nil {
								src, _ = dm.ToDataMessage()
							}
						}
						if merr == nil {
							if rapid.Bool().Draw(rt, "srcSerializedFirst") {
								_ = src.ToBytes()
							}
							if rapid.Bool().Draw(rt, "withID") {
								m = src.WithSessionID(fs).WithID(fy)
							} else {
								m = src.WithSystemBytes(sysArr(fy)).WithSessionID(fs)
							}
						}
					}
					if merr != nil || m == nil {
						rt.Fatalf("VERIF-INFRA: building the message to forward (%s): %v", origin, merr)
					}
					entry += "/" + origin
					want, exact = e37.DataFrame(fs, stream, function, wbit, fy, bodyBytes), true
					if strings.HasPrefix(entry, "Forward/") {
						callErr = w.conn.ForwardDataMessage(ctx, m)
					} else {
						callErr = w.conn.ForwardDataMessageAsync(ctx, m)
					}
					if !bytes.Equal(m.ToBytes(), want.Bytes()) && !hasNaN(body) {
						rt.Fatalf("C03 violated: ToBytes differs from the reference frame")
					}
				case "Send":
					_, callErr = w.conn.SendDataMessage(ctx, stream, function, false, item)
					want = e37.DataFrame(session, stream, function, false, 0, bodyBytes)
				case "SendAsync":
					wbit := function%2 == 1 && rapid.Bool().Draw(rt, "w")
					callErr = w.conn.SendDataMessageAsync(ctx, stream, function, wbit, item)
					want = e37.DataFrame(session, stream, function, wbit, 0, bodyBytes)
				case "SendSECS2":
					_, callErr = w.conn.SendSECS2Message(ctx, s2msg{stream, function, false, item})
					want = e37.DataFrame(session, stream, function, false, 0, bodyBytes)
				case "Reply":
					function |= 1
					psys := genHeaderWord32(rt, "psys")
					prim, perr := hsms.NewDataMessage(stream, function, true, genHeaderWord16(rt, "psession"), sysArr(psys), nil)
					if perr != nil {
						rt.Fatalf("VERIF-INFRA: %v", perr)
					}
					callErr = w.conn.ReplyDataMessage(ctx, prim, item)
					want, exact = e37.DataFrame(session, stream, function+1, false, psys, bodyBytes), true
				}
				cancel()
				if callErr != nil {
					rt.Fatalf("C03 violated: %s on a Selected connection failed: %v", entry, callErr)
				}
				synctest.Wait()
				got := p.Take()
				if len(got) != 1 {
					rt.Fatalf("C03 violated: %s wrote %d frames, want 1\n%s", entry, len(got), p.Transcript())
				}
				gf := got[0].F
				if !exact {
					want.Sys = gf.Sys // library-chosen; read back at its E37 position
					if seen[gf.Sys] {
						rt.Fatalf("C03 violated: the library reused system bytes %08x within one connection", gf.Sys)
					}
					seen[gf.Sys] = true
				}
				if err := sameFrame(body, gf.Bytes(), want.Bytes()); err != nil {
					rt.Fatalf("C03 violated: %s put other bytes on the wire than the message serializes to: %v", entry, err)
				}
				role := "passive"
				if active {
					role = "active"
				}
				ev.Case(len(bodyBytes) > 0, fmt.Sprint(entry, stream, function, len(bodyBytes), gf.Sys, role), func() any {
					return fmt.Sprintf("%s (%s) wrote %v", entry, role, gf)
				}, "c03:wire:"+strings.SplitN(entry, "/", 2)[0], "c03:wire:"+role, "c03:wire-entry:"+entry)
			}
			// fan-out: re-stamped copies of ONE message (they share its body) forwarded at the same time
			// from several goroutines on this connection; every frame on the wire must be the reference
			// frame of one of the copies, each exactly once
			if rapid.Bool().Draw(rt, "fanout") {
				body := gen.Value(rt, gen.Opts{MaxDepth: 4, Budget: 3000, NoBigCounts: true})
				bodyBytes := e5.Encode(body)
				stream, function := byte(rapid.IntRange(0, 127).Draw(rt, "fstream")), byte(rapid.IntRange(0, 127).Draw(rt, "ffunction")*2)
				base, berr := hsms.NewDataMessage(stream, function, false, 0x0101, sysArr(0xA0000000), gen.Build(rt, body, nil))
				if berr != nil {
					rt.Fatalf("VERIF-INFRA: %v", berr)
				}
				k := rapid.IntRange(2, 5).Draw(rt, "copies")
				copies := make([]*hsms.DataMessage, k)
				want := map[string]int{}
				for i := range copies {
					fs, fy := uint16(0x0200+i), 0xA1000000+uint32(i)
					if rapid.Bool().Draw(rt, "viaID") {
						copies[i] = base.WithSessionID(fs).WithID(fy)
					} else {
						copies[i] = base.WithSystemBytes(sysArr(fy)).WithSessionID(fs)
					}
					want[string(e37.DataFrame(fs, stream, function, false, fy, bodyBytes).Bytes())]++
				}
				p.Take()
				errs := make([]error, k)
				var wg sync.WaitGroup
				start := make(chan struct{})
				for i := range copies {
					wg.Add(1)
					go func(i int) {
						defer wg.Done()
						<-start
						ctx, cancel := ctxT(time.Second)
						defer cancel()
						if i%2 == 0 {
							errs[i] = w.conn.ForwardDataMessage(ctx, copies[i])
						} else {
							errs[i] = w.conn.ForwardDataMessageAsync(ctx, copies[i])
						}
					}(i)
				}
				close(start)
				wg.Wait()
				synctest.Wait()
				for i, e := range errs {
					if e != nil {
						rt.Fatalf("C03 violated: forwarding copy %d of %d concurrently failed: %v", i, k, e)
					}
				}
				got := p.Take()
				if len(got) != k {
					rt.Fatalf("C03 violated: %d copies forwarded concurrently, %d frames on the wire\n%s", k, len(got), p.Transcript())
				}
				for _, rf := range got {
					key := string(rf.F.Bytes())
					if want[key] == 0 && !hasNaN(body) {
						rt.Fatalf("C03 violated: %d re-stamped copies of one message forwarded concurrently: the wire carries a frame (%v) that is not the serialization of any copy (or carries one twice)", k, rf.F)
					}
					want[key]--
				}
				ev.Case(len(bodyBytes) > 0, fmt.Sprint("fanout", stream, function, k, len(bodyBytes)), func() any {
					return fmt.Sprintf("fan-out of %d copies, body %d bytes", k, len(bodyBytes))
				}, "c03:wire:fanout")
			}
		})
	})
}

// TestC03UndecodableBody: a data message with valid HSMS framing whose body is not valid SECS-II is
// a legitimate thing to receive (the body is decoded lazily). Every message derived from it without
// replacing the item keeps the received body bytes AND keeps reporting that they do not decode -
// what a message serializes and what its Item() says must never drift apart.
func TestC03UndecodableBody(t *testing.T) {
	ev.Rule("frames with a drawn header and a body that the E5 reference rejects (truncated item, length overrunning the frame, unknown format code, zero length-byte count), decoded by DecodeHSMSMessage / DecodeHSMSPayload, then 0-3 derivation steps without a new item (WithSessionID, WithSystemBytes, WithID, Derive().With<header fields>().Build()); oracle: every message of the chain serializes to its header over its own body, and that body is either the received bytes together with a decode error from Item() / DecodeErr(), or exactly the encoding of the item it reports without error (Derive documents a fall-back to an empty item); Derive().Build() may also refuse with an error; non-trivial = at least one derivation step")
	vt.Check(t, 4000, 200000, func(rt *rapid.T) {
		var body []byte
		switch rapid.IntRange(0, 3).Draw(rt, "garbage") {
		case 0: // ASCII item claiming more bytes than follow
			n := rapid.IntRange(1, 40).Draw(rt, "have")
			body = append([]byte{0x41, byte(n + 1 + rapid.IntRange(0, 100).Draw(rt, "missing"))}, bytes.Repeat([]byte{'x'}, n)...)
		case 1: // list claiming children that are not there
			body = []byte{0x01, byte(rapid.IntRange(1, 200).Draw(rt, "children"))}
		case 2: // unknown format code
			body = []byte{0x3d, 0x01, 0x00}
		default: // zero length-byte count
			body = []byte{0x40, 0x00}
		}
		if _, _, err := e5.Decode(body); err == nil {
			return // (not garbage after all)
		}
		stream, function := byte(rapid.IntRange(0, 127).Draw(rt, "stream")), byte(rapid.IntRange(0, 255).Draw(rt, "function"))
		wbit := function%2 == 1 && rapid.Bool().Draw(rt, "w")
		session, sys := genHeaderWord16(rt, "session"), genHeaderWord32(rt, "sys")
		frame := e37.DataFrame(session, stream, function, wbit, sys, body).Bytes()
		var cur *hsms.DataMessage
		if rapid.Bool().Draw(rt, "payloadEntry") {
			d, err := hsms.DecodeHSMSPayload(frame[4:])
			if err != nil {
				rt.Fatalf("C03 violated: a well-framed message with an undecodable body was rejected at the frame level: %v", err)
			}
			cur, _ = d.ToDataMessage()
		} else {
			d, err := hsms.DecodeHSMSMessage(frame)
			if err != nil {
				rt.Fatalf("C03 violated: a well-framed message with an undecodable body was rejected at the frame level: %v", err)
			}
			cur, _ = d.ToDataMessage()
		}
		check := func(m *hsms.DataMessage, how string) {
			// self-consistency: the frame is [length][header][what AppendBodyTo returns] for THIS message's
			// header, and the body is either the received bytes together with a decode error, or exactly
			// the encoding of the item the message reports (Derive documents a fall-back to an empty item
			// for a malformed source body: then the derived message must serialize an empty body)
			mb := m.AppendBodyTo(nil)
			want := e37.DataFrame(session, stream, function, wbit, sys, mb).Bytes()
			if got := m.ToBytes(); !bytes.Equal(got, want) {
				rt.Fatalf("C03 violated: %s of a message with an undecodable body serializes to %x, its header over its own body is %x", how, trunc(got), trunc(want))
			}
			it, ierr := m.Item()
			if ierr != nil || m.DecodeErr() != nil {
				if !bytes.Equal(mb, body) {
					rt.Fatalf("C03 violated: %s reports a decode error but no longer carries the received body (%x, received %x)", how, trunc(mb), body)
				}
				return
			}
			var ib []byte
			if it != nil && !it.IsEmpty() {
				ib = it.ToBytes()
			}
			if !bytes.Equal(ib, mb) {
				rt.Fatalf("C03 violated: %s reports the item %x without any error, but serializes the body %x: what a message says and what it sends have drifted apart", how, ib, trunc(mb))
			}
		}
		check(cur, "the decoded message")
		steps := rapid.IntRange(0, 3).Draw(rt, "steps")
		for i := 0; i < steps; i++ {
			switch rapid.IntRange(0, 3).Draw(rt, "step") {
			case 0:
				session = genHeaderWord16(rt, "s2")
				cur = cur.WithSessionID(session)
				check(cur, "WithSessionID")
			case 1:
				sys = genHeaderWord32(rt, "y2")
				cur = cur.WithSystemBytes(sysArr(sys))
				check(cur, "WithSystemBytes")
			case 2:
				sys = genHeaderWord32(rt, "y3")
				cur = cur.WithID(sys)
				check(cur, "WithID")
			default:
				ns, ny := genHeaderWord16(rt, "s3"), genHeaderWord32(rt, "y4")
				der, err := cur.Derive().WithSessionID(ns).WithSystemBytes(sysArr(ny)).Build()
				if err != nil {
					continue // refusing to derive from an undecodable message is a clean outcome
				}
				session, sys, cur = ns, ny, der
				check(cur, "Derive().WithSessionID().WithSystemBytes().Build()")
			}
		}
		ev.Case(steps > 0, fmt.Sprintf("%x|%d|%d|%d", body, stream, function, steps), func() any {
			return fmt.Sprintf("body %x, S%dF%d, %d derivation steps", body, stream, function, steps)
		}, "c03:undecodable")
	})
}

// TestC03Concurrent: the FIRST serialization of a message happens on several goroutines at once -
// the message itself and re-stamped copies that share its body. Every goroutine must get exactly the
// reference frame of ITS header (built with -race: an unsynchronized encode-once is reported even
// when the interleaving happens to produce the right bytes).
func TestC03Concurrent(t *testing.T) {
	ev.Rule("(stream, function, W, session, system bytes, body tree up to 6 kB) -> NewDataMessage or a wire-decoded message; 2-8 goroutines start together and each serializes the message or a re-stamped copy (WithSessionID / WithSystemBytes / WithID, made before or inside the goroutine) through ToBytes (optionally after AppendBodyTo) for the first time; oracle: every result equals the reference E37 frame of that copy's header; race detector on; non-trivial = body non-empty and >= 2 goroutines serialize copies with different headers")
	vt.Check(t, 1500, 60000, func(rt *rapid.T) {
		body := gen.Value(rt, gen.Opts{MaxDepth: 5, Budget: 6000, NoBigCounts: true})
		bodyBytes := e5.Encode(body)
		stream := byte(rapid.IntRange(0, 127).Draw(rt, "stream"))
		function := byte(rapid.IntRange(0, 255).Draw(rt, "function"))
		wbit := function%2 == 1 && rapid.Bool().Draw(rt, "w")
		session, sys := genHeaderWord16(rt, "session"), genHeaderWord32(rt, "sys")
		var m *hsms.DataMessage
		if rapid.Bool().Draw(rt, "decoded") {
			dm, err := hsms.DecodeHSMSMessage(e37.DataFrame(session, stream, function, wbit, sys, bodyBytes).Bytes())
			if err != nil {
				rt.Fatalf("C03 violated: a reference frame was rejected: %v", err)
			}
			m, _ = dm.ToDataMessage()
		} else {
			var err error
			if m, err = hsms.NewDataMessage(stream, function, wbit, session, sysArr(sys), gen.Build(rt, body, nil)); err != nil {
				rt.Fatalf("VERIF-INFRA: %v", err)
			}
		}
		n := rapid.IntRange(2, 8).Draw(rt, "goroutines")
		type plan struct {
			kind    int // 0 the message itself, 1 WithSessionID, 2 WithSystemBytes, 3 WithID
			early   bool
			appendT bool
			s       uint16
			y       uint32
			msg     *hsms.DataMessage
		}
		plans := make([]*plan, n)
		headers := map[string]bool{}
		for i := range plans {
			pl := &plan{kind: rapid.IntRange(0, 3).Draw(rt, "kind"), early: rapid.Bool().Draw(rt, "copyMadeEarly"), appendT: rapid.Bool().Draw(rt, "appendTo"), s: session, y: sys}
			switch pl.kind {
			case 1:
				pl.s = genHeaderWord16(rt, "s2")
			case 2, 3:
				pl.y = genHeaderWord32(rt, "y2")
			}
			headers[fmt.Sprint(pl.s, pl.y)] = true
			plans[i] = pl
		}
		restamp := func(pl *plan) *hsms.DataMessage {
			switch pl.kind {
			case 1:
				return m.WithSessionID(pl.s)
			case 2:
				return m.WithSystemBytes(sysArr(pl.y))
			case 3:
				return m.WithID(pl.y)
			}
			return m
		}
		for _, pl := range plans {
			if pl.early {
				pl.msg = restamp(pl)
			}
		}
		results := make([][]byte, n)
		start := make(chan struct{})
		var wg sync.WaitGroup
		for i, pl := range plans {
			wg.Add(1)
			go func(i int, pl *plan) {
				defer wg.Done()
				<-start
				msg := pl.msg
				if msg == nil {
					msg = restamp(pl)
				}
				if pl.appendT {
					// body first through AppendBodyTo, then the frame: both must agree
					b := msg.AppendBodyTo(make([]byte, 0, 16))
					results[i] = msg.ToBytes()
					if len(results[i]) >= 14 && !bytes.Equal(results[i][14:], b) {
						results[i] = append([]byte("AppendBodyTo disagrees with ToBytes: "), b...)
					}
				} else {
					results[i] = msg.ToBytes()
				}
			}(i, pl)
		}
		close(start)
		wg.Wait()
		for i, pl := range plans {
			want := e37.DataFrame(pl.s, stream, function, wbit, pl.y, bodyBytes).Bytes()
			if err := sameFrame(body, results[i], want); err != nil {
				rt.Fatalf("C03 violated: goroutine %d of %d (copy kind %d, made early=%v, AppendTo=%v) serialized concurrently for the first time: %v", i, n, pl.kind, pl.early, pl.appendT, err)
			}
		}
		ev.Case(len(bodyBytes) > 0 && len(headers) >= 2, fmt.Sprint(stream, function, wbit, session, sys, n, len(bodyBytes), len(headers)), func() any {
			return fmt.Sprintf("S%dF%d body %d bytes, %d goroutines, %d distinct headers", stream, function, len(bodyBytes), n, len(headers))
		}, fmt.Sprintf("c03:concurrent:goroutines>=4:%v", n >= 4))
	})
}
