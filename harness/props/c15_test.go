package props

import (
	"fmt"
	"math"
	"strconv"
	"strings"
	"testing"

	"github.com/arloliu/go-secs/v2/secs2"
	"github.com/arloliu/go-secs/v2/sml"
	"pgregory.net/rapid"
	"verif/harness/ev"
	"verif/harness/gen"
	"verif/harness/obs"
	"verif/harness/ref/e5"
	"verif/harness/vt"
)

// numericOnly reports whether the tree consists of lists, numeric, boolean and binary leaves only
// (the part of C15 that speaks about reading values back).
func numericOnly(v e5.Value) bool {
	switch {
	case v.FC == e5.List:
		for _, c := range v.List {
			if !numericOnly(c) {
				return false
			}
		}
		return true
	case v.FC == e5.Binary || v.FC == e5.Boolean || e5.Width(v.FC) > 0:
		return true
	}
	return false
}

// readLeafSML is an independent, tiny reader for one rendered numeric/boolean/binary leaf:
// "<TYPE[n] tok tok ...>" -> reference value. It knows nothing of the library's parser.
func readLeafSML(s string) (e5.Value, error) {
	s = strings.TrimSpace(s)
	if !strings.HasPrefix(s, "<") || !strings.HasSuffix(s, ">") {
		return e5.Value{}, fmt.Errorf("not an item: %q", s)
	}
	s = s[1 : len(s)-1]
	br := strings.IndexByte(s, '[')
	cl := strings.IndexByte(s, ']')
	if br < 0 || cl < br {
		return e5.Value{}, fmt.Errorf("no size: %q", s)
	}
	typ := s[:br]
	n, err := strconv.Atoi(s[br+1 : cl])
	if err != nil {
		return e5.Value{}, err
	}
	toks := strings.Fields(s[cl+1:])
	if len(toks) != n {
		return e5.Value{}, fmt.Errorf("size hint %d but %d tokens", n, len(toks))
	}
	fcs := map[string]byte{"B": e5.Binary, "BOOLEAN": e5.Boolean, "I1": e5.I1, "I2": e5.I2, "I4": e5.I4, "I8": e5.I8,
		"U1": e5.U1, "U2": e5.U2, "U4": e5.U4, "U8": e5.U8, "F4": e5.F4, "F8": e5.F8}
	fc, ok := fcs[typ]
	if !ok {
		return e5.Value{}, fmt.Errorf("unknown type %q", typ)
	}
	v := e5.Value{FC: fc}
	for _, t := range toks {
		switch {
		case fc == e5.Binary:
			x, err := strconv.ParseUint(t, 0, 8)
			if err != nil {
				return v, err
			}
			v.Bytes = append(v.Bytes, byte(x))
		case fc == e5.Boolean:
			switch t {
			case "True":
				v.Bools = append(v.Bools, true)
			case "False":
				v.Bools = append(v.Bools, false)
			default:
				return v, fmt.Errorf("bad boolean %q", t)
			}
		case e5.IsInt(fc):
			x, err := strconv.ParseInt(t, 10, 8*e5.Width(fc))
			if err != nil {
				return v, err
			}
			v.Ints = append(v.Ints, x)
		case e5.IsUint(fc):
			x, err := strconv.ParseUint(t, 10, 8*e5.Width(fc))
			if err != nil {
				return v, err
			}
			v.Uints = append(v.Uints, x)
		default:
			x, err := strconv.ParseFloat(t, 8*e5.Width(fc))
			if err != nil {
				return v, err
			}
			v.Floats = append(v.Floats, x)
		}
	}
	return v, nil
}

func extremeNumeric(v e5.Value) bool {
	for _, f := range v.Floats {
		if math.IsNaN(f) || math.IsInf(f, 0) || (f != 0 && (math.Abs(f) < 1e-30 || math.Abs(f) > 1e30)) || (f == 0 && math.Signbit(f)) {
			return true
		}
	}
	for _, x := range v.Ints {
		if x == math.MinInt64 || x == math.MaxInt64 {
			return true
		}
	}
	for _, x := range v.Uints {
		if x == math.MaxUint64 {
			return true
		}
	}
	for _, c := range v.List {
		if extremeNumeric(c) {
			return true
		}
	}
	return false
}

func hasEmptyChild(v e5.Value) bool {
	for _, c := range v.List {
		if c.FC == e5.Empty || hasEmptyChild(c) {
			return true
		}
	}
	return false
}

func TestC15Renderers(t *testing.T) {
	ev.Rule("item trees of every type (empty/one/many elements, nesting <= 12, EmptyItem children included, extreme numeric values). Oracle: sml.Encode(item) == item.ToSML() byte for byte, for the constructed tree and for the tree the wire decoder produces from its encoding; for trees of numeric/boolean/binary leaves the rendered text is read back (a) leaf by leaf with an independent strconv-based reader and (b) by sml.Parse, and must give the reference values. Non-trivial: a list with a non-list child, or an extreme numeric leaf; distinct by reference encoding.")
	vt.Check(t, 20000, 500000, func(rt *rapid.T) {
		v := gen.Value(rt, gen.Opts{MaxDepth: 12, Budget: 16 << 10, EmptyChild: true, NoBigCounts: true})
		it := gen.Build(rt, v, nil)
		classes := []string{"c15", "top:" + e5.Name(v.FC)}
		// rendering history: sub-lists of the tree may be rendered on their own (at nesting level 0)
		// before or after the tree that holds them (at level n), and the same object may sit at two
		// depths; no rendering may depend on what was rendered before
		var subs []secs2.Item
		var walk func(x secs2.Item)
		walk = func(x secs2.Item) {
			if !x.IsList() {
				return
			}
			ch, _ := x.ToList()
			for _, c := range ch {
				if c.IsList() && c.Size() > 0 {
					subs = append(subs, c)
				}
				walk(c)
			}
		}
		walk(it)
		renderSubs := func(when string) {
			for i, sub := range subs {
				if i >= 6 {
					break
				}
				if sa, sb := sml.Encode(sub), sub.ToSML(); sa != sb {
					rt.Fatalf("C15 violated for a sub-list of %s rendered on its own %s: sml.Encode != Item.ToSML\n encoder: %q\n ToSML:   %q", v, when, trunc200(sa), trunc200(sb))
				}
			}
		}
		// other renderers of the package run first in this process (the strict encoder, an encoder with
		// other options): the DEFAULT encoder must not be affected by what they did
		if rapid.IntRange(0, 3).Draw(rt, "otherRenderersFirst") == 0 {
			_ = sml.EncodeStrict(it)
			_ = sml.NewEncoder(sml.WithEncoderStrictMode(true), sml.WithASCIIQuote(sml.QuoteSingle)).Encode(it)
			classes = append(classes, "history:other-renderers-first")
		}
		order := rapid.SampledFrom([]string{"root-only", "root-only", "subs-first", "root-then-subs"}).Draw(rt, "renderOrder")
		if len(subs) > 0 && order != "root-only" {
			classes = append(classes, "history:"+order)
		}
		if order == "subs-first" {
			renderSubs("before the tree")
		}
		a, b := sml.Encode(it), it.ToSML()
		if order == "root-then-subs" {
			renderSubs("after the tree")
			if b2 := it.ToSML(); b2 != b {
				rt.Fatalf("C15 violated for %s: ToSML changed after its sub-lists were rendered on their own\n first:  %q\n second: %q", v, trunc200(b), trunc200(b2))
			}
		}
		if v.FC == e5.List && len(v.List) > 0 && rapid.IntRange(0, 3).Draw(rt, "shared") == 0 {
			// the same object at depths 1, 2 and 3 of one tree
			sh := secs2.L(it, secs2.L(it, secs2.L(it)))
			if sa, sb := sml.Encode(sh), sh.ToSML(); sa != sb {
				rt.Fatalf("C15 violated for a tree holding %s at three depths: sml.Encode != Item.ToSML\n encoder: %q\n ToSML:   %q", v, trunc200(sa), trunc200(sb))
			}
			classes = append(classes, "history:shared-object")
		}
		if !hasEmptyChild(v) && v.FC != e5.Empty {
			// a fresh, never rendered object of the same value renders the same text
			if fresh, err := secs2.Decode(e5.Encode(v)); err == nil {
				// ... and both renderers agree on the wire-decoded object as they do on the constructed one
				if fa, fb := sml.Encode(fresh), fresh.ToSML(); fa != fb {
					rt.Fatalf("C15 violated for the wire-decoded %s: sml.Encode != Item.ToSML\n encoder: %q\n ToSML:   %q", v, trunc200(fa), trunc200(fb))
				}
				classes = append(classes, "provenance:decoded")
				if fb := fresh.ToSML(); fb != b && !extremeNumeric(v) {
					rt.Fatalf("C15 violated for %s: the tree renders differently from a fresh object of the same value (rendering history %s)\n tree:  %q\n fresh: %q", v, order, trunc200(b), trunc200(fb))
				}
			}
		}
		nontrivial := extremeNumeric(v)
		if v.FC == e5.List {
			for _, c := range v.List {
				if c.FC != e5.List {
					nontrivial = true
				}
			}
		}
		if hasEmptyChild(v) {
			classes = append(classes, "empty-child")
		}
		if extremeNumeric(v) {
			classes = append(classes, "extreme-numeric")
		}
		readback := numericOnly(v) && !hasEmptyChild(v)
		if readback {
			classes = append(classes, "readback")
		}
		ev.Case(nontrivial, fmt.Sprintf("%x", e5.Encode(v)), func() any { return map[string]any{"value": v.String(), "sml": trunc200(b)} }, classes...)
		if a != b {
			rt.Fatalf("C15 violated for %s: sml.Encode != Item.ToSML\n encoder: %q\n ToSML:   %q", v, trunc200(a), trunc200(b))
		}
		if !readback {
			return
		}
		// (a) independent leaf reader
		if v.FC != e5.List {
			rv, err := readLeafSML(b)
			if err != nil {
				rt.Fatalf("C15 violated for %s: rendered leaf %q cannot be read back: %v", v, trunc200(b), err)
			}
			if !e5.Same(rv, v) {
				rt.Fatalf("C15 violated for %s: rendered leaf %q reads back as %s", v, trunc200(b), rv)
			}
		} else {
			// leaves appear one per line in list renderings
			var leaves []e5.Value
			var collect func(x e5.Value)
			collect = func(x e5.Value) {
				if x.FC == e5.List {
					for _, c := range x.List {
						collect(c)
					}
					return
				}
				leaves = append(leaves, x)
			}
			collect(v)
			i := 0
			for _, line := range strings.Split(b, "\n") {
				l := strings.TrimSpace(line)
				if l == "" || strings.HasPrefix(l, "<L") || l == ">" {
					continue
				}
				if i >= len(leaves) {
					rt.Fatalf("C15 violated for %s: more rendered leaves than items: %q", v, trunc200(b))
				}
				rv, err := readLeafSML(l)
				if err != nil || !e5.Same(rv, leaves[i]) {
					rt.Fatalf("C15 violated for %s: rendered leaf %q reads back as %s (err %v), want %s", v, trunc200(l), rv, err, leaves[i])
				}
				i++
			}
			if i != len(leaves) {
				rt.Fatalf("C15 violated for %s: %d leaves rendered, %d expected", v, i, len(leaves))
			}
		}
		// (b) the library's parser reads the same values back
		for _, strict := range []bool{false, true} {
			text := "S1F1\n" + b + "\n."
			p := sml.NewParser(sml.WithParserStrictMode(strict))
			msgs, err := p.Parse(text)
			if err != nil || len(msgs) != 1 {
				rt.Fatalf("C15 violated for %s: parser (strict=%v) does not read the rendering back: %v (%d msgs)\n%q", v, strict, err, len(msgs), trunc200(text))
			}
			body, err := msgs[0].Item()
			if err != nil {
				rt.Fatalf("C15: parsed body error: %v", err)
			}
			ov, err := obs.Value(body, obs.ViaTo)
			if err != nil || !e5.Same(ov, v) {
				rt.Fatalf("C15 violated for %s: parser (strict=%v) reads back %s (err %v)", v, strict, ov, err)
			}
		}
	})
}

func trunc200(s string) string {
	if len(s) > 300 {
		return s[:300] + "..."
	}
	return s
}

var _ = secs2.Equal
