package props

// C20: connection metrics conserve. A drawn sequence of phases (bursts of reply-expected sends with
// every outcome, fire-and-forget sends, inbound traffic, refused sends while deselected, sends racing
// a deselect or a drop, drops with pending senders and refused re-dials, write errors on a closed
// window, close/reopen, cold open) runs on one connection; at every quiescent point the counters are
// compared with a ledger kept by the raw peer (frames it actually received / sent while Selected)
// and by the harness (outcome of every call).

import (
	"context"
	"errors"
	"fmt"
	"strings"
	"sync"
	"testing"
	"testing/synctest"
	"time"

	"github.com/arloliu/go-secs/v2/hsms"
	"github.com/arloliu/go-secs/v2/secs2"
	"pgregory.net/rapid"
	"verif/harness/ev"
	"verif/harness/netsim"
	"verif/harness/ref/e37"
	"verif/harness/vt"
)

type c20Ledger struct {
	mu      sync.Mutex
	peerRx  int // data frames the peers received completely
	peerTx  int // well-formed data frames the peers sent while the session was Selected
	errs    int // calls that ended in T3 or a transport write error
	drops   int // calls refused with the not-selected error
	outcome map[string]int
	negSeen string
}

func (l *c20Ledger) call(err error, w *world) {
	l.mu.Lock()
	defer l.mu.Unlock()
	switch {
	case err == nil:
		l.outcome["ok"]++
	case errors.Is(err, hsms.ErrNotSelectedState):
		l.drops++
		l.outcome["refused"]++
	case errors.Is(err, hsms.ErrT3Timeout):
		l.errs++
		l.outcome["t3"]++
	case errors.Is(err, hsms.ErrConnClosed):
		l.outcome["disconnect"]++
	case errors.Is(err, context.Canceled), errors.Is(err, context.DeadlineExceeded):
		l.outcome["cancel"]++
	case isNetErr(err):
		l.errs++
		l.outcome["write-error"]++
	default:
		var re *hsms.RejectError
		if errors.As(err, &re) {
			l.outcome["reject"]++
		} else {
			l.outcome["other:"+err.Error()]++
		}
	}
	m := w.conn.Metrics()
	if m.DataMsgInflightCount() < 0 || m.Reconnecting() < 0 {
		l.negSeen = fmt.Sprintf("inflight=%d reconnecting=%d", m.DataMsgInflightCount(), m.Reconnecting())
	}
}

func TestC20Metrics(t *testing.T) {
	ev.Rule("2-8 phases on one connection (both roles, host/equipment), drawn from: burst of 1-6 concurrent reply-expected sends with peer policies reply / reject / none (T3) / caller cancel / late reply; 1-5 fire-and-forget sends (sync no-W, async, forward, reply); 1-4 inbound primaries; deselect + refused sends + inbound data while deselected + re-select; reply-expected sends issued at the same instant as a Deselect.req or a link drop; drop with pending senders followed by 0-3 refused re-dials; write timeout on a closed window; Close + reopen; an initial cold open (active); quiescent point after every phase; oracle: in-flight gauge 0 at every quiescent point and never negative, data-sent == data frames the peers received, data-received == well-formed data frames the peers sent while Selected, error counter == calls ending in T3 or a write error, drop counter == calls refused as not selected, reconnecting gauge >= 1 while the harness refuses dials and 0 at every quiescent Selected or closed point; non-trivial = >= 3 distinct outcomes and >= 1 reconnect in the history")
	vt.Bubble(t, func(t *testing.T) {
		vt.CheckBubble(t, 8000, 400000, func(rt *rapid.T) { runC20(rt) })
	})
}

func runC20(rt *rapid.T) {
	active := rapid.Bool().Draw(rt, "active")
	equip := rapid.Bool().Draw(rt, "equip")
	const t3 = 500 * time.Millisecond
	cold := active && rapid.Bool().Draw(rt, "coldOpen")
	validate := rapid.IntRange(0, 2).Draw(rt, "sessionValidation") == 0
	w, err := newWorld(worldOpt{active: active, equip: equip, noListen: true, connOpts: []hsms.ConnOption{hsms.WithSessionIDValidation(validate), hsms.WithT3(t3), hsms.WithT6(time.Hour), hsms.WithT7(time.Hour),
		hsms.WithT8(time.Hour), hsms.WithT5(80 * time.Millisecond), hsms.WithReconnectBackoff(40*time.Millisecond, 2), hsms.WithWriteTimeout(300 * time.Millisecond), hsms.WithCloseTimeout(2 * time.Second)}})
	if err != nil {
		rt.Fatalf("VERIF-INFRA: %v", err)
	}
	w.conn.AddDataMessageHandler(func(*hsms.DataMessage, hsms.SECS2Endpoint) {})
	led := &c20Ledger{outcome: map[string]int{}}
	var p *netsim.Peer
	var all []*netsim.Peer
	var hist []string
	var bg sync.WaitGroup
	t0 := time.Now()
	logf := func(f string, a ...any) {
		hist = append(hist, fmt.Sprintf("+%v ", time.Since(t0))+fmt.Sprintf(f, a...))
	}
	defer func() {
		_ = w.conn.Close()
		for _, q := range all {
			q.Close()
		}
		if w.ln != nil {
			_ = w.ln.Close()
		}
		bg.Wait()
		synctest.Wait()
	}()
	fail := func(f string, a ...any) {
		m := w.conn.Metrics()
		rt.Fatalf("C20 violated (active=%v equip=%v): %s\nmetrics: sent=%d recv=%d err=%d drop=%d inflight=%d reconnecting=%d reconnects=%d\nledger: peerRx=%d peerTx=%d errs=%d drops=%d outcomes=%v\nhistory:\n  %s",
			active, equip, fmt.Sprintf(f, a...), m.DataMsgSendCount(), m.DataMsgRecvCount(), m.DataMsgErrCount(), m.DataMsgDropNotSelectedCount(), m.DataMsgInflightCount(), m.Reconnecting(), m.Reconnects(),
			led.peerRx, led.peerTx, led.errs, led.drops, led.outcome, strings.Join(hist, "\n  "))
	}
	selected, linkUp, isOpen := false, false, false
	reconnects := 0
	lostInFlight := 0 // sends issued at the instant of a link reset
	_ = linkUp
	policies := map[int]string{}
	var pmu sync.Mutex
	tok := 0
	peerSendData := func(f e37.Frame) {
		// counts only while the session is selected on a live link (checked by the caller)
		led.mu.Lock()
		led.peerTx++
		led.mu.Unlock()
		_ = p.Send(f)
	}
	attach := func(q *netsim.Peer) {
		q.SetAuto(true, false)
		q.SetOnFrame(func(f e37.Frame) {
			if !f.IsData() {
				return
			}
			led.mu.Lock()
			led.peerRx++
			led.mu.Unlock()
			if m := w.conn.Metrics(); m.DataMsgInflightCount() < 0 || m.Reconnecting() < 0 {
				led.mu.Lock()
				led.negSeen = fmt.Sprintf("inflight=%d reconnecting=%d", m.DataMsgInflightCount(), m.Reconnecting())
				led.mu.Unlock()
			}
			k, ok := tokenOf(f)
			if !ok || !f.WBit() {
				return
			}
			pmu.Lock()
			pol := policies[k]
			pmu.Unlock()
			reply := e37.DataFrame(f.Session, f.Stream(), f.Function()+1, false, f.Sys, asciiBody(fmt.Sprintf("re%d", k)))
			switch pol {
			case "reply":
				led.mu.Lock()
				led.peerTx++
				led.mu.Unlock()
				_ = q.Send(reply)
			case "reject":
				_ = q.Send(e37.Frame{Session: f.Session, B3: 4, SType: e37.RejectReq, Sys: f.Sys})
			case "late":
				bg.Add(1)
				go func() {
					defer bg.Done()
					time.Sleep(2 * t3)
					if eof, _, _ := q.EOF(); eof || q.C.Closed() {
						return
					}
					led.mu.Lock()
					led.peerTx++
					led.mu.Unlock()
					_ = q.Send(reply)
				}()
			}
		})
	}
	connect := func() {
		synctest.Wait() // a dying generation has finished its teardown (its listener no longer swallows our dial)
		if active && (w.ln == nil || w.ln.Closed()) {
			_ = w.listen()
		}
		q, err := w.peerUp(10 * time.Second)
		if err != nil {
			fail("the link was not (re-)established: %v", err)
		}
		p = q
		all = append(all, q)
		attach(q)
		if err := w.selectAsPeer(q, 0x5e000000+uint32(len(all))); err != nil {
			fail("select failed: %v", err)
		}
		linkUp, selected = true, true
		if active && w.ln != nil {
			_ = w.ln.Close() // no spontaneous reconnects: the script decides when the peer is reachable
		}
		logf("link up and selected")
	}
	quiescent := func(where string) {
		synctest.Wait()
		m := w.conn.Metrics()
		if led.negSeen != "" {
			fail("a gauge went negative: %s", led.negSeen)
		}
		if m.DataMsgInflightCount() != 0 {
			fail("after %s the in-flight gauge is %d at a quiescent point", where, m.DataMsgInflightCount())
		}
		if (selected || !isOpen) && m.Reconnecting() != 0 {
			fail("after %s the reconnecting gauge is %d at a quiescent %s point", where, m.Reconnecting(), map[bool]string{true: "Selected", false: "closed"}[selected])
		}
		// a frame written at the very instant the peer resets the link is on the wire but can never be
		// received: each send that raced a drop may account for one such frame (inherent to TCP)
		if sent := int(m.DataMsgSendCount()); sent < led.peerRx || sent > led.peerRx+lostInFlight {
			fail("after %s data-sent=%d but the peers received %d data frames (+ at most %d lost in flight at a drop)", where, m.DataMsgSendCount(), led.peerRx, lostInFlight)
		}
		if int(m.DataMsgRecvCount()) != led.peerTx {
			fail("after %s data-received=%d but the peers sent %d well-formed data frames while Selected", where, m.DataMsgRecvCount(), led.peerTx)
		}
		if int(m.DataMsgErrCount()) != led.errs {
			fail("after %s error counter=%d, calls ending in T3 / write error: %d", where, m.DataMsgErrCount(), led.errs)
		}
		if int(m.DataMsgDropNotSelectedCount()) != led.drops {
			fail("after %s drop counter=%d, calls refused as not selected: %d", where, m.DataMsgDropNotSelectedCount(), led.drops)
		}
		if active && int(m.Reconnects()) != reconnects {
			fail("after %s Reconnects()=%d, successful re-dials: %d", where, m.Reconnects(), reconnects)
		}
	}
	sendW := func(pol string, ctx context.Context) error {
		k := tok
		tok++
		pmu.Lock()
		policies[k] = pol
		pmu.Unlock()
		_, err := w.conn.SendDataMessage(ctx, 1, 1, true, secs2.A(fmt.Sprintf("t%d", k)))
		led.call(err, w)
		return err
	}
	fireOne := func(kind string) error {
		k := tok
		tok++
		// header-only data messages and empty lists are data frames like any other
		var body secs2.Item
		switch k % 4 {
		case 0:
			body = secs2.NewEmptyItem()
		case 1:
			body = secs2.L()
		default:
			body = secs2.A(fmt.Sprintf("f%d", k))
		}
		ctx, cancel := ctxT(time.Second)
		defer cancel()
		var err error
		switch kind {
		case "syncNoW":
			_, err = w.conn.SendDataMessage(ctx, 6, 11, false, body)
		case "async":
			err = w.conn.SendDataMessageAsync(ctx, 6, 13, false, body)
		case "forward":
			// a relayed primary may itself expect a reply (W-bit): the forward path does not wait for it,
			// and must not count it as in flight
			m, _ := hsms.NewDataMessage(5, 1, k%3 != 0, 0xffff, sysArr(0xD0000000+uint32(k)), body)
			err = w.conn.ForwardDataMessage(ctx, m)
		default:
			prim, _ := hsms.NewDataMessage(3, 1, true, 0xffff, sysArr(0xC0000000+uint32(k)), nil)
			err = w.conn.ReplyDataMessage(ctx, prim, body)
		}
		led.call(err, w)
		return err
	}
	openIt := func() {
		if err := w.conn.Open(context.Background(), hsms.OpenBackground); err != nil {
			fail("Open: %v", err)
		}
		isOpen = true
	}
	// ---- start ----
	if cold {
		// active, peer not reachable: Open returns nil and a retry loop runs
		openIt()
		time.Sleep(60 * time.Millisecond)
		synctest.Wait()
		if g := w.conn.Metrics().Reconnecting(); g < 1 {
			fail("the reconnecting gauge is %d while the initial connect is being retried", g)
		}
		logf("cold open: retry loop running")
		connect()
	} else {
		if active {
			_ = w.listen()
		}
		openIt()
		connect()
	}
	quiescent("the first select")
	phases := rapid.IntRange(2, 8).Draw(rt, "phases")
	for ph := 0; ph < phases; ph++ {
		op := rapid.SampledFrom([]string{"burst", "burst", "fire", "inbound", "refused", "race-deselect", "race-drop", "drop-pending", "write-error", "close-reopen", "close-at-retry", "flap-reconnect"}).Draw(rt, "phase")
		logf("phase %s", op)
		switch op {
		case "burst":
			n := rapid.IntRange(1, 6).Draw(rt, "n")
			var wg sync.WaitGroup
			for i := 0; i < n; i++ {
				pol := rapid.SampledFrom([]string{"reply", "reply", "reject", "none", "cancel", "late"}).Draw(rt, "policy")
				wg.Add(1)
				go func() {
					defer wg.Done()
					ctx := context.Background()
					if pol == "cancel" {
						c2, cancel := ctxT(60 * time.Millisecond)
						defer cancel()
						ctx = c2
						pol = "none"
					}
					_ = sendW(pol, ctx)
				}()
			}
			wg.Wait()
			time.Sleep(3 * t3) // late replies and S9F9 notices have passed
		case "fire":
			for i, n := 0, rapid.IntRange(1, 5).Draw(rt, "n"); i < n; i++ {
				if err := fireOne(rapid.SampledFrom([]string{"syncNoW", "async", "forward", "reply"}).Draw(rt, "kind")); err != nil {
					fail("a fire-and-forget send on a Selected link failed: %v", err)
				}
			}
		case "inbound":
			for i, n := 0, rapid.IntRange(1, 4).Draw(rt, "n"); i < n; i++ {
				// a well-formed data frame is RECEIVED whatever its session id: with session-id validation on,
				// a foreign id is answered with S9F1 (a data frame the peer receives) instead of being
				// handed to the application, but it was received all the same
				sess := uint16(0xffff)
				if rapid.IntRange(0, 2).Draw(rt, "foreignSession") == 0 {
					sess = uint16(rapid.IntRange(0, 0x7fff).Draw(rt, "sess"))
				}
				peerSendData(e37.DataFrame(sess, 6, 11, false, 0x70000000+uint32(tok*8+i), genBody(rt)))
			}
		case "refused":
			_ = p.Send(e37.Control(e37.DeselectReq, 0xffff, 0, 0, 0x0d00+uint32(ph)))
			synctest.Wait()
			selected = false
			for i, n := 0, rapid.IntRange(1, 3).Draw(rt, "n"); i < n; i++ {
				var err error
				if rapid.Bool().Draw(rt, "w") {
					ctx, cancel := ctxT(time.Second)
					err = sendW("none", ctx)
					cancel()
				} else {
					err = fireOne(rapid.SampledFrom([]string{"syncNoW", "async", "forward", "reply"}).Draw(rt, "kind"))
				}
				if !errors.Is(err, hsms.ErrNotSelectedState) {
					fail("a send while deselected returned %v", err)
				}
			}
			// inbound data while not selected is rejected, not received
			_ = p.Send(e37.DataFrame(0xffff, 6, 11, false, 0x71000000+uint32(ph), nil))
			synctest.Wait()
			_ = p.Send(e37.Control(e37.SelectReq, 0xffff, 0, 0, 0x0e00+uint32(ph)))
			synctest.Wait()
			selected = true
		case "race-deselect", "race-drop":
			n := rapid.IntRange(1, 4).Draw(rt, "n")
			var wg sync.WaitGroup
			for i := 0; i < n; i++ {
				wg.Add(1)
				go func() {
					defer wg.Done()
					ctx, cancel := ctxT(200 * time.Millisecond)
					defer cancel()
					_ = sendW("none", ctx)
				}()
			}
			if op == "race-deselect" {
				_ = p.Send(e37.Control(e37.DeselectReq, 0xffff, 0, 0, 0x0d80+uint32(ph)))
				wg.Wait()
				synctest.Wait()
				_ = p.Send(e37.Control(e37.SelectReq, 0xffff, 0, 0, 0x0e80+uint32(ph)))
				synctest.Wait()
			} else {
				lostInFlight += n
				p.C.Reset()
				_ = p.C.Close()
				wg.Wait()
				selected, linkUp = false, false
				synctest.Wait()
				connect()
				if active {
					reconnects++
				}
			}
		case "drop-pending":
			n := rapid.IntRange(1, 4).Draw(rt, "n")
			var wg sync.WaitGroup
			for i := 0; i < n; i++ {
				wg.Add(1)
				go func() { defer wg.Done(); _ = sendW("none", context.Background()) }()
			}
			synctest.Wait()
			refusals := rapid.IntRange(0, 3).Draw(rt, "refusals")
			if active {
				w.nw.RefuseNextDials(refusals)
				_ = w.listen()
			}
			_ = p.C.Close()
			selected, linkUp = false, false
			wg.Wait()
			if active && refusals > 0 {
				time.Sleep(50 * time.Millisecond) // first backoff 40 ms: the loop is now between refused dials
				synctest.Wait()
				if g := w.conn.Metrics().Reconnecting(); g < 1 {
					fail("the reconnecting gauge is %d while re-dials are being refused", g)
				}
			}
			connect()
			if active {
				reconnects++
			}
		case "write-error":
			p.C.SetInboundWindow(4)
			p.C.StallInbound(true)
			done := make(chan error, 1)
			bg.Add(1)
			go func() { defer bg.Done(); done <- fireOne("syncNoW") }()
			time.Sleep(350 * time.Millisecond)
			p.C.StallInbound(false)
			werr := <-done
			if werr == nil {
				fail("a write into a closed window succeeded")
			}
			selected, linkUp = false, false
			synctest.Wait()
			// whatever part of the frame arrived is not a complete data frame
			connect()
			if active {
				reconnects++
			}
		case "flap-reconnect":
			// the link drops and the peer FLAPS: it accepts each re-established connection and resets it
			// at once (1-4 times) before finally staying - generations that die while the reconnect
			// attempt that created them is still returning; one reconnect loop at a time is accounted
			// for, whatever overlaps internally
			p.C.Reset()
			_ = p.C.Close()
			selected, linkUp = false, false
			flaps := rapid.IntRange(1, 4).Draw(rt, "flaps")
			for i := 0; i < flaps; i++ {
				synctest.Wait()
				if active && (w.ln == nil || w.ln.Closed()) {
					_ = w.listen()
				}
				q, err := w.peerUp(10 * time.Second)
				if err != nil {
					fail("flap %d: the link was not re-established: %v", i, err)
				}
				all = append(all, q)
				q.C.Reset()
				_ = q.C.Close()
				if active {
					reconnects++
				}
				if g := w.conn.Metrics().Reconnecting(); g < 0 {
					fail("the reconnecting gauge is %d while the peer flaps", g)
				}
			}
			connect()
			if active {
				reconnects++
			}
		case "close-at-retry":
			// The link drops and the peer stays unreachable (an active endpoint's dials are refused, a
			// passive one listens in vain); Close then lands AT the instant one of the backoff sleeps of
			// the reconnect loop expires (or a millisecond around it): whichever of the loop's exits is
			// taken, the reconnecting gauge must be back at zero once Close has returned.
			_ = p.C.Close()
			selected, linkUp = false, false
			synctest.Wait()
			attempt := rapid.IntRange(0, 2).Draw(rt, "attempt")
			at := []time.Duration{40, 120, 200}[attempt]*time.Millisecond + time.Duration(rapid.SampledFrom([]int{0, 0, 0, -1, 1}).Draw(rt, "offMs"))*time.Millisecond
			time.Sleep(at)
			if err := w.conn.Close(); err != nil {
				fail("Close: %v", err)
			}
			isOpen = false
			quiescent(fmt.Sprintf("Close %v after the drop (backoff 40/80/80 ms)", at))
			if active {
				_ = w.listen()
			}
			openIt()
			connect()
		case "close-reopen":
			if err := w.conn.Close(); err != nil {
				fail("Close: %v", err)
			}
			selected, linkUp, isOpen = false, false, false
			quiescent("Close")
			if active {
				_ = w.listen()
			}
			openIt()
			connect()
		}
		quiescent("phase " + op)
	}
	distinct := 0
	for range led.outcome {
		distinct++
	}
	role := "passive"
	if active {
		role = "active"
	}
	cls := []string{"c20:role:" + role}
	for k := range led.outcome {
		if !strings.HasPrefix(k, "other") {
			cls = append(cls, "c20:outcome:"+k)
		} else {
			fail("a call ended in an undocumented error: %s", k)
		}
	}
	if cold {
		cls = append(cls, "c20:cold-open")
	}
	ev.Case(distinct >= 3 && len(all) >= 2, strings.Join(hist, "|")+role, func() any {
		return map[string]any{"role": role, "equip": equip, "history": hist, "outcomes": led.outcome}
	}, cls...)
}
