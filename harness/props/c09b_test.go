package props

// C09 / C10 (virtual time): a peer's connection is handed to the accepting goroutine at the very
// instant the listening generation is being closed (the goroutine returns from Accept only after the
// listener was closed - a schedule a real network allows). The socket belongs to the dying
// generation: Close must close it, and nothing the old peer sends on it may reach the generation
// that a later Open starts.

import (
	"context"
	"errors"
	"fmt"
	"runtime"
	"strings"
	"sync"
	"sync/atomic"
	"testing"
	"testing/synctest"
	"time"

	"github.com/arloliu/go-secs/v2/hsms"
	"github.com/arloliu/go-secs/v2/secs2"
	"pgregory.net/rapid"
	"verif/harness/ev"
	"verif/harness/netsim"
	"verif/harness/ref/e37"
	"verif/harness/vt"
)

func TestC09LateAccept(t *testing.T) {
	ev.Rule("HSMS-SS endpoint, virtual time. Passive: a peer connects while the endpoint listens; the accepting goroutine returns from Accept only once the listener has been closed by Close. Active: after a healthy generation was dropped, the re-dial's connection is established but the dialer returns 80 ms late - after Close (optionally the peer has already written a Select.req and a data frame into the socket); then 0-2 re-Opens, each with a fresh peer that selects and runs a reply-expected round trip while the OLD peer injects, on its old socket, a reply carrying the new transaction's system bytes, a Select.req and a primary message. Oracle: Close returns nil within the close timeout, the late-accepted socket is closed (the old peer reads EOF, the socket registry is empty), State() is NotConnected; in the later generations every reply comes from that generation's peer, nothing of the old peer is delivered or answered; non-trivial = always (the accept always races the Close)")
	vt.Bubble(t, func(t *testing.T) {
		vt.CheckBubble(t, 400, 20000, func(rt *rapid.T) {
			preload := rapid.SampledFrom([]string{"nothing", "select", "select+data"}).Draw(rt, "preload")
			reopens := rapid.IntRange(0, 2).Draw(rt, "reopens")
			closeTO := time.Duration(rapid.SampledFrom([]int{500, 2000}).Draw(rt, "closeTimeoutMs")) * time.Millisecond
			active := rapid.Bool().Draw(rt, "active")
			w, err := newWorld(worldOpt{active: active, connOpts: []hsms.ConnOption{hsms.WithT3(time.Second), hsms.WithT6(5 * time.Second), hsms.WithT7(5 * time.Second), hsms.WithCloseTimeout(closeTO),
				hsms.WithT5(20 * time.Millisecond), hsms.WithReconnectBackoff(10*time.Millisecond, 1)}})
			if err != nil {
				rt.Fatalf("VERIF-INFRA: %v", err)
			}
			dl := &deliveries{}
			w.conn.AddDataMessageHandler(func(m *hsms.DataMessage, ep hsms.SECS2Endpoint) {
				dl.handler(m, ep)
				if m.WaitBit() {
					_ = ep.ReplyDataMessage(context.Background(), m, secs2.A("rsp"))
				}
			})
			var hist []string
			t0 := time.Now()
			logf := func(f string, a ...any) {
				hist = append(hist, fmt.Sprintf("+%v ", time.Since(t0))+fmt.Sprintf(f, a...))
			}
			fail := func(f string, a ...any) {
				rt.Fatalf("C09 violated (active=%v preload=%s reopens=%d closeTimeout=%v): %s\nhistory:\n  %s", active, preload, reopens, closeTO, fmt.Sprintf(f, a...), strings.Join(hist, "\n  "))
			}
			var old *netsim.Peer
			if active {
				// ACTIVE endpoint: the analogous instant is a re-dial whose connection is established but
				// whose dialer returns only after Close (a dialer with a post-connect phase, or simply a
				// slow return): first a healthy generation, then the peer drops it, the reconnect loop
				// dials, the peer accepts - and Close lands before the dialer has returned.
				if err := w.conn.Open(context.Background(), hsms.OpenBackground); err != nil {
					rt.Fatalf("VERIF-INFRA: open: %v", err)
				}
				first, err := w.peerUp(time.Second)
				if err != nil {
					rt.Fatalf("VERIF-INFRA: %v", err)
				}
				if err := w.selectAsPeer(first, 0x0100); err != nil {
					rt.Fatalf("VERIF-INFRA: select: %v", err)
				}
				w.slow.Store(int64(80 * time.Millisecond))
				first.C.Reset()
				_ = first.C.Close()
				if old, err = w.peerUp(time.Second); err != nil { // the re-dial is accepted; its dialer is still "returning"
					rt.Fatalf("VERIF-INFRA: no re-dial: %v", err)
				}
				if w.ln != nil {
					_ = w.ln.Close()
				}
			} else {
				w.lateAccept.Store(true)
				if err := w.conn.Open(context.Background(), hsms.OpenBackground); err != nil {
					rt.Fatalf("VERIF-INFRA: open: %v", err)
				}
				var err error
				if old, err = w.peerUp(time.Second); err != nil {
					rt.Fatalf("VERIF-INFRA: %v", err)
				}
			}
			defer func() {
				_ = w.conn.Close()
				old.Close()
				if w.ln != nil {
					_ = w.ln.Close()
				}
				synctest.Wait()
			}()
			switch preload {
			case "select":
				_ = old.Send(e37.Control(e37.SelectReq, 0xffff, 0, 0, 0x0101))
			case "select+data":
				_ = old.Send(e37.Control(e37.SelectReq, 0xffff, 0, 0, 0x0101), e37.DataFrame(0xffff, 1, 1, false, 0x0102, []byte{0x41, 0x03, 'o', 'l', 'd'}))
			}
			synctest.Wait()
			logf("old peer connected; the accept is held until the listener closes")
			st := time.Now()
			cerr := w.conn.Close()
			d := time.Since(st)
			logf("Close -> %v after %v", cerr, d)
			w.lateAccept.Store(false)
			time.Sleep(100 * time.Millisecond) // a dialer that was still returning has returned by now
			w.slow.Store(0)
			synctest.Wait()
			if cerr != nil {
				fail("Close returned %v although every handler returns", cerr)
			}
			if d > closeTO {
				fail("Close took %v, close timeout %v", d, closeTO)
			}
			if got := w.conn.State(); got != hsms.NotConnectedState {
				fail("State()=%v after Close", got)
			}
			if l := w.leaked(); len(l) > 0 {
				fail("the socket accepted while the listener was closing was never closed: %v still open after Close", l)
			}
			if !old.WaitEOF(time.Second) {
				fail("the peer whose connection was accepted while the listener was closing never saw its connection end")
			}
			for g := 0; g < reopens; g++ {
				if active {
					_ = w.listen()
				}
				if err := w.conn.Open(context.Background(), hsms.OpenBackground); err != nil {
					fail("re-Open %d: %v", g, err)
				}
				p, err := w.peerUp(time.Second)
				if err != nil {
					fail("re-Open %d: the endpoint does not listen: %v", g, err)
				}
				if err := w.selectAsPeer(p, 0x0200+uint32(g)); err != nil {
					fail("re-Open %d: select: %v", g, err)
				}
				dl.take()
				// the old peer talks on its old socket (errors ignored: on a correct library it is closed)
				_ = old.Send(e37.Control(e37.SelectReq, 0xffff, 0, 0, 0x0301), e37.DataFrame(0xffff, 7, 7, true, 0x0302, []byte{0x41, 0x03, 'o', 'l', 'd'}))
				type res struct {
					rep *hsms.DataMessage
					err error
				}
				ch := make(chan res, 1)
				go func() {
					ctx, cancel := ctxT(2 * time.Second)
					defer cancel()
					rep, e := w.conn.SendDataMessage(ctx, 1, 1, true, secs2.A("new"))
					ch <- res{rep, e}
				}()
				f, ok := p.WaitFrame(0, func(f e37.Frame) bool { return f.IsData() && f.Stream() == 1 && f.Function() == 1 }, time.Second)
				if !ok {
					fail("generation %d: the primary never reached the new peer", g+2)
				}
				// a reply with the RIGHT system bytes on the WRONG (old) socket
				_ = old.Send(e37.DataFrame(0xffff, 1, 2, false, f.F.Sys, []byte{0x41, 0x05, 's', 't', 'a', 'l', 'e'}))
				synctest.Wait()
				select {
				case r := <-ch:
					fail("generation %d: the send completed (%v, %v) before its own peer replied - with what the OLD peer wrote on the old socket", g+2, r.rep, r.err)
				default:
				}
				_ = p.Send(e37.DataFrame(0xffff, 1, 2, false, f.F.Sys, []byte{0x41, 0x04, 'g', 'o', 'o', 'd'}))
				synctest.Wait()
				r := <-ch
				if r.err != nil || r.rep == nil {
					fail("generation %d: the round trip failed: %v", g+2, r.err)
				}
				it, _ := r.rep.Item()
				a := ""
				if it != nil {
					a, _ = it.ToASCII()
				}
				if a != "good" {
					fail("generation %d: the reply delivered is %q, the generation's own peer sent \"good\"", g+2, a)
				}
				if got := dl.take(); len(got) != 0 {
					fail("generation %d: %d messages written by the OLD peer on the old socket were delivered", g+2, len(got))
				}
				for _, rf := range old.Take() {
					logf("old socket got %v", rf.F)
					fail("generation %d: the library answered the old peer on the old socket: %v", g+2, rf.F)
				}
				if err := w.conn.Close(); err != nil {
					fail("Close of generation %d: %v", g+2, err)
				}
				p.Close()
				if w.ln != nil {
					_ = w.ln.Close()
				}
				synctest.Wait()
				if l := w.leaked(); len(l) > 0 {
					fail("after the Close of generation %d still open: %v", g+2, l)
				}
				logf("generation %d ok", g+2)
			}
			ev.Case(true, fmt.Sprintf("%v/%s/%d/%v", active, preload, reopens, closeTO), func() any { return hist }, "c09b:preload:"+preload, fmt.Sprintf("c09b:reopens:%d", reopens))
		})
	})
}

// TestC09StalledWriteEnd (REAL time): a generation ends while a write of that generation is stalled
// inside the transport (the peer stopped reading) and further senders queue behind it. A bubble
// cannot run this (goroutines waiting on the write lock while a deadline must fire), so the bounds
// are upper bounds with seconds of slack against a write timeout of 20 s.
func TestC09StalledWriteEnd(t *testing.T) {
	ev.Rule("HSMS-SS, both roles, real time: Selected; the peer stops reading (window 0-64 bytes); 1 sender blocks mid-write, 0-3 more senders (sync with/without reply, async) queue behind it; write timeout 20 s, close timeout 1 s, T3 30 s; the generation is then ended by Close / the peer closing (FIN) / the peer resetting. Oracle: every one of those sends returns an error within 3 s (none reports success: the peer never read a byte of them), Close returns within close timeout + 3 s, after Close the state is NotConnected and every socket handed to the library is closed; non-trivial = at least one sender queued behind the stalled one")
	// Close's error is decided by a wall-clock race inside the library (epoch.join: transport stop and
	// task join share one deadline); when this process was starved the harness, not the library, lost
	// it: such a close-timeout report is inconclusive (seen once with 16 checks running at once).
	lag := vt.StartLag()
	defer lag.Stop()
	vt.Check(t, 120, 6000, func(rt *rapid.T) {
		active := rapid.Bool().Draw(rt, "active")
		window := rapid.SampledFrom([]int{0, 5, 14, 64}).Draw(rt, "window")
		extra := rapid.IntRange(0, 3).Draw(rt, "queued")
		end := rapid.SampledFrom([]string{"close", "close", "peer-close", "peer-reset"}).Draw(rt, "end")
		kinds := make([]string, extra)
		for i := range kinds {
			kinds[i] = rapid.SampledFrom([]string{"syncW", "syncNoW", "async"}).Draw(rt, "kind")
		}
		w, err := newWorld(worldOpt{active: active, connOpts: []hsms.ConnOption{hsms.WithT3(30 * time.Second), hsms.WithT5(50 * time.Millisecond), hsms.WithT6(5 * time.Second),
			hsms.WithT7(10 * time.Second), hsms.WithT8(5 * time.Second), hsms.WithWriteTimeout(20 * time.Second), hsms.WithCloseTimeout(time.Second), hsms.WithReconnectBackoff(20*time.Millisecond, 2)}})
		if err != nil {
			rt.Fatalf("VERIF-INFRA: %v", err)
		}
		w.realTime = true
		var hist []string
		var hmu sync.Mutex
		t0 := time.Now()
		logf := func(f string, a ...any) {
			hmu.Lock()
			hist = append(hist, fmt.Sprintf("+%4dms ", time.Since(t0).Milliseconds())+fmt.Sprintf(f, a...))
			hmu.Unlock()
		}
		fail := func(f string, a ...any) {
			buf := make([]byte, 1<<19)
			n := runtime.Stack(buf, true)
			hmu.Lock()
			h := strings.Join(hist, "\n  ")
			hmu.Unlock()
			rt.Fatalf("C09 violated (active=%v window=%d queued=%v end=%s): %s\nhistory:\n  %s\ngoroutines:\n%s", active, window, kinds, end, fmt.Sprintf(f, a...), h, buf[:n])
		}
		if err := w.conn.Open(context.Background(), hsms.OpenBackground); err != nil {
			rt.Fatalf("VERIF-INFRA: open: %v", err)
		}
		p, err := w.peerUp(5 * time.Second)
		if err != nil {
			rt.Fatalf("VERIF-INFRA: %v", err)
		}
		closed := make(chan struct{})
		defer func() {
			p.Close()
			if w.ln != nil {
				_ = w.ln.Close()
			}
			go func() { _ = w.conn.Close(); close(closed) }()
			select {
			case <-closed:
			case <-time.After(5 * time.Second):
			}
		}()
		if err := w.selectAsPeer(p, 0x5e1ec7); err != nil {
			rt.Fatalf("VERIF-INFRA: select: %v", err)
		}
		if !waitState(w.conn, hsms.SelectedState, 3*time.Second) {
			rt.Fatalf("VERIF-INFRA: never Selected")
		}
		p.C.SetInboundWindow(window)
		p.C.StallInbound(true)
		type res struct {
			kind   string
			queued bool // started behind the stalled writer
			err    error
			at     time.Time
		}
		results := make(chan res, 8)
		dropsBefore := w.conn.Metrics().DataMsgDropNotSelectedCount()
		send := func(kind string, queued bool) {
			ctx, cancel := ctxT(40 * time.Second)
			defer cancel()
			var e error
			body := secs2.A(strings.Repeat("stalled ", 64))
			switch kind {
			case "syncW":
				_, e = w.conn.SendDataMessage(ctx, 1, 1, true, body)
			case "syncNoW":
				_, e = w.conn.SendDataMessage(ctx, 1, 1, false, body)
			default:
				e = w.conn.SendDataMessageAsync(ctx, 1, 1, false, body)
				if e == nil {
					e = errAsyncAccepted
				}
			}
			results <- res{kind, queued, e, time.Now()}
		}
		go send("syncNoW", false)
		time.Sleep(20 * time.Millisecond) // the first sender is inside the transport write now
		syncQueued := 0
		anyAsync := 0
		for _, k := range kinds {
			go send(k, true)
			if k != "async" {
				syncQueued++
			} else {
				anyAsync = 1 // the generation's async sender goroutine queues on the write lock too
			}
		}
		time.Sleep(20 * time.Millisecond)
		// REAL time: on a busy machine those goroutines may not have run yet. The senders are "queued
		// behind the stalled write" only once they sit in writeFrame waiting for the write lock, which
		// the goroutine dump shows; if that is not reached within 2 s the error-identity assertion below
		// is not made (a send that starts after Close is refused at the entry gate, legitimately).
		admitted := false
		for dl := time.Now().Add(2 * time.Second); time.Now().Before(dl); time.Sleep(5 * time.Millisecond) {
			if blockedInWriteFrame() >= syncQueued+anyAsync {
				admitted = true
				break
			}
		}
		if !admitted {
			ev.Count("inconclusive_senders_not_yet_queued", 1)
		}
		logf("1 sender mid-write, %d behind it (all queued on the write lock: %v)", extra, admitted)
		endAt := time.Now()
		closeRes := make(chan error, 1)
		switch end {
		case "close":
			go func() { closeRes <- w.conn.Close() }()
		case "peer-close":
			_ = p.C.Close()
		case "peer-reset":
			p.C.Reset()
			_ = p.C.Close()
		}
		pendingN := 1 + extra
		transportErrs := 0
		deadline := time.After(3 * time.Second)
		for i := 0; i < pendingN; i++ {
			select {
			case r := <-results:
				logf("%s returned %v %v after the generation ended", r.kind, r.err, r.at.Sub(endAt).Round(time.Millisecond))
				if r.err == nil {
					fail("a %s send returned success although the peer never read a byte of it", r.kind)
				}
				// Which of the synchronous senders holds the write lock (stalled in the transport) and which
				// wait for it is decided by the scheduler, not by the order in which they were started. So:
				// when Close ends the generation, AT MOST ONE of them - the one inside the transport write -
				// may report a transport error; every other one was admitted while Selected and is still
				// waiting for the lock when teardown cancels the generation: it ends with the connection-
				// closed error (C09), never with the "not selected" refusal of a send that was not admitted.
				if end == "close" && admitted && r.kind != "async" {
					switch {
					case errors.Is(r.err, hsms.ErrConnClosed), errors.Is(r.err, context.DeadlineExceeded):
					case errors.Is(r.err, hsms.ErrNotSelectedState):
						fail("a %s send that was waiting for the write lock when Close ended the generation returned %v, want the connection-closed error", r.kind, r.err)
					default:
						transportErrs++
						if transportErrs > 1 {
							fail("two synchronous sends report a transport error (%v) when Close ended the generation: only one of them can have been inside the transport write, the others were waiting for the write lock and must end with the connection-closed error", r.err)
						}
					}
				}
			case <-deadline:
				fail("%d of %d sends of the ended generation (mid-write or queued for the write lock) have not returned 3 s after %s (write timeout is 20 s)", pendingN-i, pendingN, end)
			}
		}
		if d := w.conn.Metrics().DataMsgDropNotSelectedCount() - dropsBefore; d != 0 && end == "close" && admitted {
			fail("%d sends that were admitted while Selected were counted as not-selected drops when the generation ended", d)
		}
		if end == "close" {
			select {
			case e := <-closeRes:
				if e != nil {
					if errors.Is(e, hsms.ErrCloseTimeout) && lag.Max() > c10MaxLag {
						rt.Skip(fmt.Sprintf("inconclusive: Close returned %v, but this process was scheduled %v late (limit %v)", e, lag.Max(), c10MaxLag))
					}
					fail("Close returned %v", e)
				}
			case <-time.After(4 * time.Second):
				fail("Close has not returned 4 s after it was called (close timeout 1 s, write timeout 20 s)")
			}
			if got := w.conn.State(); got != hsms.NotConnectedState {
				fail("State()=%v after Close", got)
			}
			dl := time.Now().Add(2 * time.Second)
			for len(w.leaked()) > 0 && time.Now().Before(dl) {
				time.Sleep(5 * time.Millisecond)
			}
			if l := w.leaked(); len(l) > 0 {
				fail("still open after Close: %v", l)
			}
		}
		role := "passive"
		if active {
			role = "active"
		}
		ev.Case(extra > 0, fmt.Sprint(active, window, kinds, end), func() any { return hist }, "c09c:end:"+end, "c09c:role:"+role)
	})
}

// errAsyncAccepted marks an async send that was accepted into the queue (its frame can only be
// discarded when the generation ends; the call itself has nothing more to report).
var errAsyncAccepted = fmt.Errorf("accepted into the send queue")

// TestC09CloseAtRetry: Close lands at exactly the virtual instant at which the reconnect loop wakes
// from a backoff sleep and publishes / dials its next generation (the peer is reachable again, so the
// attempt would succeed). Close and the loop race for real; whichever wins, no generation may outlive
// Close: everything handed to the library is closed, nothing is dialled or listened afterwards.
func TestC09CloseAtRetry(t *testing.T) {
	ev.Rule("HSMS-SS, both roles, virtual time; backoff 10 ms x2, T5 40 ms; a Selected generation is dropped by the peer (close or reset), 0-2 re-dials are refused / re-listens fail, then the peer is reachable again; Close is called exactly when the next attempt is due (or 1 ms before / after). Oracle: Close returns nil within the close timeout; afterwards State() is NotConnected, every socket and listener handed to the library is closed, a peer that was accepted in the race reads EOF, and for 1 s nothing is dialled, listened or accepted; a re-Open then works; non-trivial = always")
	vt.Bubble(t, func(t *testing.T) {
		vt.CheckBubble(t, 24000, 400000, func(rt *rapid.T) {
			active := rapid.Bool().Draw(rt, "active")
			refusals := rapid.IntRange(0, 2).Draw(rt, "refusals")
			off := time.Duration(rapid.SampledFrom([]int{0, 0, 0, -1, 1}).Draw(rt, "offMs")) * time.Millisecond
			w, err := newWorld(worldOpt{active: active, connOpts: []hsms.ConnOption{hsms.WithT3(time.Second), hsms.WithT5(40 * time.Millisecond), hsms.WithT6(time.Second), hsms.WithT7(5 * time.Second),
				hsms.WithReconnectBackoff(10*time.Millisecond, 2), hsms.WithCloseTimeout(time.Second)}})
			if err != nil {
				rt.Fatalf("VERIF-INFRA: %v", err)
			}
			var peers []*netsim.Peer
			var hist []string
			t0 := time.Now()
			logf := func(f string, a ...any) {
				hist = append(hist, fmt.Sprintf("+%v ", time.Since(t0))+fmt.Sprintf(f, a...))
			}
			fail := func(f string, a ...any) {
				var evs []string
				for _, e := range w.nw.Events() {
					evs = append(evs, fmt.Sprintf("+%v %s", e.At.Sub(t0), e.Kind))
				}
				rt.Fatalf("C09 violated (active=%v refusals=%d close offset %v): %s\nhistory:\n  %s\ndial/listen log:\n  %s", active, refusals, off, fmt.Sprintf(f, a...), strings.Join(hist, "\n  "), strings.Join(evs, "\n  "))
			}
			defer func() {
				_ = w.conn.Close()
				for _, p := range peers {
					p.Close()
				}
				if w.ln != nil {
					_ = w.ln.Close()
				}
				synctest.Wait()
			}()
			if err := w.conn.Open(context.Background(), hsms.OpenBackground); err != nil {
				rt.Fatalf("VERIF-INFRA: open: %v", err)
			}
			p, err := w.peerUp(time.Second)
			if err != nil {
				rt.Fatalf("VERIF-INFRA: %v", err)
			}
			peers = append(peers, p)
			if err := w.selectAsPeer(p, 0x0100); err != nil {
				rt.Fatalf("VERIF-INFRA: select: %v", err)
			}
			if active {
				w.nw.RefuseNextDials(refusals)
			} else {
				w.nw.FailNextListens(refusals)
			}
			if rapid.Bool().Draw(rt, "reset") {
				p.C.Reset()
			}
			_ = p.C.Close()
			synctest.Wait()
			dropAt := time.Now()
			// attempts are due 10, 30, 70 ms after the drop (10, 20, 40): the first one that is not refused
			due := []time.Duration{10, 30, 70}[refusals] * time.Millisecond
			// a harness acceptor for whatever the racing attempt manages to establish
			var raced *netsim.Peer
			accDone := make(chan struct{})
			go func() {
				defer close(accDone)
				if active {
					if c, err := w.ln.Accept(); err == nil {
						raced = netsim.NewPeer(c.(*netsim.Conn))
					}
				}
			}()
			time.Sleep(time.Until(dropAt.Add(due + off)))
			// both goroutines are runnable at this virtual instant and run in parallel; a drawn busy-wait
			// (real time, up to a few microseconds) shifts Close's phase against the loop's
			for i, n := 0, rapid.IntRange(0, 4000).Draw(rt, "spin"); i < n; i++ {
				spinSink.Add(1)
			}
			st := time.Now()
			cerr := w.conn.Close()
			d := time.Since(st)
			logf("Close at drop+%v -> %v after %v", due+off, cerr, d)
			if cerr != nil {
				fail("Close returned %v", cerr)
			}
			if d > time.Second {
				fail("Close took %v (close timeout 1 s)", d)
			}
			synctest.Wait()
			if got := w.conn.State(); got != hsms.NotConnectedState {
				fail("State()=%v after Close", got)
			}
			ne := len(w.nw.Events())
			time.Sleep(time.Second)
			synctest.Wait()
			if w.ln != nil {
				_ = w.ln.Close()
			}
			<-accDone
			if raced != nil {
				peers = append(peers, raced)
				if !raced.WaitEOF(time.Second) {
					fail("a connection established by the attempt that raced Close is still open 1 s after Close returned (a generation outlived Close)")
				}
			}
			if l := w.leaked(); len(l) > 0 {
				fail("still open 1 s after Close: %v", l)
			}
			if !active && w.nw.Listening(w.addr) {
				fail("the endpoint is listening again 1 s after Close (a generation outlived Close)")
			}
			if evs := w.nw.Events(); len(evs) != ne {
				fail("a %s happened after Close had returned", evs[ne].Kind)
			}
			if got := w.conn.State(); got != hsms.NotConnectedState {
				fail("State()=%v one second after Close", got)
			}
			// and the connection can be opened again
			if active {
				_ = w.listen()
			}
			if err := w.conn.Open(context.Background(), hsms.OpenBackground); err != nil {
				fail("re-Open: %v", err)
			}
			p2, err := w.peerUp(time.Second)
			if err != nil {
				fail("re-Open: no link: %v", err)
			}
			peers = append(peers, p2)
			if err := w.selectAsPeer(p2, 0x0200); err != nil {
				fail("re-Open: select: %v", err)
			}
			if !barrier(p2, 3, time.Second) {
				fail("the re-opened connection does not answer a Linktest.req")
			}
			role := "passive"
			if active {
				role = "active"
			}
			ev.Case(true, fmt.Sprint(active, refusals, off), func() any { return hist }, "c09r:role:"+role, fmt.Sprintf("c09r:offset:%v", off))
		})
	})
}

var spinSink atomic.Int64

// TestC09BusyHandlerEnd: a generation ends while the application's data handler (which runs inline
// on the receive path) is still busy, so the generation's goroutines take a while to unwind. Sends
// that are waiting for their reply must not wait for that: they complete with the connection-closed
// error at the instant the generation ends.
func TestC09BusyHandlerEnd(t *testing.T) {
	ev.Rule("HSMS-SS, both roles, virtual time; T3 5 s, close timeout 2 s; the data handler sleeps 300-1500 ms on a trigger message; 1-4 reply-expected sends are waiting for their replies (the peer never answers); then the generation is ended by a peer reset, a peer close or Close. Oracle: every waiting send returns ErrConnClosed no later than 20 ms (virtual) after Close was called, or 20 ms after the busy handler returned when the peer ended the link (the receive path cannot notice earlier) - not at T3, not at the close timeout; non-trivial = always")
	vt.Bubble(t, func(t *testing.T) {
		vt.CheckBubble(t, 600, 30000, func(rt *rapid.T) {
			active := rapid.Bool().Draw(rt, "active")
			busy := time.Duration(rapid.SampledFrom([]int{300, 800, 1500}).Draw(rt, "handlerBusyMs")) * time.Millisecond
			n := rapid.IntRange(1, 4).Draw(rt, "waiting")
			end := rapid.SampledFrom([]string{"peer-reset", "peer-close", "close"}).Draw(rt, "end")
			w, err := newWorld(worldOpt{active: active, connOpts: []hsms.ConnOption{hsms.WithT3(5 * time.Second), hsms.WithT5(time.Hour), hsms.WithReconnectBackoff(time.Hour, 1), hsms.WithT6(10 * time.Second),
				hsms.WithT7(time.Hour), hsms.WithT8(time.Hour), hsms.WithCloseTimeout(2 * time.Second)}})
			if err != nil {
				rt.Fatalf("VERIF-INFRA: %v", err)
			}
			w.conn.AddDataMessageHandler(func(m *hsms.DataMessage, _ hsms.SECS2Endpoint) {
				if m.Stream() == 99 {
					time.Sleep(busy)
				}
			})
			var p *netsim.Peer
			var bg sync.WaitGroup
			defer func() {
				bg.Wait()
				_ = w.conn.Close()
				if p != nil {
					p.Close()
				}
				if w.ln != nil {
					_ = w.ln.Close()
				}
				synctest.Wait()
			}()
			if err := w.conn.Open(context.Background(), hsms.OpenBackground); err != nil {
				rt.Fatalf("VERIF-INFRA: %v", err)
			}
			if p, err = w.peerUp(time.Second); err != nil {
				rt.Fatalf("VERIF-INFRA: %v", err)
			}
			if active && w.ln != nil {
				_ = w.ln.Close()
			}
			if err := w.selectAsPeer(p, 99); err != nil {
				rt.Fatalf("VERIF-INFRA: %v", err)
			}
			type res struct {
				err error
				at  time.Time
			}
			results := make(chan res, n)
			for i := 0; i < n; i++ {
				bg.Add(1)
				go func(i int) {
					defer bg.Done()
					_, e := w.conn.SendDataMessage(context.Background(), 1, 1, true, secs2.A(fmt.Sprintf("waiting-%d", i)))
					results <- res{e, time.Now()}
				}(i)
			}
			synctest.Wait()
			_ = p.Send(e37.DataFrame(0xffff, 99, 1, false, 0x9901, nil)) // the handler is now busy
			synctest.Wait()
			time.Sleep(10 * time.Millisecond)
			endAt := time.Now()
			closeDone := make(chan error, 1)
			switch end {
			case "peer-reset":
				p.C.Reset()
				_ = p.C.Close()
			case "peer-close":
				_ = p.C.Close()
			case "close":
				bg.Add(1)
				go func() { defer bg.Done(); closeDone <- w.conn.Close() }()
			}
			// Close ends the generation at once. A peer reset / close is only NOTICED when the receive
			// path reads again, i.e. when the busy handler has returned: that is when the generation ends.
			bound := 20 * time.Millisecond
			if end != "close" {
				bound += busy
			}
			time.Sleep(bound)
			synctest.Wait()
			for i := 0; i < n; i++ {
				select {
				case r := <-results:
					if !errors.Is(r.err, hsms.ErrConnClosed) {
						rt.Fatalf("C09 violated (active=%v end=%s handler busy %v): a send waiting for its reply when the generation ended returned %v, want the connection-closed error", active, end, busy, r.err)
					}
					if d := r.at.Sub(endAt); d > bound {
						rt.Fatalf("C09 violated (active=%v end=%s handler busy %v): a send waiting for its reply returned %v after the generation ended (bound %v)", active, end, busy, d, bound)
					}
				default:
					rt.Fatalf("C09 violated (active=%v end=%s handler busy %v): %d of %d sends waiting for their replies have not returned %v after the end (they wait for the close timeout or T3)", active, end, busy, n-i, n, bound)
				}
			}
			if end == "close" {
				select {
				case e := <-closeDone:
					_ = e
				case <-time.After(3 * time.Second):
					rt.Fatalf("C09 violated: Close did not return within the close timeout + 1 s while a handler was busy for %v", busy)
				}
			}
			role := "passive"
			if active {
				role = "active"
			}
			ev.Case(true, fmt.Sprint(active, busy, n, end), func() any {
				return fmt.Sprintf("%s, handler busy %v, %d waiting sends, ended by %s", role, busy, n, end)
			}, "c09h:end:"+end)
		})
	})
}

// blockedInWriteFrame counts the goroutines that are inside the library's writeFrame waiting for the
// per-generation write lock (from the goroutine dump: the only way to KNOW that a sender has passed
// the entry gate and is queued behind another write).
func blockedInWriteFrame() int {
	buf := make([]byte, 1<<20)
	n := runtime.Stack(buf, true)
	c := 0
	for _, g := range strings.Split(string(buf[:n]), "\n\n") {
		if strings.Contains(g, "hsms.(*connection).writeFrame") && strings.Contains(g, "sync.(*Mutex).Lock") {
			c++
		}
	}
	return c
}

// TestC09SlowAsyncErrorHandler: the fire-and-forget sender of generation N is still busy - inside the
// application's async-send error callback - when generation N+1 is already Selected; frames still
// queued on N are N's: they are discarded, never written to N+1's socket.
func TestC09SlowAsyncErrorHandler(t *testing.T) {
	ev.Rule("HSMS-SS, both roles, virtual time; close timeout 300 ms; WithAsyncSendErrorHandler set to a callback that blocks 0.5-1.5 s; generation N is Selected, the peer stops reading, 3-8 fire-and-forget sends with unique tokens are queued (the first is inside the write), the peer resets the link: the write fails, the callback blocks beyond the close timeout, the library reconnects and generation N+1 is selected; the callback returns; then 1-3 sends of generation N+1. Oracle: the peer of N+1 receives exactly the tokens sent on N+1, none of N's; non-trivial = always")
	vt.Bubble(t, func(t *testing.T) {
		vt.CheckBubble(t, 500, 20000, func(rt *rapid.T) {
			active := rapid.Bool().Draw(rt, "active")
			block := time.Duration(rapid.SampledFrom([]int{500, 900, 1500}).Draw(rt, "callbackBlocksMs")) * time.Millisecond
			queued := rapid.IntRange(3, 8).Draw(rt, "queued")
			later := rapid.IntRange(1, 3).Draw(rt, "later")
			var calls atomic.Int32
			w, err := newWorld(worldOpt{active: active, connOpts: []hsms.ConnOption{hsms.WithT3(time.Second), hsms.WithT5(20 * time.Millisecond), hsms.WithReconnectBackoff(10*time.Millisecond, 1),
				hsms.WithT6(5 * time.Second), hsms.WithT7(time.Hour), hsms.WithT8(time.Hour), hsms.WithCloseTimeout(300 * time.Millisecond), hsms.WithWriteTimeout(time.Hour),
				hsms.WithAsyncSendErrorHandler(func(hsms.Message, error) {
					if calls.Add(1) == 1 {
						time.Sleep(block)
					}
				})}})
			if err != nil {
				rt.Fatalf("VERIF-INFRA: %v", err)
			}
			var peers []*netsim.Peer
			defer func() {
				_ = w.conn.Close()
				for _, p := range peers {
					p.Close()
				}
				if w.ln != nil {
					_ = w.ln.Close()
				}
				synctest.Wait()
			}()
			if err := w.conn.Open(context.Background(), hsms.OpenBackground); err != nil {
				rt.Fatalf("VERIF-INFRA: %v", err)
			}
			up := func() *netsim.Peer {
				p, err := w.peerUp(5 * time.Second)
				if err != nil {
					rt.Fatalf("C09 violated: the link was not (re-)established: %v", err)
				}
				peers = append(peers, p)
				if err := w.selectAsPeer(p, 0x0100+uint32(len(peers))); err != nil {
					rt.Fatalf("VERIF-INFRA: select: %v", err)
				}
				return p
			}
			p1 := up()
			p1.C.SetInboundWindow(0)
			p1.C.StallInbound(true)
			for i := 0; i < queued; i++ {
				ctx, cancel := ctxT(10 * time.Millisecond)
				_ = w.conn.SendDataMessageAsync(ctx, 1, 1, false, secs2.A(fmt.Sprintf("t%d", i)))
				cancel()
			}
			synctest.Wait()
			p1.C.Reset()
			_ = p1.C.Close()
			synctest.Wait()
			p2 := up() // generation N+1, while the callback of N is still blocked
			if calls.Load() == 0 {
				rt.Fatalf("VERIF-INFRA: the async-send error callback was never invoked")
			}
			time.Sleep(block + 100*time.Millisecond) // the callback returns; N's sender wakes up
			synctest.Wait()
			for i := 0; i < later; i++ {
				ctx, cancel := ctxT(100 * time.Millisecond)
				if e := w.conn.SendDataMessageAsync(ctx, 1, 1, false, secs2.A(fmt.Sprintf("t%d", 1000+i))); e != nil {
					cancel()
					rt.Fatalf("C09 violated: a fire-and-forget send on the new generation was refused: %v", e)
				}
				cancel()
			}
			synctest.Wait()
			var got []int
			for _, rf := range p2.Frames() {
				if k, ok := tokenOf(rf.F); ok {
					got = append(got, k)
				}
			}
			for _, k := range got {
				if k < 1000 {
					rt.Fatalf("C09 violated (active=%v, callback blocked %v): the peer of the NEW generation received t%d, a fire-and-forget message queued on the previous generation (tokens received: %v)", active, block, k, got)
				}
			}
			if len(got) != later {
				rt.Fatalf("C09 violated: %d fire-and-forget sends on the new generation, the peer received %v", later, got)
			}
			role := "passive"
			if active {
				role = "active"
			}
			ev.Case(true, fmt.Sprint(active, block, queued, later), func() any {
				return fmt.Sprintf("%s: %d queued on the dying generation, callback blocked %v, %d sent afterwards", role, queued, block, later)
			}, "c09a:role:"+role)
		})
	})
}
