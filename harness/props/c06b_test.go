package props

// C06 (coincidences, virtual time): the peer's reply (or a duplicate of it) reaches the library at
// EXACTLY the virtual instant at which the waiting sender gives up (T3 or its own deadline). Both
// events are then runnable at once and race for real, so the outcome of that one call is either of
// the two - but whatever the race leaves behind must never reach ANOTHER transaction: every later
// send still gets exactly its own reply. (TestC06Replies keeps all causes apart on a lattice to have
// a single predicted outcome per call; this is the complement.)

import (
	"context"
	"errors"
	"fmt"
	"strings"
	"sync"
	"testing"
	"testing/synctest"
	"time"

	"github.com/arloliu/go-secs/v2/hsms"
	"github.com/arloliu/go-secs/v2/hsmsss"
	"github.com/arloliu/go-secs/v2/secs2"
	"pgregory.net/rapid"
	"verif/harness/ev"
	"verif/harness/netsim"
	"verif/harness/ref/e37"
	"verif/harness/vt"
)

func TestC06Coincidences(t *testing.T) {
	ev.Rule("a Selected connection (both roles, virtual time, T3 200 ms); 2-5 rounds of 2-8 concurrent reply-expected sends with unique tokens (caller deadline none or 50 ms); per transaction the peer answers at once, exactly at T3 after it read the primary, exactly at the caller's deadline, at once AND again exactly at T3 / at the deadline, or twice in one write; a last round is answered at once. Oracle: every call ends in its OWN reply (secondary, same system bytes, the body built for its token) or in the timeout / deadline error its plan allows - never in another transaction's reply, never (nil, nil); in the last round every call gets its own reply; non-trivial = at least 3 replies were timed to coincide with a give-up")
	vt.Bubble(t, func(t *testing.T) {
		vt.CheckBubble(t, 8000, 200000, func(rt *rapid.T) {
			active := rapid.Bool().Draw(rt, "active")
			const T3 = 200 * time.Millisecond
			const callerDL = 50 * time.Millisecond
			w, err := newWorld(worldOpt{active: active, connOpts: []hsms.ConnOption{hsms.WithT3(T3), hsms.WithT6(5 * time.Second), hsms.WithT7(time.Hour), hsms.WithT8(time.Hour)}})
			if err != nil {
				rt.Fatalf("VERIF-INFRA: %v", err)
			}
			w.conn.AddDataMessageHandler(func(*hsms.DataMessage, hsms.SECS2Endpoint) {})
			var p *netsim.Peer
			var bg sync.WaitGroup
			defer func() {
				bg.Wait()
				_ = w.conn.Close()
				if p != nil {
					p.Close()
				}
				if w.ln != nil {
					_ = w.ln.Close()
				}
				synctest.Wait()
			}()
			if err := w.conn.Open(context.Background(), hsms.OpenBackground); err != nil {
				rt.Fatalf("VERIF-INFRA: %v", err)
			}
			if p, err = w.peerUp(time.Second); err != nil {
				rt.Fatalf("VERIF-INFRA: %v", err)
			}
			if err := w.selectAsPeer(p, 99); err != nil {
				rt.Fatalf("VERIF-INFRA: %v", err)
			}
			// plan: token -> how the peer answers
			var pmu sync.Mutex
			plan := map[int]string{}
			p.SetAuto(true, false)
			p.SetOnFrame(func(f e37.Frame) {
				k, ok := tokenOf(f)
				if !ok || !f.WBit() {
					return
				}
				pmu.Lock()
				how := plan[k]
				pmu.Unlock()
				reply := e37.DataFrame(f.Session, f.Stream(), f.Function()+1, false, f.Sys, asciiBody(fmt.Sprintf("re%d", k)))
				later := func(d time.Duration) {
					bg.Add(1)
					go func() {
						defer bg.Done()
						time.Sleep(d)
						_ = p.Send(reply)
					}()
				}
				switch how {
				case "now":
					_ = p.Send(reply)
				case "at-t3":
					later(T3)
				case "at-deadline":
					later(callerDL)
				case "now+at-t3":
					_ = p.Send(reply)
					later(T3)
				case "now+at-deadline":
					_ = p.Send(reply)
					later(callerDL)
				case "twice":
					_ = p.Send(reply, reply)
				}
			})
			var hist []string
			fail := func(f string, a ...any) {
				rt.Fatalf("C06 violated (active=%v): %s\nhistory:\n  %s", active, fmt.Sprintf(f, a...), strings.Join(hist, "\n  "))
			}
			rounds := rapid.IntRange(2, 5).Draw(rt, "rounds")
			tok := 0
			coincidences := 0
			for r := 0; r <= rounds; r++ {
				last := r == rounds
				k := rapid.IntRange(2, 8).Draw(rt, "senders")
				type call struct {
					tok      int
					how      string
					deadline bool
					rep      *hsms.DataMessage
					err      error
				}
				calls := make([]*call, k)
				for i := range calls {
					c := &call{tok: tok, how: "now"}
					tok++
					if !last {
						c.how = rapid.SampledFrom([]string{"now", "at-t3", "at-t3", "at-deadline", "now+at-t3", "now+at-deadline", "twice"}).Draw(rt, "how")
						c.deadline = strings.Contains(c.how, "deadline") || rapid.IntRange(0, 3).Draw(rt, "dl") == 0
					}
					if c.how != "now" {
						coincidences++
					}
					pmu.Lock()
					plan[c.tok] = c.how
					pmu.Unlock()
					calls[i] = c
				}
				var wg sync.WaitGroup
				for _, c := range calls {
					wg.Add(1)
					go func(c *call) {
						defer wg.Done()
						ctx := context.Background()
						if c.deadline {
							var cancel context.CancelFunc
							ctx, cancel = context.WithTimeout(ctx, callerDL)
							defer cancel()
						}
						c.rep, c.err = w.conn.SendDataMessage(ctx, 1, 1, true, secs2.A(fmt.Sprintf("t%d", c.tok)))
					}(c)
				}
				wg.Wait()
				time.Sleep(T3 + 10*time.Millisecond) // late duplicates of this round arrive (and must be dropped)
				synctest.Wait()
				for _, c := range calls {
					out := "?"
					switch {
					case c.err == nil && c.rep == nil:
						fail("send t%d returned (nil, nil)", c.tok)
					case c.err == nil:
						it, ierr := c.rep.Item()
						got := "<undecodable>"
						if ierr == nil && it != nil {
							got, _ = it.ToASCII()
						}
						if want := fmt.Sprintf("re%d", c.tok); got != want || c.rep.Function() != 2 {
							fail("send t%d (peer plan %q) received the reply %q (S%dF%d) - its own reply is %q", c.tok, c.how, got, c.rep.Stream(), c.rep.Function(), want)
						}
						out = "own reply"
					case errors.Is(c.err, hsms.ErrT3Timeout):
						if c.how != "at-t3" || last {
							fail("send t%d (peer plan %q, deadline=%v) ended in T3 although a reply was sent before T3", c.tok, c.how, c.deadline)
						}
						out = "T3"
					case errors.Is(c.err, context.DeadlineExceeded):
						if !c.deadline || (c.how != "at-deadline" && c.how != "at-t3") || last {
							fail("send t%d (peer plan %q, deadline=%v) ended in %v", c.tok, c.how, c.deadline, c.err)
						}
						out = "deadline"
					default:
						fail("send t%d (peer plan %q) ended in %v", c.tok, c.how, c.err)
					}
					hist = append(hist, fmt.Sprintf("round %d t%d %s -> %s", r, c.tok, c.how, out))
				}
				if w.conn.State() != hsms.SelectedState {
					fail("State()=%v after round %d", w.conn.State(), r)
				}
			}
			role := "passive"
			if active {
				role = "active"
			}
			ev.Case(coincidences >= 3, strings.Join(hist, "|")+role, func() any { return hist }, "c06c:role:"+role)
		})
	})
}

// TestC06QueueFullT3: a reply-expected send runs into T3 while the fire-and-forget queue is full
// (the peer stopped reading; equipment role: the library then wants to queue an S9F9). Whatever that
// corner does internally, the sends that FOLLOW must still each get their own reply, or T3 exactly T3
// after their primary was written - nothing of the earlier timeout may leak into later waits.
func TestC06QueueFullT3(t *testing.T) {
	ev.Rule("HSMS-SS (both roles; equipment or host role; sender queue size 1-3; T3 200 ms), virtual time: one reply-expected send is written and never answered; the peer stops reading; queue size + 1 fire-and-forget sends fill the write path and the queue; T3 expires while it is full; the peer reads again; then 2-4 rounds of 2-6 overlapping reply-expected sends whose replies the peer returns after a drawn delay (0 / 30 / 90 / 150 ms) or never. Oracle: the first send ends in T3 (at T3 or, while the queue is full, when it drains); every later send returns its OWN reply at exactly the drawn delay after its primary was read, or ErrT3Timeout at exactly T3 after it; non-trivial = equipment role (the S9F9 path) and at least one later send ends in T3")
	vt.Bubble(t, func(t *testing.T) {
		vt.CheckBubble(t, 1500, 60000, func(rt *rapid.T) {
			active, equip := rapid.Bool().Draw(rt, "active"), rapid.IntRange(0, 3).Draw(rt, "equip") > 0
			qsize := rapid.IntRange(1, 3).Draw(rt, "queue")
			const T3 = 200 * time.Millisecond
			w, err := newWorld(worldOpt{active: active, equip: equip, connOpts: []hsms.ConnOption{hsms.WithT3(T3), hsms.WithT6(5 * time.Second), hsms.WithT7(time.Hour), hsms.WithT8(time.Hour),
				hsms.WithSenderQueueSize(qsize), hsms.WithWriteTimeout(time.Hour)}})
			if err != nil {
				rt.Fatalf("VERIF-INFRA: %v", err)
			}
			w.conn.AddDataMessageHandler(func(*hsms.DataMessage, hsms.SECS2Endpoint) {})
			var p *netsim.Peer
			var bg sync.WaitGroup
			defer func() {
				if p != nil {
					p.C.StallInbound(false)
					p.C.SetInboundWindow(1 << 20)
				}
				bg.Wait()
				_ = w.conn.Close()
				if p != nil {
					p.Close()
				}
				if w.ln != nil {
					_ = w.ln.Close()
				}
				synctest.Wait()
			}()
			if err := w.conn.Open(context.Background(), hsms.OpenBackground); err != nil {
				rt.Fatalf("VERIF-INFRA: %v", err)
			}
			if p, err = w.peerUp(time.Second); err != nil {
				rt.Fatalf("VERIF-INFRA: %v", err)
			}
			if err := w.selectAsPeer(p, 99); err != nil {
				rt.Fatalf("VERIF-INFRA: %v", err)
			}
			var hist []string
			fail := func(f string, a ...any) {
				rt.Fatalf("C06 violated (active=%v equip=%v queue=%d): %s\nhistory:\n  %s", active, equip, qsize, fmt.Sprintf(f, a...), strings.Join(hist, "\n  "))
			}
			// plan: token -> reply delay (-1: never)
			var pmu sync.Mutex
			plan := map[int]time.Duration{}
			readAt := map[int]time.Time{}
			p.SetAuto(true, false)
			p.SetOnFrame(func(f e37.Frame) {
				k, ok := tokenOf(f)
				if !ok || !f.WBit() {
					return
				}
				pmu.Lock()
				d, planned := plan[k]
				readAt[k] = time.Now()
				pmu.Unlock()
				if !planned || d < 0 {
					return
				}
				reply := e37.DataFrame(f.Session, f.Stream(), f.Function()+1, false, f.Sys, asciiBody(fmt.Sprintf("re%d", k)))
				bg.Add(1)
				go func() {
					defer bg.Done()
					time.Sleep(d)
					_ = p.Send(reply)
				}()
			})
			// ---- the corner: T3 expires while the queue is full ----
			plan[0] = -1
			first := make(chan error, 1)
			t0 := time.Now()
			go func() {
				_, e := w.conn.SendDataMessage(context.Background(), 1, 1, true, secs2.A("t0"))
				first <- e
			}()
			synctest.Wait()
			p.C.SetInboundWindow(0)
			p.C.StallInbound(true)
			for i := 0; i < qsize+1; i++ {
				ctx, cancel := ctxT(10 * time.Millisecond)
				_ = w.conn.SendDataMessageAsync(ctx, 6, 11, false, secs2.A(fmt.Sprintf("filler-%d", i)))
				cancel()
			}
			synctest.Wait()
			time.Sleep(T3 + 50*time.Millisecond) // T3 of the first send expires; the queue is full
			synctest.Wait()
			p.C.StallInbound(false)
			p.C.SetInboundWindow(1 << 20)
			synctest.Wait()
			select {
			case e := <-first:
				if !errors.Is(e, hsms.ErrT3Timeout) {
					fail("the unanswered send ended in %v, want T3", e)
				}
				hist = append(hist, fmt.Sprintf("first send: T3 (returned +%v)", time.Since(t0)))
			case <-time.After(time.Second):
				fail("the unanswered send did not return after its T3 expired and the queue drained")
			}
			p.Take()
			// ---- what follows must be exact ----
			tok := 1
			sawT3 := false
			rounds := rapid.IntRange(2, 4).Draw(rt, "rounds")
			for r := 0; r < rounds; r++ {
				k := rapid.IntRange(2, 6).Draw(rt, "senders")
				type call struct {
					tok   int
					delay time.Duration
					rep   *hsms.DataMessage
					err   error
					ret   time.Time
				}
				calls := make([]*call, k)
				for i := range calls {
					c := &call{tok: tok, delay: time.Duration(rapid.SampledFrom([]int{-1, 0, 30, 90, 150}).Draw(rt, "replyAfterMs")) * time.Millisecond}
					tok++
					pmu.Lock()
					plan[c.tok] = c.delay
					pmu.Unlock()
					calls[i] = c
				}
				var wg sync.WaitGroup
				for i, c := range calls {
					wg.Add(1)
					go func(i int, c *call) {
						defer wg.Done()
						time.Sleep(time.Duration(i*7) * time.Millisecond) // staggered starts: overlapping waits of different lengths
						c.rep, c.err = w.conn.SendDataMessage(context.Background(), 1, 1, true, secs2.A(fmt.Sprintf("t%d", c.tok)))
						c.ret = time.Now()
					}(i, c)
				}
				wg.Wait()
				synctest.Wait()
				for _, c := range calls {
					pmu.Lock()
					ra, seen := readAt[c.tok]
					pmu.Unlock()
					if !seen {
						fail("the primary of t%d never reached the peer", c.tok)
					}
					took := c.ret.Sub(ra)
					switch {
					case c.delay < 0:
						sawT3 = true
						if !errors.Is(c.err, hsms.ErrT3Timeout) {
							fail("t%d (never answered) ended in (%v, %v), want T3", c.tok, c.rep, c.err)
						}
						if took != T3 {
							fail("t%d: T3 reported %v after its primary reached the peer, T3 is %v (a timer of an earlier wait is at work?)", c.tok, took, T3)
						}
					default:
						if c.err != nil || c.rep == nil {
							fail("t%d (answered after %v) ended in (%v, %v) %v after its primary reached the peer", c.tok, c.delay, c.rep, c.err, took)
						}
						if got := string(c.rep.AppendBodyTo(nil)); got != string(asciiBody(fmt.Sprintf("re%d", c.tok))) {
							fail("t%d received another transaction's reply: %q", c.tok, got)
						}
						if took != c.delay {
							fail("t%d: reply delivered %v after its primary reached the peer, the peer answered after %v", c.tok, took, c.delay)
						}
					}
					hist = append(hist, fmt.Sprintf("round %d t%d delay=%v -> %v after %v", r, c.tok, c.delay, c.err, took))
				}
			}
			role := "host"
			if equip {
				role = "equipment"
			}
			ev.Case(equip && sawT3, strings.Join(hist, "|")+fmt.Sprint(active, qsize), func() any { return hist }, "c06q:role:"+role)
		})
	})
}

// TestC06SysBytesWrap: System Bytes drawn by several goroutines at once while the generator crosses
// its 32-bit wrap are pairwise distinct (uniqueness among open transactions is what lets a reply find
// its sender). Uses the hooks that position the generator and draw from it as a send does.
func TestC06SysBytesWrap(t *testing.T) {
	ev.Rule("one connection object (never opened: only its System Bytes generator is used); 2-8 goroutines start together and draw 1-6 values each, the generator having been positioned 0-20 draws before its 32-bit wrap; oracle: all values drawn in one round are pairwise distinct; 40 rounds per case; non-trivial = the wrap falls inside the round and at least 2 goroutines draw")
	vt.Check(t, 3000, 100000, func(rt *rapid.T) {
		w, err := newWorld(worldOpt{active: false})
		if err != nil {
			rt.Fatalf("VERIF-INFRA: %v", err)
		}
		inner := hsmsss.VerifInner(w.conn)
		g := rapid.IntRange(2, 8).Draw(rt, "goroutines")
		per := rapid.IntRange(1, 6).Draw(rt, "drawsEach")
		before := rapid.IntRange(0, 20).Draw(rt, "beforeWrap")
		for round := 0; round < 40; round++ {
			if !hsms.VerifSeedSystemBytes(inner, 0xFFFFFFFF-uint32(before)) {
				rt.Fatalf("VERIF-INFRA: hook does not reach the connection")
			}
			got := make([][]uint32, g)
			start := make(chan struct{})
			var wg sync.WaitGroup
			for i := 0; i < g; i++ {
				wg.Add(1)
				go func(i int) {
					defer wg.Done()
					<-start
					for k := 0; k < per; k++ {
						v, _ := hsms.VerifDrawSystemBytes(inner)
						got[i] = append(got[i], v)
					}
				}(i)
			}
			close(start)
			wg.Wait()
			seen := map[uint32]int{}
			for i := range got {
				for _, v := range got[i] {
					seen[v]++
					if seen[v] > 1 {
						rt.Fatalf("C06 violated: System Bytes %08x were handed out %d times to %d goroutines drawing %d values each across the 32-bit wrap (generator positioned %d draws before it, round %d): two open transactions would share them", v, seen[v], g, per, before, round)
					}
				}
			}
		}
		ev.Case(before < g*per, fmt.Sprint(g, per, before), func() any {
			return fmt.Sprintf("%d goroutines x %d draws, %d draws before the wrap", g, per, before)
		}, "c06w")
	})
}
