package props

// C08 under back-pressure: the peer sends a burst of frames that each need an answer and does not
// read for a while (longer than T6 in most cases). However long the answers have to wait for room,
// the frames the peer eventually reads are exactly those E37 prescribes for its frame sequence, in
// order - none is dropped because it could not be queued in time.

import (
	"context"
	"fmt"
	"testing"
	"testing/synctest"
	"time"

	"github.com/arloliu/go-secs/v2/hsms"
	"pgregory.net/rapid"
	"verif/harness/ev"
	"verif/harness/netsim"
	"verif/harness/ref/e37"
	"verif/harness/ref/fsm"
	"verif/harness/vt"
)

func TestC08Backpressure(t *testing.T) {
	ev.Rule("HSMS-SS, both roles, virtual time, a Selected link, T6 100/300 ms; the peer closes its receive window, sends a burst of 40/70/130/300 frames (a drawn palette of 3-6 frames - Linktest.req, duplicate Select.req, data, orphan responses, undefined PType / SType, control frames with a body - repeated with fresh system bytes), keeps the window closed for T6/2, 2xT6 or 5xT6 and then reads again. Oracle: the control frames the peer reads are exactly, and in order, what the ref/fsm.Responder model yields for the burst; every data frame of the burst is delivered exactly once, in order; the link stays up and Selected; non-trivial = the burst is longer than the library's send queue (64) and the window stays closed longer than T6")
	vt.Bubble(t, func(t *testing.T) {
		vt.CheckBubble(t, 300, 12000, func(rt *rapid.T) {
			active := rapid.Bool().Draw(rt, "active")
			T6 := time.Duration(rapid.SampledFrom([]int{100, 300}).Draw(rt, "t6Ms")) * time.Millisecond
			burst := rapid.SampledFrom([]int{40, 70, 130, 300}).Draw(rt, "burst")
			pause := map[string]time.Duration{"half": T6 / 2, "double": 2*T6 + time.Millisecond, "five": 5 * T6}[rapid.SampledFrom([]string{"half", "double", "five", "five"}).Draw(rt, "pause")]
			const session = 0x0707
			w, err := newWorld(worldOpt{active: active, connOpts: []hsms.ConnOption{hsms.WithSessionID(session), hsms.WithT6(T6), hsms.WithT7(time.Hour), hsms.WithT8(time.Hour), hsms.WithT3(time.Hour)}})
			if err != nil {
				rt.Fatalf("VERIF-INFRA: %v", err)
			}
			dl := &deliveries{}
			w.conn.AddDataMessageHandler(dl.handler)
			var p *netsim.Peer
			defer func() {
				_ = w.conn.Close()
				if p != nil {
					p.Close()
				}
				if w.ln != nil {
					_ = w.ln.Close()
				}
				synctest.Wait()
			}()
			if err := w.conn.Open(context.Background(), hsms.OpenBackground); err != nil {
				rt.Fatalf("VERIF-INFRA: %v", err)
			}
			if p, err = w.peerUp(time.Second); err != nil {
				rt.Fatalf("VERIF-INFRA: %v", err)
			}
			if err := w.selectAsPeer(p, 0x5e1ec7); err != nil {
				rt.Fatalf("VERIF-INFRA: %v", err)
			}
			synctest.Wait()
			p.Take()
			dl.take()
			m := &fsm.Responder{Selected: true, Session: session}
			// palette
			var palette []e37.Frame
			for len(palette) < rapid.IntRange(3, 6).Draw(rt, "palette") {
				f := genPeerFrame(rt, &fsm.Responder{Selected: true}, session, map[uint32]bool{})
				if f.PType == 0 && (f.SType == e37.SeparateReq || f.SType == e37.DeselectReq) && len(f.Body) == 0 {
					continue // these end the session; not part of this check
				}
				if len(f.Body) > 64 {
					f.Body = f.Body[:0]
				}
				palette = append(palette, f)
			}
			palette = append(palette, e37.Control(e37.LinktestReq, 0xffff, 0, 0, 0))
			var want, wantDel []e37.Frame
			var frames []e37.Frame
			for i := 0; i < burst; i++ {
				f := palette[i%len(palette)]
				f.Sys = 0x40000000 + uint32(i)
				eff := m.Step(f)
				if eff.Disconnect || eff.S9F1 {
					rt.Fatalf("VERIF-INFRA: palette frame %v ends the link in the model", f)
				}
				want = append(want, eff.Out...)
				if eff.Deliver {
					wantDel = append(wantDel, f)
				}
				frames = append(frames, f)
			}
			fail := func(f string, a ...any) {
				rt.Fatalf("C08 violated (active=%v T6=%v burst=%d window closed for %v): %s\npalette: %v", active, T6, burst, pause, fmt.Sprintf(f, a...), palette)
			}
			// the peer stops reading, sends the burst, keeps not reading
			p.C.SetInboundWindow(0)
			p.C.StallInbound(true)
			for i := 0; i < len(frames); i += 16 {
				if err := p.Send(frames[i:min(i+16, len(frames))]...); err != nil {
					rt.Fatalf("VERIF-INFRA: peer write: %v", err)
				}
			}
			synctest.Wait()
			time.Sleep(pause)
			synctest.Wait()
			p.C.SetInboundWindow(netsim.DefaultWindow)
			p.C.StallInbound(false)
			time.Sleep(time.Second)
			synctest.Wait()
			if eof, at, e := p.EOF(); eof {
				fail("the link was dropped (%v, at %v) although every frame of the burst has a prescribed answer and none ends the connection", e, at)
			}
			var got []e37.Frame
			for _, rf := range p.Take() {
				got = append(got, rf.F)
			}
			for i := 0; i < len(got) && i < len(want); i++ {
				if got[i].String() != want[i].String() {
					fail("answer %d of %d: got %v, E37 prescribes %v (answer to %v)", i, len(want), got[i], want[i], want[i].Sys)
				}
			}
			if len(got) != len(want) {
				missing := ""
				if len(got) < len(want) {
					missing = fmt.Sprintf("; the first missing answer is %v", want[len(got)])
				}
				fail("the peer read %d answers once it read again, E37 prescribes %d for its %d frames%s", len(got), len(want), len(frames), missing)
			}
			del := dl.take()
			if len(del) != len(wantDel) {
				fail("%d data messages delivered, %d data frames were sent while Selected", len(del), len(wantDel))
			}
			for i := range del {
				if del[i].hdr != wantDel[i].Header() {
					fail("delivery %d has header %x, want %x", i, del[i].hdr, wantDel[i].Header())
				}
			}
			if st := w.conn.State(); st != hsms.SelectedState {
				fail("State()=%v after the burst", st)
			}
			role := "passive"
			if active {
				role = "active"
			}
			ev.Case(len(want) > 64 && pause > T6, fmt.Sprint(active, T6, burst, pause, palette), func() any {
				return fmt.Sprintf("%s: burst of %d (%d answers due), window closed %v (T6 %v)", role, burst, len(want), pause, T6)
			}, "c08b:role:"+role, fmt.Sprintf("c08b:burst:%d", burst), fmt.Sprintf("c08b:pause>T6:%v", pause > T6))
		})
	})
}
