package props

// C19 (end to end): a real hsmsss connection with the automatic linktest enabled against peer
// personalities, in virtual time: the instants and counts of the probes the raw peer sees, and the
// instant the link is dropped, are compared with what the suppression rules prescribe.

import (
	"context"
	"fmt"
	"strings"
	"sync"
	"sync/atomic"
	"testing"
	"testing/synctest"
	"time"

	"github.com/arloliu/go-secs/v2/hsms"
	"github.com/arloliu/go-secs/v2/secs2"
	"pgregory.net/rapid"
	"verif/harness/ev"
	"verif/harness/netsim"
	"verif/harness/ref/e37"
	"verif/harness/vt"
)

var c19Personalities = []string{"silent", "answers", "inbound-chatty", "alive-after-probe", "reply-outstanding", "outbound-chatty", "answers-then-silent",
	"own-write-after-each-timeout", "send-inside-probe-window", "alive-after-probe-slow-handler", "alive-after-probe-answered", "send-at-threshold-expiry", "reselect-then-silent"}

func TestC19Linktest(t *testing.T) {
	ev.Rule("(role, threshold 1..4, suppression on/off, interval 40/60/100 ms, T6 50/80 ms) x peer personality: silent; answers every probe; chatty (sends data every interval/2, never answers); alive only after each probe (a data frame 5 ms after every Linktest.req, never answers) - with a data handler that returns at once or only after T6 + 20 ms, or with a life frame the library answers (the peer's own Linktest.req / a reply-expected primary); reply outstanding (a reply-expected send in flight, peer silent, T3 2 s); local fire-and-forget traffic every interval/2 with a silent peer; answers for a while then falls silent; a reply-expected send started at exactly the instant the threshold-th probe times out (drop at exactly that instant, or no drop while the reply is outstanding); a session deselected and re-selected on the same connection before the peer falls silent; oracle (virtual time): a dead silent link is dropped at exactly threshold x (interval + T6) after its last sign of life and after exactly `threshold` probes; a link showing life per the suppression rules is never dropped over 6 x that; with suppression no probe is sent while traffic flowed within the last interval or a reply is outstanding; without it one probe per interval and every timeout counts; non-trivial = the personality shows life at least once and the run contains at least one probe timeout")
	vt.Bubble(t, func(t *testing.T) {
		vt.CheckBubble(t, 1500, 60000, func(rt *rapid.T) { runC19(rt) })
	})
}

func runC19(rt *rapid.T) {
	active := rapid.Bool().Draw(rt, "active")
	threshold := rapid.IntRange(1, 4).Draw(rt, "threshold")
	suppress := rapid.Bool().Draw(rt, "suppress")
	I := time.Duration(rapid.SampledFrom([]int{40, 60, 100}).Draw(rt, "intervalMs")) * time.Millisecond
	T6 := time.Duration(rapid.SampledFrom([]int{50, 80}).Draw(rt, "t6Ms")) * time.Millisecond
	pers := rapid.SampledFrom(c19Personalities).Draw(rt, "personality")
	const T3 = 2 * time.Second
	w, err := newWorld(worldOpt{active: active, connOpts: []hsms.ConnOption{hsms.WithLinktestInterval(I), hsms.WithT6(T6), hsms.WithLinktestFailThreshold(threshold),
		hsms.WithLinktestSuppression(suppress), hsms.WithT3(T3), hsms.WithT7(time.Hour), hsms.WithT8(time.Hour), hsms.WithT5(time.Hour), hsms.WithReconnectBackoff(time.Hour, 1)}})
	if err != nil {
		rt.Fatalf("VERIF-INFRA: %v", err)
	}
	var handlerDelay atomic.Int64 // the application's data handler takes this long (it runs inline on the receive path)
	w.conn.AddDataMessageHandler(func(*hsms.DataMessage, hsms.SECS2Endpoint) {
		if d := handlerDelay.Load(); d > 0 {
			time.Sleep(time.Duration(d))
		}
	})
	var p *netsim.Peer
	var stop atomic.Bool
	var bg sync.WaitGroup // harness goroutines of this case: all must have exited before the case ends
	defer func() {
		stop.Store(true)
		bg.Wait()
		_ = w.conn.Close()
		if p != nil {
			p.Close()
		}
		if w.ln != nil {
			_ = w.ln.Close()
		}
		synctest.Wait()
	}()
	if err := w.conn.Open(context.Background(), hsms.OpenBackground); err != nil {
		rt.Fatalf("VERIF-INFRA: %v", err)
	}
	if p, err = w.peerUp(time.Second); err != nil {
		rt.Fatalf("VERIF-INFRA: %v", err)
	}
	if active && w.ln != nil {
		_ = w.ln.Close()
	}
	if err := w.selectAsPeer(p, 0x5e1ec7); err != nil {
		rt.Fatalf("VERIF-INFRA: %v", err)
	}
	t0 := time.Now() // the select exchange is the last traffic: probes are timed from here
	B := time.Duration(threshold) * (I + T6)
	window := 6 * B
	fail := func(f string, a ...any) {
		var probes []string
		for _, rf := range p.Frames() {
			if rf.F.SType == e37.LinktestReq {
				probes = append(probes, fmt.Sprintf("+%v", rf.At.Sub(t0)))
			}
		}
		eof, at, _ := p.EOF()
		rt.Fatalf("C19 violated (active=%v personality=%s threshold=%d suppression=%v interval=%v T6=%v): %s\nprobes seen at: %s\nlink dropped: %v (+%v)\nwire:\n%s",
			active, pers, threshold, suppress, I, T6, fmt.Sprintf(f, a...), strings.Join(probes, " "), eof, at.Sub(t0), p.Transcript())
	}
	probeTimes := func() []time.Duration {
		var out []time.Duration
		for _, rf := range p.Frames() {
			if rf.F.SType == e37.LinktestReq && rf.F.PType == 0 {
				out = append(out, rf.At.Sub(t0))
			}
		}
		return out
	}
	expectDropAt := func(at time.Duration, nProbes int) {
		time.Sleep(at + 3*B + time.Second)
		synctest.Wait()
		eof, when, _ := p.EOF()
		if !eof {
			fail("the dead link was never dropped (expected at +%v)", at)
		}
		if d := when.Sub(t0); d != at {
			fail("the link was dropped at +%v, the rules prescribe +%v", d, at)
		}
		if pt := probeTimes(); len(pt) != nProbes {
			fail("%d probes before the drop, the threshold is %d consecutive timeouts", len(pt), nProbes)
		}
	}
	expectAlive := func() {
		time.Sleep(window)
		synctest.Wait()
		if eof, when, _ := p.EOF(); eof {
			fail("a link that shows life was dropped at +%v", when.Sub(t0))
		}
		if w.conn.State() != hsms.SelectedState {
			fail("State()=%v although the link shows life", w.conn.State())
		}
	}
	sawTimeout := false
	showsLife := false
	switch pers {
	case "reselect-then-silent":
		// The session is deselected and selected again on the SAME TCP connection (0-2 times), then the
		// peer falls silent: the automatic linktest of the re-established session must be running - the
		// dead link is dropped on the schedule of a fresh session, counted from the last select.
		for i, n := 0, rapid.IntRange(1, 2).Draw(rt, "reselects"); i < n; i++ {
			_ = p.Send(e37.Control(e37.DeselectReq, 0xffff, 0, 0, 0x6d00+uint32(i)))
			synctest.Wait()
			if w.conn.State() != hsms.NotSelectedState {
				fail("State()=%v after a Deselect.req", w.conn.State())
			}
			time.Sleep(time.Duration(rapid.IntRange(0, 30).Draw(rt, "pauseMs")) * time.Millisecond)
			_ = p.Send(e37.Control(e37.SelectReq, 0xffff, 0, 0, 0x6e00+uint32(i)))
			synctest.Wait()
			if w.conn.State() != hsms.SelectedState {
				fail("State()=%v after the re-select", w.conn.State())
			}
		}
		// the clock of the expectations restarts at the last select; probes seen before it do not count
		p.Take()
		earlier := len(probeTimes())
		t0 = time.Now()
		time.Sleep(B + 3*B + time.Second)
		synctest.Wait()
		sawTimeout = true
		eof, when, _ := p.EOF()
		if !eof {
			fail("after deselect + re-select on the same connection the silent peer was never dropped: the linktest of the re-established session is not running")
		}
		if d := when.Sub(t0); d != B {
			fail("after deselect + re-select the silent link was dropped +%v after the last select, a fresh session is dropped after %v", d, B)
		}
		if n := len(probeTimes()) - earlier; n != threshold {
			fail("%d probes between the last select and the drop, the threshold is %d", n, threshold)
		}
	case "silent":
		// probes at I, I+(I+T6), ...; each times out T6 later; the threshold-th timeout drops the link
		expectDropAt(B, threshold)
		sawTimeout = true
		pt := probeTimes()
		for k, at := range pt {
			if want := I + time.Duration(k)*(I+T6); at != want {
				fail("probe %d was sent at +%v, one probe per idle interval prescribes +%v", k, at, want)
			}
		}
	case "answers":
		p.SetAuto(true, false)
		showsLife = true
		expectAlive()
		pt := probeTimes()
		want := int(window / I)
		if len(pt) < want-1 || len(pt) > want+1 {
			fail("%d probes in %v with every probe answered, one per interval (%v) prescribes about %d", len(pt), window, I, want)
		}
	case "answers-then-silent":
		p.SetAuto(true, false)
		showsLife = true
		k := rapid.IntRange(1, 4).Draw(rt, "answered")
		// answer exactly k probes, then fall silent: the k-th answer is the last sign of life
		var seen atomic.Int32
		p.SetOnFrame(func(f e37.Frame) {
			if f.SType == e37.LinktestReq && int(seen.Add(1)) == k {
				p.SetAuto(false, false)
			}
		})
		lastLife := time.Duration(k) * I // answered probes come one per interval, each answered at once
		expectDropAt(lastLife+B, k+threshold)
		sawTimeout = true
	case "inbound-chatty":
		showsLife = true
		bg.Add(1)
		go func() {
			defer bg.Done()
			for i := 0; !stop.Load(); i++ {
				time.Sleep(I / 2)
				if stop.Load() {
					return
				}
				_ = p.Send(e37.DataFrame(0xffff, 6, 11, false, 0x7000+uint32(i), nil))
			}
		}()
		if suppress {
			expectAlive()
			if pt := probeTimes(); len(pt) != 0 {
				fail("%d probes were sent although traffic flowed within every interval", len(pt))
			}
		} else {
			expectDropAt(B, threshold)
			sawTimeout = true
		}
		stop.Store(true)
	case "alive-after-probe-answered":
		// the sign of life inside each probe's T6 window is a frame the library ANSWERS (the peer's own
		// Linktest.req, or a reply-expected primary the application replies to): what the library
		// itself transmits after that frame must not cancel the credit for having received it
		showsLife = true
		asPrimary := rapid.Bool().Draw(rt, "lifeIsPrimary")
		if asPrimary {
			w.conn.AddDataMessageHandler(func(m *hsms.DataMessage, ep hsms.SECS2Endpoint) {
				if m.WaitBit() {
					_ = ep.ReplyDataMessage(context.Background(), m, secs2.A("alive"))
				}
			})
		}
		p.SetOnFrame(func(f e37.Frame) {
			if f.SType == e37.LinktestReq {
				bg.Add(1)
				go func() {
					defer bg.Done()
					time.Sleep(5 * time.Millisecond)
					if asPrimary {
						_ = p.Send(e37.DataFrame(0xffff, 1, 1, true, 0x7200+f.Sys&0xff, nil))
					} else {
						_ = p.Send(e37.Control(e37.LinktestReq, 0xffff, 0, 0, 0x7300+f.Sys&0xff))
					}
				}()
			}
		})
		if suppress {
			expectAlive()
			sawTimeout = len(probeTimes()) > 0
			if !sawTimeout {
				fail("no probe was ever sent on an otherwise idle link")
			}
		} else {
			expectDropAt(B, threshold)
			sawTimeout = true
		}
	case "alive-after-probe", "alive-after-probe-slow-handler":
		showsLife = true
		if pers == "alive-after-probe-slow-handler" {
			// the frame that shows life arrives 5 ms after the probe, but the application takes longer
			// than the rest of the T6 window to handle it: the ARRIVAL is the sign of life
			handlerDelay.Store(int64(T6 + 20*time.Millisecond))
		}
		p.SetOnFrame(func(f e37.Frame) {
			if f.SType == e37.LinktestReq {
				bg.Add(1)
				go func() {
					defer bg.Done()
					time.Sleep(5 * time.Millisecond)
					_ = p.Send(e37.DataFrame(0xffff, 6, 11, false, 0x7100+f.Sys&0xff, nil))
				}()
			}
		})
		if suppress {
			expectAlive()
			sawTimeout = len(probeTimes()) > 0
			if !sawTimeout {
				fail("no probe was ever sent on an otherwise idle link")
			}
		} else {
			expectDropAt(B, threshold)
			sawTimeout = true
		}
	case "reply-outstanding":
		showsLife = suppress
		done := make(chan error, 1)
		bg.Add(1)
		go func() {
			defer bg.Done()
			_, err := w.conn.SendDataMessage(context.Background(), 1, 1, true, secs2.A("slow command"))
			done <- err
		}()
		synctest.Wait()
		if suppress {
			// no probe while the reply is outstanding; T3 bounds that wait, then probing resumes
			time.Sleep(T3 - time.Millisecond)
			synctest.Wait()
			if pt := probeTimes(); len(pt) != 0 {
				fail("%d probes were sent while a reply was outstanding", len(pt))
			}
			if eof, _, _ := p.EOF(); eof {
				fail("the link was dropped while a reply was outstanding")
			}
			time.Sleep(2*time.Millisecond + 2*B + 2*I + time.Second)
			synctest.Wait()
			eof, when, _ := p.EOF()
			if !eof {
				fail("after the reply timed out (T3) the silent link was never dropped")
			}
			// the re-check cadence may probe the very instant the reply wait ends: the first probe then
			// comes up to one interval earlier than "an idle interval after T3"
			if d := when.Sub(t0); d < T3+B-I || d > T3+B+2*I {
				fail("the link was dropped at +%v; after T3 (%v) the probes need threshold x (interval+T6) = %v more", d, T3, B)
			}
			n := 0
			for _, rf := range p.Frames() {
				if rf.F.SType == e37.LinktestReq {
					n++
				}
			}
			if n != threshold {
				fail("%d probes before the drop, threshold is %d", n, threshold)
			}
			sawTimeout = true
		} else {
			expectDropAt(B, threshold)
			sawTimeout = true
		}
		select {
		case <-done:
		case <-time.After(5 * time.Second):
			fail("the reply-expected send never returned")
		}
	case "own-write-after-each-timeout":
		// A silent peer; after every probe timeout the application sends one fire-and-forget message.
		// Own writes defer the next probe (rule 1) but never forgive a counted failure: the dead link is
		// still dropped after exactly `threshold` probes.
		showsLife = false
		p.SetOnFrame(func(f e37.Frame) {
			if f.SType != e37.LinktestReq {
				return
			}
			bg.Add(1)
			go func() {
				defer bg.Done()
				time.Sleep(T6 + time.Millisecond)
				if stop.Load() {
					return
				}
				ctx, cancel := ctxT(time.Second)
				_, _ = w.conn.SendDataMessage(ctx, 6, 11, false, secs2.A("still here"))
				cancel()
			}()
		})
		time.Sleep(6*B + time.Second)
		synctest.Wait()
		eof, when, _ := p.EOF()
		if !eof {
			fail("a silent peer was never dropped although every probe timed out (own writes must not forgive failures)")
		}
		if n := len(probeTimes()); n != threshold {
			fail("%d probes before the drop, threshold is %d", n, threshold)
		}
		if d := when.Sub(t0); d < B || d > B+time.Duration(threshold)*(I+5*time.Millisecond) {
			fail("the link was dropped at +%v; %d timeouts with one deferred interval each give about %v", d, threshold, B)
		}
		sawTimeout = true
		stop.Store(true)
	case "send-inside-probe-window":
		// The peer ignores probes; a reply-expected send goes out 5 ms after the first probe (inside
		// its T6 window) and is never answered. With suppression the failure evaluation sees a reply
		// outstanding and must credit it (and the re-check likewise): no drop before that send's T3.
		showsLife = suppress
		var once sync.Once
		var sentAt time.Time
		p.SetOnFrame(func(f e37.Frame) {
			if f.SType != e37.LinktestReq {
				return
			}
			once.Do(func() {
				bg.Add(1)
				go func() {
					defer bg.Done()
					time.Sleep(5 * time.Millisecond)
					sentAt = time.Now()
					_, _ = w.conn.SendDataMessage(context.Background(), 1, 1, true, secs2.A("long running"))
				}()
			})
		})
		if suppress {
			time.Sleep(I + 5*time.Millisecond + T3 - 2*time.Millisecond)
			synctest.Wait()
			if eof, when, _ := p.EOF(); eof {
				fail("the link was dropped at +%v while a reply was outstanding (send at +%v, T3 %v)", when.Sub(t0), sentAt.Sub(t0), T3)
			}
			time.Sleep(4*B + 2*I + time.Second)
			synctest.Wait()
			if eof, _, _ := p.EOF(); !eof {
				fail("after the reply timed out the silent link was never dropped")
			}
			sawTimeout = true
		} else {
			expectDropAt(B, threshold)
			sawTimeout = true
		}
	case "send-at-threshold-expiry":
		// A silent peer; a reply-expected send starts at EXACTLY the instant the threshold-th probe
		// times out. The send and the failure accounting race for real: either the link is dropped at
		// that instant (the send lost), or the outstanding reply is seen - by the evaluation or by the
		// final re-check before the disconnect - and credited. Once that send has run into T3 the silent
		// peer is dropped after the further timeouts the rules ask for.
		showsLife = suppress
		X := B // = threshold x (I + T6): the threshold-th probe times out
		sendErr := make(chan error, 1)
		bg.Add(1)
		go func() {
			defer bg.Done()
			time.Sleep(time.Until(t0.Add(X)))
			_, e := w.conn.SendDataMessage(context.Background(), 1, 1, true, secs2.A("at the threshold"))
			sendErr <- e
		}()
		time.Sleep(X + time.Millisecond)
		synctest.Wait()
		sawTimeout = true
		if eof, when, _ := p.EOF(); eof {
			if d := when.Sub(t0); d != X {
				fail("the silent link was dropped at +%v, the rules prescribe +%v", d, X)
			}
			break // the send lost the race: the drop is the prescribed one
		}
		if !suppress {
			fail("without suppression every timeout counts: the link should have been dropped at +%v", X)
		}
		// credited: no drop while the reply is outstanding, then a full threshold of timeouts
		time.Sleep(T3 - 2*time.Millisecond)
		synctest.Wait()
		if eof, when, _ := p.EOF(); eof {
			fail("the link was dropped at +%v while a reply was outstanding (send at +%v, T3 %v)", when.Sub(t0), X, T3)
		}
		time.Sleep(6*B + 2*I + time.Second)
		synctest.Wait()
		eof, when, _ := p.EOF()
		if !eof {
			fail("after the credited send timed out the silent link was never dropped")
		}
		_ = when // how many further timeouts the drop takes depends on WHICH check granted the credit (the
		// evaluation leaves the run where it was, the final re-check restarts it) - not observable from
		// outside, so only "not while the reply is outstanding" and "eventually" are asserted
	case "outbound-chatty":
		showsLife = false
		bg.Add(1)
		go func() {
			defer bg.Done()
			for i := 0; !stop.Load(); i++ {
				time.Sleep(I / 2)
				if stop.Load() {
					return
				}
				ctx, cancel := ctxT(time.Second)
				_, _ = w.conn.SendDataMessage(ctx, 6, 11, false, secs2.A("stream"))
				cancel()
			}
		}()
		if suppress {
			// documented trade-off: own traffic defers probing; nothing in flight, nothing probed
			time.Sleep(window)
			synctest.Wait()
			if pt := probeTimes(); len(pt) != 0 {
				fail("%d probes were sent although traffic flowed within every interval", len(pt))
			}
			if eof, _, _ := p.EOF(); eof {
				fail("the link was dropped although no probe could have failed")
			}
		} else {
			expectDropAt(B, threshold)
			sawTimeout = true
		}
		stop.Store(true)
	}
	role := "passive"
	if active {
		role = "active"
	}
	ev.Case(showsLife && (sawTimeout || pers == "answers" || pers == "inbound-chatty"), fmt.Sprint(role, pers, threshold, suppress, I, T6), func() any {
		var pt []string
		for _, d := range probeTimes() {
			pt = append(pt, d.String())
		}
		eof, at, _ := p.EOF()
		return map[string]any{"role": role, "personality": pers, "threshold": threshold, "suppression": suppress, "interval": I.String(), "T6": T6.String(), "probes": pt, "dropped": eof, "droppedAt": at.Sub(t0).String()}
	}, "c19b:"+pers, fmt.Sprintf("c19b:suppress:%v", suppress), fmt.Sprintf("c19b:threshold:%d", threshold), "c19b:role:"+role)
}

// TestC19AfterFailedSends: dead-link detection must keep working after sends that ended badly on an
// EARLIER generation. Whatever bookkeeping the suppression rules read (replies outstanding, last
// sent / received instants) must be back to neutral once those calls have returned: on the next
// generation a silent peer is probed and dropped on exactly the schedule of a fresh connection.
func TestC19AfterFailedSends(t *testing.T) {
	ev.Rule("(role, threshold 1..3, suppression on/off, interval 500 ms, T6 50 ms, write timeout 30 ms, T3 80 ms) generation 1: 1-3 reply-expected sends each ending in a drawn way - write error (peer stopped reading: the write deadline fires), peer reset while the reply is awaited, T3 timeout, caller cancellation, peer Reject - then the generation is ended (by the failure itself or a peer reset) and the library reconnects; generation 2: the peer selects and stays silent. Oracle (virtual time): every call has returned an error; the in-flight gauge is 0; probes are written at I, I+(I+T6), ... after the select and the link is dropped exactly threshold x (I+T6) after it, after exactly `threshold` probes - the schedule of a fresh connection; non-trivial = at least one send ended in a write error or a reset")
	vt.Bubble(t, func(t *testing.T) {
		vt.CheckBubble(t, 800, 40000, func(rt *rapid.T) {
			active := rapid.Bool().Draw(rt, "active")
			threshold := rapid.IntRange(1, 3).Draw(rt, "threshold")
			suppress := rapid.IntRange(0, 3).Draw(rt, "suppress") > 0
			// (I is longer than everything generation 1 does - at most 2 x T3 + WT: no probe falls due while a
			// write is stalled, which a bubble could not schedule)
			const I, T6, WT, T3 = 500 * time.Millisecond, 50 * time.Millisecond, 30 * time.Millisecond, 80 * time.Millisecond
			w, err := newWorld(worldOpt{active: active, connOpts: []hsms.ConnOption{hsms.WithLinktestInterval(I), hsms.WithT6(T6), hsms.WithLinktestFailThreshold(threshold),
				hsms.WithLinktestSuppression(suppress), hsms.WithT3(T3), hsms.WithT7(time.Hour), hsms.WithT8(time.Hour), hsms.WithT5(10 * time.Millisecond),
				hsms.WithReconnectBackoff(10*time.Millisecond, 1), hsms.WithWriteTimeout(WT), hsms.WithCloseTimeout(time.Second)}})
			if err != nil {
				rt.Fatalf("VERIF-INFRA: %v", err)
			}
			w.conn.AddDataMessageHandler(func(*hsms.DataMessage, hsms.SECS2Endpoint) {})
			var peers []*netsim.Peer
			var hist []string
			t00 := time.Now()
			logf := func(f string, a ...any) {
				hist = append(hist, fmt.Sprintf("+%v ", time.Since(t00))+fmt.Sprintf(f, a...))
			}
			defer func() {
				_ = w.conn.Close()
				for _, p := range peers {
					p.Close()
				}
				if w.ln != nil {
					_ = w.ln.Close()
				}
				synctest.Wait()
			}()
			fail := func(f string, a ...any) {
				tr := ""
				if len(peers) > 0 {
					tr = peers[len(peers)-1].Transcript()
				}
				rt.Fatalf("C19 violated (active=%v threshold=%d suppression=%v): %s\nhistory:\n  %s\nwire of the last generation:\n%s", active, threshold, suppress, fmt.Sprintf(f, a...), strings.Join(hist, "\n  "), tr)
			}
			if err := w.conn.Open(context.Background(), hsms.OpenBackground); err != nil {
				rt.Fatalf("VERIF-INFRA: %v", err)
			}
			up := func() *netsim.Peer {
				p, err := w.peerUp(2 * time.Second)
				if err != nil {
					fail("the link was not re-established: %v", err)
				}
				peers = append(peers, p)
				if err := w.selectAsPeer(p, 0x5e1ec7+uint32(len(peers))); err != nil {
					fail("select: %v", err)
				}
				return p
			}
			p := up()
			n := rapid.IntRange(1, 3).Draw(rt, "sends")
			hard := false
			for i := 0; i < n; i++ {
				how := rapid.SampledFrom([]string{"write-error", "write-error", "reset-awaiting-reply", "t3", "cancel", "reject"}).Draw(rt, "ending")
				ctx, cancel := ctxT(time.Second)
				if how == "cancel" {
					cancel()
					ctx, cancel = ctxT(20 * time.Millisecond)
				}
				done := make(chan error, 1)
				p.Take()
				if how == "write-error" {
					p.C.SetInboundWindow(3)
					p.C.StallInbound(true)
				}
				go func() {
					_, e := w.conn.SendDataMessage(ctx, 1, 1, true, secs2.A(fmt.Sprintf("doomed-%d", i)))
					done <- e
				}()
				synctest.Wait()
				linkDied := false
				switch how {
				case "write-error":
					time.Sleep(WT + time.Millisecond)
					linkDied, hard = true, true
				case "reset-awaiting-reply":
					p.C.Reset()
					_ = p.C.Close()
					linkDied, hard = true, true
				case "t3":
					time.Sleep(T3 + time.Millisecond)
				case "cancel":
					time.Sleep(21 * time.Millisecond)
				case "reject":
					for _, rf := range p.Take() {
						if rf.F.IsData() {
							_ = p.Send(e37.Frame{Session: rf.F.Session, B2: rf.F.B2, B3: 1, SType: e37.RejectReq, Sys: rf.F.Sys})
						}
					}
				}
				synctest.Wait()
				var e error
				select {
				case e = <-done:
				default:
					time.Sleep(T3 + WT)
					synctest.Wait()
					select {
					case e = <-done:
					default:
						fail("send %d (%s) has not returned", i, how)
					}
				}
				cancel()
				logf("send %d ended by %s: %v", i, how, e)
				if e == nil {
					fail("send %d (%s) reported success", i, how)
				}
				if linkDied {
					p.C.StallInbound(false)
					synctest.Wait()
					p = up()
					logf("reconnected (generation %d)", len(peers))
				}
			}
			// end the generation the sends ran on (if it is still up) and start a clean one
			if eof, _, _ := p.EOF(); !eof {
				p.C.Reset()
				_ = p.C.Close()
				synctest.Wait()
			}
			if g := w.conn.Metrics().DataMsgInflightCount(); g != 0 {
				fail("every send has returned, yet the in-flight gauge (which suppresses linktest probes) is %d", g)
			}
			p = up()
			if active && w.ln != nil {
				_ = w.ln.Close()
			}
			t0 := time.Now()
			logf("final generation selected; the peer now stays silent")
			B := time.Duration(threshold) * (I + T6)
			time.Sleep(4*B + time.Second)
			synctest.Wait()
			eof, when, _ := p.EOF()
			var probes []time.Duration
			for _, rf := range p.Frames() {
				if rf.F.SType == e37.LinktestReq {
					probes = append(probes, rf.At.Sub(t0))
				}
			}
			if !eof {
				fail("a silent peer on the generation after the failed sends was never dropped (probes at %v; a fresh connection drops it at +%v)", probes, B)
			}
			if d := when.Sub(t0); d != B {
				fail("the silent peer was dropped at +%v, a fresh connection drops it at +%v (probes at %v)", d, B, probes)
			}
			if len(probes) != threshold {
				fail("%d probes before the drop (at %v), the threshold is %d", len(probes), probes, threshold)
			}
			for k, at := range probes {
				if want := I + time.Duration(k)*(I+T6); at != want {
					fail("probe %d at +%v, a fresh connection probes at +%v", k, at, want)
				}
			}
			role := "passive"
			if active {
				role = "active"
			}
			ev.Case(hard, strings.Join(hist, "|")+fmt.Sprint(active, threshold, suppress), func() any { return hist }, "c19c:role:"+role, fmt.Sprintf("c19c:suppression:%v", suppress))
		})
	})
}
