package props

// C09 (SECS-I, voluntary end): sends parked at the hand-off to the line engine while the peer holds
// the line (it asked for it, was granted it, and then stalls) when the application closes the
// connection. Every one of them completes promptly with the connection-closed error - not with a
// context error of a context nobody cancelled, and not with success.

import (
	"context"
	"errors"
	"fmt"
	"net"
	"testing"
	"testing/synctest"
	"time"

	"github.com/arloliu/go-secs/v2/hsms"
	"github.com/arloliu/go-secs/v2/secs1"
	"github.com/arloliu/go-secs/v2/secs2"
	"pgregory.net/rapid"
	"verif/harness/ev"
	"verif/harness/ref/e4"
	"verif/harness/vt"
)

func TestC09Secs1CloseParked(t *testing.T) {
	ev.Rule("a secs1 connection (host/equipment x active/passive), virtual time, T2 8 s, close timeout 1 s; the peer sends ENQ, is granted the line (EOT) and stalls; a reply-expected or plain send is then started (it parks behind the engine's block receive), 0-50 ms later the application calls Close. Oracle: the parked send returns within the close timeout with the connection-closed error (errors.Is hsms.ErrConnClosed) - its own context (30 s) was never cancelled; Close returns nil; non-trivial = always")
	vt.Bubble(t, func(t *testing.T) {
		vt.CheckBubble(t, 1500, 60000, func(rt *rapid.T) {
			active, equip := rapid.Bool().Draw(rt, "active"), rapid.Bool().Draw(rt, "equip")
			const T1, T2 = 50 * time.Millisecond, 8 * time.Second
			w, err := newS1World(s1Opt{active: active, equip: equip, device: 7, opts: []secs1.Option{secs1.WithT1(T1), secs1.WithT2(T2), secs1.WithT4(time.Second),
				secs1.WithConnectionOption(hsms.WithT3(20 * time.Second)), secs1.WithConnectionOption(hsms.WithT5(time.Hour)), secs1.WithConnectionOption(hsms.WithCloseTimeout(time.Second))}})
			if err != nil {
				rt.Fatalf("VERIF-INFRA: %v", err)
			}
			var c net.Conn
			defer func() {
				_ = w.conn.Close()
				if c != nil {
					_ = c.Close()
				}
				if w.ln != nil {
					_ = w.ln.Close()
				}
				synctest.Wait()
			}()
			if err := w.conn.Open(context.Background(), hsms.OpenBackground); err != nil {
				rt.Fatalf("VERIF-INFRA: %v", err)
			}
			if c, err = w.lineUp(5 * time.Second); err != nil {
				rt.Fatalf("VERIF-INFRA: %v", err)
			}
			if !waitState(w.conn, hsms.SelectedState, time.Second) {
				rt.Fatalf("VERIF-INFRA: not Selected")
			}
			// the peer takes the line and stalls
			if _, err := c.Write([]byte{e4.ENQ}); err != nil {
				rt.Fatalf("VERIF-INFRA: %v", err)
			}
			b := make([]byte, 1)
			_ = c.SetReadDeadline(time.Now().Add(time.Second))
			if n, _ := c.Read(b); n != 1 || b[0] != e4.EOT {
				rt.Fatalf("VERIF-INFRA: expected the grant (EOT), got %v", b[:n])
			}
			synctest.Wait()
			const n = 1 // a second sender would wait on the write mutex, which a synctest bubble cannot schedule around
			type res struct {
				e error
				d time.Duration
			}
			done := make(chan res, n)
			start := time.Now()
			for i := 0; i < n; i++ {
				wbit := rapid.Bool().Draw(rt, "w")
				go func() {
					ctx, cancel := ctxT(30 * time.Second)
					defer cancel()
					_, e := w.conn.SendDataMessage(ctx, 1, 1, wbit, secs2.A(fmt.Sprintf("p%d", i)))
					done <- res{e, time.Since(start)}
				}()
			}
			synctest.Wait()
			time.Sleep(time.Duration(rapid.SampledFrom([]int{0, 0, 1, 50}).Draw(rt, "delayMs")) * time.Millisecond)
			// phase jitter for the race between the engine's exit and the teardown broadcast
			for i, k := 0, rapid.IntRange(0, 4000).Draw(rt, "spin"); i < k; i++ {
				spinSink.Add(1)
			}
			cs := time.Now()
			cerr := w.conn.Close()
			cd := time.Since(cs)
			synctest.Wait()
			if cerr != nil {
				rt.Fatalf("C09 violated (secs1 active=%v equip=%v): Close returned %v (after %v) with the peer holding the line", active, equip, cerr, cd)
			}
			for i := 0; i < n; i++ {
				select {
				case r := <-done:
					switch {
					case r.e == nil:
						rt.Fatalf("C09 violated (secs1 active=%v equip=%v): a send parked while the peer held the line reported success after Close", active, equip)
					case !errors.Is(r.e, hsms.ErrConnClosed):
						rt.Fatalf("C09 violated (secs1 active=%v equip=%v): a send parked behind the engine's block receive when the connection was closed ended with %q after %v; its own context was never cancelled - the generation ended, so the connection-closed error is due", active, equip, r.e, r.d)
					}
				default:
					rt.Fatalf("C09 violated (secs1 active=%v equip=%v): a send parked when the connection was closed has not returned after Close (%v)", active, equip, cd)
				}
			}
			role := "host"
			if equip {
				role = "equipment"
			}
			ev.Case(true, fmt.Sprint(active, equip, cd), func() any { return fmt.Sprintf("%s active=%v: a send parked, Close took %v", role, active, cd) }, "c09c:role:"+role)
		})
	})
}
