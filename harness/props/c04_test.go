package props

// C04: frame decoding on arbitrary bytes (pure) and stream framing under arbitrary segmentation
// and inter-segment delays on a real connection (virtual time).

import (
	"bytes"
	"context"
	"fmt"
	"runtime"
	"strings"
	"sync"
	"testing"
	"testing/synctest"
	"time"

	"github.com/arloliu/go-secs/v2/hsms"
	"pgregory.net/rapid"
	"verif/harness/ev"
	"verif/harness/gen"
	"verif/harness/netsim"
	"verif/harness/ref/e37"
	"verif/harness/ref/e5"
	"verif/harness/ref/fsm"
	"verif/harness/vt"
)

// genWireFrame draws a well-formed frame (data with a valid or invalid body, or control).
func genWireFrame(rt *rapid.T) (e37.Frame, bool) {
	sess, sys := genHeaderWord16(rt, "session"), genHeaderWord32(rt, "sys")
	switch rapid.IntRange(0, 3).Draw(rt, "frameKind") {
	case 0:
		st := rapid.SampledFrom([]byte{1, 2, 3, 4, 5, 6, 7, 9}).Draw(rt, "ctl")
		return e37.Frame{Session: sess, B2: rapid.Byte().Draw(rt, "b2"), B3: rapid.Byte().Draw(rt, "b3"), SType: st, Sys: sys}, true
	case 1:
		// data with a body that is NOT valid SECS-II
		body := rapid.SampledFrom([][]byte{{0x41}, {0x41, 0x05, 'a'}, {0xff, 0x01, 0x00}, {0x01, 0x03, 0x41, 0x01}, {0x00}, {0xa9, 0x03, 1, 2, 3}, {0x01, 0x01}}).Draw(rt, "badBody")
		return e37.Frame{Session: sess, B2: rapid.Byte().Draw(rt, "sb"), B3: rapid.Byte().Draw(rt, "fn"), Sys: sys, Body: body}, false
	default:
		v := gen.Value(rt, gen.Opts{MaxDepth: 4, Budget: 600, NoBigCounts: true})
		return e37.Frame{Session: sess, B2: rapid.Byte().Draw(rt, "sb"), B3: rapid.Byte().Draw(rt, "fn"), Sys: sys, Body: e5.Encode(v)}, true
	}
}

func TestC04Decode(t *testing.T) {
	ev.Rule("well-formed frames (control; data with valid and with invalid SECS-II bodies) put through length-field rewrites (0, 9, 10, +-1, cap, cap+1, 0xFFFFFFFF), PType/SType rewrites over 0..255, truncation, extension, byte flips, plus random strings, offered to DecodeHSMSMessage / DecodeHSMSPayload / DecodeOwnedHSMSPayload; oracle: no panic, accepted iff ref/e37 well-formed (length == remaining, 10..cap, PType 0, defined SType); a data frame with an invalid body is accepted and Item()/DecodeErr() give the same error on every call, from re-stamped copies and from 8 goroutines; non-trivial = input is not a pristine valid frame")
	vt.Check(t, 30000, 1000000, func(rt *rapid.T) {
		f, bodyOK := genWireFrame(rt)
		b := f.Bytes()
		mut := rapid.SampledFrom([]string{"none", "len", "ptype", "stype", "truncate", "extend", "flip", "random"}).Draw(rt, "mutation")
		switch mut {
		case "len":
			n := uint32(len(b) - 4)
			nl := rapid.SampledFrom([]uint32{0, 1, 9, 10, 11, n - 1, n + 1, e37.MaxLen, e37.MaxLen + 1, 0x7fffffff, 0x80000000, 0xffffffff}).Draw(rt, "newLen")
			b[0], b[1], b[2], b[3] = byte(nl>>24), byte(nl>>16), byte(nl>>8), byte(nl)
		case "ptype":
			b[8] = rapid.Byte().Draw(rt, "ptype")
		case "stype":
			b[9] = rapid.Byte().Draw(rt, "stype")
		case "truncate":
			b = b[:rapid.IntRange(0, len(b)-1).Draw(rt, "cut")]
		case "extend":
			b = append(b, rapid.SliceOfN(rapid.Byte(), 1, 20).Draw(rt, "extra")...)
		case "flip":
			i := rapid.IntRange(0, len(b)-1).Draw(rt, "at")
			b[i] ^= byte(1 << rapid.IntRange(0, 7).Draw(rt, "bit"))
		case "random":
			b = rapid.SliceOfN(rapid.Byte(), 0, 40).Draw(rt, "bytes")
		}
		in := append([]byte(nil), b...)
		wantF, wantErr := e37.ParseWhole(b)
		var got hsms.Message
		var err error
		func() {
			defer func() {
				if r := recover(); r != nil {
					rt.Fatalf("C04 violated: DecodeHSMSMessage panicked on %x: %v", trunc(b), r)
				}
			}()
			got, err = hsms.DecodeHSMSMessage(b)
		}()
		if (err == nil) != (wantErr == nil) {
			rt.Fatalf("C04 violated: DecodeHSMSMessage(%x) error=%v, frame well-formedness says %v", trunc(b), err, wantErr)
		}
		if !bytes.Equal(b, in) {
			rt.Fatalf("C04 violated: DecodeHSMSMessage modified its input")
		}
		// payload entry points: no length prefix; accept iff 10 <= len <= cap, PType 0, defined SType
		if len(b) >= 4 {
			pl := b[4:]
			wantPL := len(pl) >= 10 && len(pl) <= e37.MaxLen && pl[4] == 0 && e37.DefinedSType(pl[5])
			for _, owned := range []bool{false, true} {
				var e2 error
				func() {
					defer func() {
						if r := recover(); r != nil {
							rt.Fatalf("C04 violated: payload decode (owned=%v) panicked on %x: %v", owned, trunc(pl), r)
						}
					}()
					if owned {
						_, e2 = hsms.DecodeOwnedHSMSPayload(append([]byte(nil), pl...))
					} else {
						_, e2 = hsms.DecodeHSMSPayload(pl)
					}
				}()
				if (e2 == nil) != wantPL {
					rt.Fatalf("C04 violated: payload decode (owned=%v) of %x: error=%v, well-formed=%v", owned, trunc(pl), e2, wantPL)
				}
			}
		}
		cls := "c04:rejected"
		if err == nil {
			cls = "c04:accepted"
			if got.HeaderBytes() != wantF.Header() {
				rt.Fatalf("C04 violated: accepted frame decoded to header %x, want %x", got.HeaderBytes(), wantF.Header())
			}
			if dm, ok := got.ToDataMessage(); ok {
				c04BodyError(rt, dm, wantF, mut == "none" && bodyOK)
				if _, _, derr := e5.Decode(wantF.Body); derr != nil && len(wantF.Body) > 0 {
					cls = "c04:accepted-bad-body"
				}
			}
		}
		ev.Case(mut != "none" || !bodyOK, fmt.Sprintf("%x", b), func() any {
			return fmt.Sprintf("%s of %v -> accepted=%v", mut, f, err == nil)
		}, cls, "c04:mut:"+mut)
	})
}

// c04BodyError: every holder of the message sees the same body result on every call.
func c04BodyError(rt *rapid.T, dm *hsms.DataMessage, f e37.Frame, mustDecode bool) {
	_, refN, refErr := e5.Decode(f.Body)
	// a body that is one item followed by stray bytes is left open (the decoder consumes a prefix)
	trailing := refErr == nil && refN != len(f.Body)
	refOK := refErr == nil || len(f.Body) == 0
	copies := []*hsms.DataMessage{dm, dm.WithSessionID(7), dm.WithSystemBytes([4]byte{1, 2, 3, 4}), dm.WithID(9).WithSessionID(3)}
	type res struct {
		err string
		nil bool
	}
	var mu sync.Mutex
	var all []res
	var wg sync.WaitGroup
	for g := 0; g < 8; g++ {
		wg.Add(1)
		go func(g int) {
			defer wg.Done()
			c := copies[g%len(copies)]
			for k := 0; k < 2; k++ {
				it, e1 := c.Item()
				e2 := c.DecodeErr()
				r := res{nil: it == nil}
				if e1 != nil {
					r.err = e1.Error()
				}
				if (e1 == nil) != (e2 == nil) || (e1 != nil && e1.Error() != e2.Error()) {
					r.err = "MISMATCH Item()/DecodeErr(): " + fmt.Sprint(e1, " vs ", e2)
				}
				mu.Lock()
				all = append(all, r)
				mu.Unlock()
			}
		}(g)
	}
	wg.Wait()
	for _, r := range all[1:] {
		if r != all[0] {
			rt.Fatalf("C04 violated: holders of one message disagree about its body: %q vs %q", all[0].err, r.err)
		}
	}
	if strings.HasPrefix(all[0].err, "MISMATCH") {
		rt.Fatalf("C04 violated: %s", all[0].err)
	}
	if (all[0].err == "") != refOK && !trailing {
		rt.Fatalf("C04 violated: body %x decode error %q, E5 reference says valid=%v", trunc(f.Body), all[0].err, refOK)
	}
	if mustDecode && all[0].err != "" {
		rt.Fatalf("C04 violated: valid body reported %q", all[0].err)
	}
}

// ---------------------------------------------------------------------------------------------

const c04T8 = 150 * time.Millisecond

type c04Seg struct {
	data  []byte
	delay time.Duration
	class string
}

func TestC04Stream(t *testing.T) {
	ev.Rule("streams of 1-12 valid frames (control + data, bodies to 2 KiB, sometimes 70 KiB) split at drawn cut points (inside the 4-byte length, inside the header, at frame boundaries, 1-byte drip) with per-segment delay none / short (<= T8/10) / idle-long (3xT8, frame boundaries only) / stall (3xT8 inside a frame), optionally ending in a length field outside [10, cap]; fed to a real connection in both roles; oracle: responses + deliveries equal what the ref/fsm.Responder model yields for the un-segmented prefix, idle gaps never disconnect, a stall or bad length disconnects (T8 after the last byte resp. at once) and an oversized length allocates < 4 MiB; non-trivial = >= 2 cuts off frame boundaries or one stall / bad-length event")
	vt.Bubble(t, func(t *testing.T) {
		vt.CheckBubble(t, 16000, 800000, func(rt *rapid.T) { runC04Stream(rt) })
	})
}

func runC04Stream(rt *rapid.T) {
	active := rapid.Bool().Draw(rt, "active")
	session := genSession(rt, 0x0202)
	w, err := newWorld(worldOpt{active: active, connOpts: []hsms.ConnOption{hsms.WithSessionID(session), hsms.WithT8(c04T8),
		hsms.WithT7(time.Hour), hsms.WithT6(time.Hour), hsms.WithT5(time.Hour), hsms.WithReconnectBackoff(time.Hour, 1)}})
	if err != nil {
		rt.Fatalf("VERIF-INFRA: %v", err)
	}
	dl := &deliveries{}
	w.conn.AddDataMessageHandler(dl.handler)
	var p *netsim.Peer
	var hist []string
	defer func() {
		_ = w.conn.Close()
		if p != nil {
			p.Close()
		}
		if w.ln != nil {
			_ = w.ln.Close()
		}
		synctest.Wait()
	}()
	fail := func(f string, a ...any) {
		rt.Fatalf("C04 violated (active=%v): %s\nplan:\n  %s\nwire:\n%s", active, fmt.Sprintf(f, a...), strings.Join(hist, "\n  "), p.Transcript())
	}
	if err := w.conn.Open(context.Background(), hsms.OpenBackground); err != nil {
		rt.Fatalf("VERIF-INFRA: %v", err)
	}
	if p, err = w.peerUp(time.Second); err != nil {
		rt.Fatalf("VERIF-INFRA: %v", err)
	}
	m := &fsm.Responder{Session: session}
	var frames []e37.Frame
	if active {
		f, ok := p.WaitFrame(0, func(f e37.Frame) bool { return f.SType == e37.SelectReq }, time.Second)
		if !ok {
			fail("no Select.req")
		}
		m.HasOpenSelect, m.OpenSelect = true, f.F.Sys
		frames = append(frames, e37.Control(e37.SelectRsp, f.F.Session, 0, 0, f.F.Sys))
	} else {
		frames = append(frames, e37.Control(e37.SelectReq, session, 0, 0, 0x0badcafe))
	}
	synctest.Wait()
	p.Take()
	n := rapid.IntRange(0, 11).Draw(rt, "frames")
	avoid := map[uint32]bool{}
	if m.HasOpenSelect {
		avoid[m.OpenSelect] = true
	}
	for i := 0; i < n; i++ {
		var f e37.Frame
		for {
			f = genPeerFrame(rt, &fsm.Responder{Selected: true}, session, avoid)
			if f.PType == 0 && f.SType == e37.SeparateReq && len(f.Body) == 0 {
				continue // a Separate ends the connection; not part of this check
			}
			break
		}
		if f.IsData() && rapid.IntRange(0, 19).Draw(rt, "big") == 0 {
			f.Body = append([]byte{0x23, 0x01, 0x11, 0x70}, make([]byte, 70000)...) // 70 KiB binary item
		}
		frames = append(frames, f)
	}
	// model the un-segmented stream
	var want []e37.Frame
	var wantDel []e37.Frame
	var bounds []int // cumulative end offsets of the frames
	var stream []byte
	for _, f := range frames {
		eff := m.Step(f)
		want = append(want, eff.Out...)
		if eff.Deliver {
			wantDel = append(wantDel, f)
		}
		stream = append(stream, f.Bytes()...)
		bounds = append(bounds, len(stream))
		hist = append(hist, fmt.Sprintf("%v => %s", f, eff.Class))
	}
	isBound := func(off int) bool {
		for _, b := range bounds {
			if b == off {
				return true
			}
		}
		return off == 0
	}
	// cut points
	var cuts []int
	mode := rapid.SampledFrom([]string{"few", "many", "drip-head", "boundaries"}).Draw(rt, "cutMode")
	switch mode {
	case "few":
		for i, k := 0, rapid.IntRange(0, 4).Draw(rt, "ncuts"); i < k; i++ {
			cuts = append(cuts, rapid.IntRange(1, len(stream)-1).Draw(rt, "cut"))
		}
	case "many":
		for i, k := 0, rapid.IntRange(5, 20).Draw(rt, "ncuts"); i < k; i++ {
			cuts = append(cuts, rapid.IntRange(1, len(stream)-1).Draw(rt, "cut"))
		}
	case "drip-head":
		// 1-byte drip through the length field and header of a drawn frame
		fi := rapid.IntRange(0, len(frames)-1).Draw(rt, "dripFrame")
		start := 0
		if fi > 0 {
			start = bounds[fi-1]
		}
		for o := start + 1; o <= start+14 && o < len(stream); o++ {
			cuts = append(cuts, o)
		}
	case "boundaries":
		cuts = append(cuts, bounds[:len(bounds)-1]...)
	}
	raw := splitAt(stream, cuts)
	segs := make([]c04Seg, len(raw))
	off := 0
	offFrameCuts := 0
	fatalAt := -1 // index of the segment after which the link must drop through T8
	for i, r := range raw {
		off += len(r)
		segs[i].data = r
		last := i == len(raw)-1
		onBound := isBound(off)
		if !onBound {
			offFrameCuts++
		}
		switch k := rapid.IntRange(0, 9).Draw(rt, "delay"); {
		case last:
			segs[i].class = "none"
		case k < 5:
			segs[i].class = "none"
		case k < 8:
			segs[i].class, segs[i].delay = "short", time.Duration(rapid.IntRange(1, int(c04T8/10/time.Millisecond)).Draw(rt, "ms"))*time.Millisecond
		case onBound:
			segs[i].class, segs[i].delay = "idle-long", 3*c04T8
		case k == 8:
			segs[i].class, segs[i].delay = "short", c04T8/10
		default:
			segs[i].class, segs[i].delay = "stall", 3*c04T8
			fatalAt = i
		}
		if fatalAt >= 0 {
			segs = segs[:i+1]
			break
		}
	}
	badLen := uint32(0)
	hasBad := false
	if fatalAt < 0 && rapid.IntRange(0, 3).Draw(rt, "badLength") == 0 {
		hasBad = true
		badLen = rapid.SampledFrom([]uint32{0, 1, 9, e37.MaxLen + 1, 0x01000000, 0x10000000, 0x7fffffff, 0x80000000, 0xffffffff}).Draw(rt, "badLen")
	}
	// how many frames are complete before the fatal point
	complete := len(frames)
	if fatalAt >= 0 {
		sent := 0
		for _, s := range segs {
			sent += len(s.data)
		}
		complete = 0
		for _, b := range bounds {
			if b <= sent {
				complete++
			}
		}
		// recompute the model over the prefix only
		m2 := &fsm.Responder{Session: session, HasOpenSelect: active, OpenSelect: frames[0].Sys}
		want, wantDel = nil, nil
		for _, f := range frames[:complete] {
			eff := m2.Step(f)
			want = append(want, eff.Out...)
			if eff.Deliver {
				wantDel = append(wantDel, f)
			}
		}
	}
	// --- run ---
	var lastByteAt time.Time
	for i, s := range segs {
		if err := p.SendRaw(s.data); err != nil {
			fail("peer write of segment %d failed: %v", i, err)
		}
		lastByteAt = time.Now()
		hist = append(hist, fmt.Sprintf("segment %d: %d bytes, then %s (%v)", i, len(s.data), s.class, s.delay))
		if s.delay > 0 {
			time.Sleep(s.delay)
		}
		if eof, at, _ := p.EOF(); eof && !(fatalAt == i) {
			fail("the link was dropped at %v after segment %d (%s) although no gap inside a frame exceeded T8", at.Sub(lastByteAt), i, s.class)
		}
	}
	synctest.Wait()
	if fatalAt >= 0 {
		eof, at, _ := p.EOF()
		if !eof {
			fail("a gap of %v inside a frame (T8=%v) did not drop the link", 3*c04T8, c04T8)
		}
		if d := at.Sub(lastByteAt); d < c04T8 || d > c04T8+time.Millisecond {
			fail("the link was dropped %v after the last byte of a stalled frame, T8 is %v", d, c04T8)
		}
	}
	if hasBad {
		var ms0, ms1 runtime.MemStats
		runtime.ReadMemStats(&ms0)
		t0 := time.Now()
		extra := rapid.SliceOfN(rapid.Byte(), 0, 20).Draw(rt, "afterBadLen")
		_ = p.SendRaw(append([]byte{byte(badLen >> 24), byte(badLen >> 16), byte(badLen >> 8), byte(badLen)}, extra...))
		hist = append(hist, fmt.Sprintf("bad length field %d (+%d bytes)", badLen, len(extra)))
		synctest.Wait()
		runtime.ReadMemStats(&ms1)
		eof, at, _ := p.EOF()
		if !eof {
			fail("a length field of %d did not drop the link", badLen)
		}
		if at.Sub(t0) != 0 {
			fail("a length field of %d dropped the link only after %v", badLen, at.Sub(t0))
		}
		if d := ms1.TotalAlloc - ms0.TotalAlloc; badLen > 1<<24 && d > 4<<20 {
			fail("a length field of %d made the receiver allocate %d bytes", badLen, d)
		}
	}
	// compare what came back
	var ctl []e37.Frame
	for _, rf := range p.Take() {
		if rf.F.IsData() {
			continue
		}
		ctl = append(ctl, rf.F)
	}
	cutOK := fatalAt >= 0 || hasBad // the teardown may cut queued responses
	if len(ctl) > len(want) || (len(ctl) < len(want) && !cutOK) {
		fail("the library sent %d control frames, the un-segmented stream yields %d\n got  %v\n want %v", len(ctl), len(want), ctl, want)
	}
	for i := range ctl {
		if !frameEq(ctl[i], want[i]) {
			fail("response %d: got %v, the un-segmented stream yields %v", i, ctl[i], want[i])
		}
	}
	got := dl.take()
	if len(got) != len(wantDel) {
		fail("%d data messages delivered, the un-segmented stream yields %d", len(got), len(wantDel))
	}
	for i := range got {
		if got[i].hdr != wantDel[i].Header() || got[i].blen != len(wantDel[i].Body) {
			fail("delivery %d is %x (%d body bytes), want %v", i, got[i].hdr, got[i].blen, wantDel[i])
		}
	}
	if fatalAt < 0 && !hasBad {
		if eof, _, _ := p.EOF(); eof {
			fail("the link was dropped although the stream was valid")
		}
		if !barrier(p, 3, time.Second) {
			fail("the link does not answer after the stream")
		}
	}
	role := "passive"
	if active {
		role = "active"
	}
	cls := []string{"c04s:" + mode, "c04s:role:" + role}
	seen := map[string]bool{}
	for _, s := range segs {
		if !seen[s.class] {
			seen[s.class] = true
			cls = append(cls, "c04s:delay:"+s.class)
		}
	}
	if hasBad {
		if badLen < 10 {
			cls = append(cls, "c04s:bad-length-small")
		} else {
			cls = append(cls, "c04s:bad-length-huge")
		}
	}
	ev.Case(offFrameCuts >= 2 || fatalAt >= 0 || hasBad, strings.Join(hist, "|")+role, func() any {
		return map[string]any{"role": role, "plan": hist}
	}, cls...)
}
