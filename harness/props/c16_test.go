package props

import (
	"fmt"
	"math"
	"math/big"
	"strings"
	"testing"

	"github.com/arloliu/go-secs/v2/hsms"
	"github.com/arloliu/go-secs/v2/secs2"
	"pgregory.net/rapid"
	"verif/harness/ev"
	"verif/harness/gen"
	"verif/harness/obs"
	"verif/harness/ref/e5"
	"verif/harness/vt"
)

// ---- the argument model ------------------------------------------------------------------
//
// An argument is a Go value plus what the documented constructor contract says about it:
// a list of numbers (exact, as big.Int or float64), or "unsupported" (the item must be errored).

type num struct {
	isFloat bool
	i       *big.Int
	f       float64
	f32     bool // the float came from a float32 (exact at F4)
	// strRange: a numeric string whose value is beyond float64 range: the docs do not say whether
	// it is refused or clamped, both are accepted
	strOverflow bool
}

type arg struct {
	goVal       any
	nums        []num
	unsupported bool   // type not in the documented set (or unparsable string)
	desc        string // for messages
	class       string
	nonDecimal  bool // a numeric string literal in base 16/8 (decimal only is documented for floats)
}

func bigOf(x int64) *big.Int   { return big.NewInt(x) }
func bigOfU(x uint64) *big.Int { return new(big.Int).SetUint64(x) }

type namedInt int
type someStruct struct{ A int }

var interestingInts = []int64{0, 1, -1, 127, 128, -128, -129, 255, 256, 32767, 32768, -32768, -32769, 65535, 65536,
	2147483647, 2147483648, -2147483648, -2147483649, 4294967295, 4294967296, 1 << 53, 1<<53 + 1, -(1 << 53), -(1<<53 + 1),
	math.MaxInt64, math.MinInt64, math.MaxInt64 - 1, math.MinInt64 + 1}

func drawInt64(rt *rapid.T) int64 {
	if rapid.IntRange(0, 3).Draw(rt, "intsrc") > 0 {
		return rapid.SampledFrom(interestingInts).Draw(rt, "ival")
	}
	return rapid.Int64().Draw(rt, "irand")
}

func drawUint64(rt *rapid.T) uint64 {
	switch rapid.IntRange(0, 3).Draw(rt, "uintsrc") {
	case 0:
		return rapid.Uint64().Draw(rt, "urand")
	case 1:
		return rapid.SampledFrom([]uint64{math.MaxUint64, math.MaxUint64 - 1, 1 << 63, 1<<63 - 1, 1<<63 + 1, 1 << 53, 1<<53 + 1}).Draw(rt, "ubig")
	default:
		x := rapid.SampledFrom(interestingInts).Draw(rt, "uval")
		if x < 0 {
			x = -(x + 1)
		}
		return uint64(x)
	}
}

var floatEdge = []float64{0, math.Copysign(0, -1), 1, -1, 0.5, 1e10, -1e10, 255, 256, -129, 65536, 1 << 53, 1<<53 + 2,
	math.MaxFloat32, -math.MaxFloat32, math.MaxFloat32 * 1.0000001, -math.MaxFloat32 * 2, 1e39, -1e39, 1e300, -1e300,
	math.MaxFloat64, -math.MaxFloat64, math.SmallestNonzeroFloat32, math.SmallestNonzeroFloat64, 1e-46,
	math.Inf(1), math.Inf(-1), math.NaN(), 3.4028235677973366e38, 3.4028236e38,
	// only just beyond the F4 bound: less than half a float32 ulp above MaxFloat32 (the narrowing
	// conversion alone would round these back to MaxFloat32 - the clamp must still see them)
	math.Nextafter(math.MaxFloat32, math.Inf(1)), -math.Nextafter(math.MaxFloat32, math.Inf(1)), 3.4028235e38, -3.4028235e38, math.MaxFloat32 + 0x1p102}

func drawFloat64(rt *rapid.T) float64 {
	if rapid.IntRange(0, 2).Draw(rt, "fsrc") > 0 {
		return rapid.SampledFrom(floatEdge).Draw(rt, "fedge")
	}
	return rapid.Float64().Draw(rt, "frand")
}

// intLiteral renders n in a drawn base (decimal, hex, octal), optionally far out of range.
func intLiteral(rt *rapid.T, n *big.Int) string {
	s, _ := intLiteralB(rt, n)
	return s
}

func intLiteralB(rt *rapid.T, n *big.Int) (string, bool) {
	neg := n.Sign() < 0
	mag := new(big.Int).Abs(n)
	var s string
	base := rapid.IntRange(0, 3).Draw(rt, "litbase")
	switch base {
	case 0:
		s = mag.Text(10)
	case 1:
		s = "0x" + mag.Text(16)
	case 2:
		s = "0o" + mag.Text(8)
	default:
		s = "0X" + strings.ToUpper(mag.Text(16))
	}
	if neg {
		return "-" + s, base != 0
	}
	return s, base != 0
}

var garbageStrings = []string{"", " ", "abc", "0x", "--1", " 1", "1 ", "١٢", "12a", "0xg", "-", "+", "NaNx", "1,2", "true", "1.5.2", "1e"}

// drawArg draws one constructor argument of any kind.
func drawArg(rt *rapid.T) arg {
	kind := rapid.IntRange(0, 31).Draw(rt, "argkind")
	one := func(v any, n num, class string) arg {
		return arg{goVal: v, nums: []num{n}, desc: fmt.Sprintf("%T(%v)", v, v), class: class}
	}
	switch kind {
	case 0:
		x := drawInt64(rt)
		return one(int(x), num{i: bigOf(x)}, "int")
	case 1:
		x := int8(drawInt64(rt))
		return one(x, num{i: bigOf(int64(x))}, "int8")
	case 2:
		x := int16(drawInt64(rt))
		return one(x, num{i: bigOf(int64(x))}, "int16")
	case 3:
		x := int32(drawInt64(rt))
		return one(x, num{i: bigOf(int64(x))}, "int32")
	case 4:
		x := drawInt64(rt)
		return one(x, num{i: bigOf(x)}, "int64")
	case 5:
		x := drawUint64(rt)
		return one(uint(x), num{i: bigOfU(x)}, "uint")
	case 6:
		x := uint8(drawUint64(rt))
		return one(x, num{i: bigOfU(uint64(x))}, "uint8")
	case 7:
		x := uint16(drawUint64(rt))
		return one(x, num{i: bigOfU(uint64(x))}, "uint16")
	case 8:
		x := uint32(drawUint64(rt))
		return one(x, num{i: bigOfU(uint64(x))}, "uint32")
	case 9:
		x := drawUint64(rt)
		return one(x, num{i: bigOfU(x)}, "uint64")
	case 10:
		x := drawFloat64(rt)
		return one(x, num{isFloat: true, f: x}, "float64")
	case 11:
		x := float32(drawFloat64(rt))
		return one(x, num{isFloat: true, f: float64(x), f32: true}, "float32")
	case 12:
		b := rapid.Bool().Draw(rt, "boolarg")
		return arg{goVal: b, nums: []num{{i: bigOf(map[bool]int64{false: 0, true: 1}[b])}}, desc: fmt.Sprint(b), class: "bool"}
	case 13: // integer literal string, possibly far out of any range
		var n *big.Int
		switch rapid.IntRange(0, 3).Draw(rt, "strsrc") {
		case 0:
			n = bigOf(drawInt64(rt))
		case 1:
			n = bigOfU(drawUint64(rt))
		case 2:
			n = new(big.Int).Lsh(big.NewInt(1), uint(rapid.IntRange(60, 80).Draw(rt, "hugebits")))
			if rapid.Bool().Draw(rt, "hugeneg") {
				n.Neg(n)
			}
		default:
			n = bigOf(int64(rapid.IntRange(-300, 300).Draw(rt, "smallstr")))
		}
		s, nd := intLiteralB(rt, n)
		return arg{goVal: s, nums: []num{{i: n}}, desc: fmt.Sprintf("%q", s), class: "string-int", nonDecimal: nd}
	case 14: // float literal string
		x := drawFloat64(rt)
		if math.IsNaN(x) || math.IsInf(x, 0) {
			x = 1.25
		}
		s := fmt.Sprintf("%v", x)
		over := false
		if rapid.IntRange(0, 9).Draw(rt, "fstrover") == 0 {
			s = rapid.SampledFrom([]string{"1e999", "-1e999", "1e400"}).Draw(rt, "overstr")
			over = true
			x = math.Inf(1)
			if s[0] == '-' {
				x = math.Inf(-1)
			}
		}
		return arg{goVal: s, nums: []num{{isFloat: true, f: x, strOverflow: over}}, desc: fmt.Sprintf("%q", s), class: "string-float"}
	case 15:
		s := rapid.SampledFrom(garbageStrings).Draw(rt, "garbage")
		return arg{goVal: s, unsupported: true, desc: fmt.Sprintf("garbage %q", s), class: "string-garbage"}
	case 16: // []int
		xs := drawInts(rt)
		return arg{goVal: mapS(xs, func(x int64) int { return int(x) }), nums: mapS(xs, func(x int64) num { return num{i: bigOf(x)} }), desc: fmt.Sprintf("[]int%v", xs), class: "[]int"}
	case 17:
		xs := drawInts(rt)
		return arg{goVal: append([]int64{}, xs...), nums: mapS(xs, func(x int64) num { return num{i: bigOf(x)} }), desc: fmt.Sprintf("[]int64%v", xs), class: "[]int64"}
	case 18:
		xs := drawInts(rt)
		ys := mapS(xs, func(x int64) int16 { return int16(x) })
		return arg{goVal: ys, nums: mapS(ys, func(x int16) num { return num{i: bigOf(int64(x))} }), desc: fmt.Sprintf("[]int16%v", ys), class: "[]int16"}
	case 19:
		xs := drawInts(rt)
		ys := mapS(xs, func(x int64) int8 { return int8(x) })
		return arg{goVal: ys, nums: mapS(ys, func(x int8) num { return num{i: bigOf(int64(x))} }), desc: fmt.Sprintf("[]int8%v", ys), class: "[]int8"}
	case 20:
		xs := drawInts(rt)
		ys := mapS(xs, func(x int64) int32 { return int32(x) })
		return arg{goVal: ys, nums: mapS(ys, func(x int32) num { return num{i: bigOf(int64(x))} }), desc: fmt.Sprintf("[]int32%v", ys), class: "[]int32"}
	case 21:
		xs := drawUints(rt)
		return arg{goVal: append([]uint64{}, xs...), nums: mapS(xs, func(x uint64) num { return num{i: bigOfU(x)} }), desc: fmt.Sprintf("[]uint64%v", xs), class: "[]uint64"}
	case 22:
		xs := drawUints(rt)
		ys := mapS(xs, func(x uint64) uint { return uint(x) })
		return arg{goVal: ys, nums: mapS(xs, func(x uint64) num { return num{i: bigOfU(x)} }), desc: fmt.Sprintf("[]uint%v", xs), class: "[]uint"}
	case 23:
		xs := drawUints(rt)
		ys := mapS(xs, func(x uint64) uint8 { return uint8(x) })
		return arg{goVal: ys, nums: mapS(ys, func(x uint8) num { return num{i: bigOfU(uint64(x))} }), desc: fmt.Sprintf("[]uint8%v", ys), class: "[]uint8"}
	case 24:
		xs := drawUints(rt)
		ys := mapS(xs, func(x uint64) uint16 { return uint16(x) })
		return arg{goVal: ys, nums: mapS(ys, func(x uint16) num { return num{i: bigOfU(uint64(x))} }), desc: fmt.Sprintf("[]uint16%v", ys), class: "[]uint16"}
	case 25:
		xs := drawUints(rt)
		ys := mapS(xs, func(x uint64) uint32 { return uint32(x) })
		return arg{goVal: ys, nums: mapS(ys, func(x uint32) num { return num{i: bigOfU(uint64(x))} }), desc: fmt.Sprintf("[]uint32%v", ys), class: "[]uint32"}
	case 26:
		n := rapid.IntRange(0, 4).Draw(rt, "nf")
		xs := make([]float64, n)
		for i := range xs {
			xs[i] = drawFloat64(rt)
		}
		return arg{goVal: append([]float64{}, xs...), nums: mapS(xs, func(x float64) num { return num{isFloat: true, f: x} }), desc: fmt.Sprintf("[]float64%v", xs), class: "[]float64"}
	case 27:
		n := rapid.IntRange(0, 4).Draw(rt, "nf32")
		xs := make([]float32, n)
		for i := range xs {
			xs[i] = float32(drawFloat64(rt))
		}
		return arg{goVal: append([]float32{}, xs...), nums: mapS(xs, func(x float32) num { return num{isFloat: true, f: float64(x), f32: true} }), desc: fmt.Sprintf("[]float32%v", xs), class: "[]float32"}
	case 28:
		n := rapid.IntRange(0, 4).Draw(rt, "nb")
		xs := make([]bool, n)
		for i := range xs {
			xs[i] = rapid.Bool().Draw(rt, "bv")
		}
		return arg{goVal: append([]bool{}, xs...), nums: mapS(xs, func(b bool) num { return num{i: bigOf(map[bool]int64{false: 0, true: 1}[b])} }), desc: fmt.Sprintf("[]bool%v", xs), class: "[]bool"}
	case 29: // []string of integer literals
		n := rapid.IntRange(0, 3).Draw(rt, "nstr")
		var ss []string
		var ns []num
		nd := false
		for i := 0; i < n; i++ {
			v := bigOf(drawInt64(rt))
			lit, b := intLiteralB(rt, v)
			nd = nd || b
			ss = append(ss, lit)
			ns = append(ns, num{i: v})
		}
		return arg{goVal: ss, nums: ns, desc: fmt.Sprintf("[]string%q", ss), class: "[]string", nonDecimal: nd}
	default: // unsupported Go types
		c := rapid.IntRange(0, 9).Draw(rt, "unsup")
		vals := []any{nil, (*int)(nil), namedInt(3), someStruct{1}, make(chan int), []any{1, 2}, uintptr(7), complex(1, 2), map[string]int{"a": 1}, func() {}}
		return arg{goVal: vals[c], unsupported: true, desc: fmt.Sprintf("unsupported %T", vals[c]), class: "unsupported"}
	}
}

func drawInts(rt *rapid.T) []int64 {
	n := rapid.IntRange(0, 4).Draw(rt, "ni")
	xs := make([]int64, n)
	for i := range xs {
		xs[i] = drawInt64(rt)
	}
	return xs
}

func drawUints(rt *rapid.T) []uint64 {
	n := rapid.IntRange(0, 4).Draw(rt, "nu")
	xs := make([]uint64, n)
	for i := range xs {
		xs[i] = drawUint64(rt)
	}
	return xs
}

func mapS[A, B any](xs []A, f func(A) B) []B {
	out := make([]B, len(xs))
	for i, x := range xs {
		out[i] = f(x)
	}
	return out
}

// ---- the contract model ------------------------------------------------------------------

type expect struct {
	mustErr  bool      // Error() must be non-nil
	mayErr   bool      // both outcomes allowed (docs silent)
	value    e5.Value  // when no error
	altValue *e5.Value // second allowed value (float string overflow: refused or clamped)
}

func clampBig(n *big.Int, lo, hi *big.Int) *big.Int {
	if n.Cmp(lo) < 0 {
		return lo
	}
	if n.Cmp(hi) > 0 {
		return hi
	}
	return n
}

func classOK(family string, class string) bool {
	isIntT := func(c string) bool {
		switch c {
		case "int", "int8", "int16", "int32", "int64", "uint", "uint8", "uint16", "uint32", "uint64",
			"[]int", "[]int8", "[]int16", "[]int32", "[]int64", "[]uint", "[]uint8", "[]uint16", "[]uint32", "[]uint64":
			return true
		}
		return false
	}
	switch family {
	case "int", "uint":
		return isIntT(class) || class == "string-int" || class == "[]string"
	case "float":
		return isIntT(class) || class == "float64" || class == "float32" || class == "[]float64" || class == "[]float32" ||
			class == "string-float" || class == "string-int" || class == "[]string"
	case "binary":
		return class == "uint8" || class == "[]uint8" || class == "int" || class == "string-int"
	case "boolean":
		return class == "bool" || class == "[]bool"
	}
	return false
}

// model computes what the documented contract prescribes for New<family>Item(byteSize, args...).
func model(family string, byteSize int, args []arg) expect {
	var fc byte
	okSize := false
	switch family {
	case "int":
		fc, okSize = map[int]byte{1: e5.I1, 2: e5.I2, 4: e5.I4, 8: e5.I8}[byteSize]
	case "uint":
		fc, okSize = map[int]byte{1: e5.U1, 2: e5.U2, 4: e5.U4, 8: e5.U8}[byteSize]
	case "float":
		fc, okSize = map[int]byte{4: e5.F4, 8: e5.F8}[byteSize]
	case "binary":
		fc, okSize = e5.Binary, true
	case "boolean":
		fc, okSize = e5.Boolean, true
	}
	if !okSize {
		return expect{mustErr: true}
	}
	v := e5.Value{FC: fc}
	var alt *e5.Value
	for _, a := range args {
		if a.class == "string-float" && family != "float" {
			// a float literal that happens to be a plain decimal integer ("0", "-129") is also an
			// integer literal; anything else ("1.5", "1e+10") is not
			str := a.goVal.(string)
			n, ok := new(big.Int).SetString(str, 10)
			if !ok || strings.ContainsAny(str, "+_") {
				return expect{mustErr: true}
			}
			a = arg{goVal: str, nums: []num{{i: n}}, class: "string-int", desc: a.desc}
		}
		if a.unsupported || !classOK(family, a.class) {
			return expect{mustErr: true}
		}
		if str, isStr := a.goVal.(string); isStr && family == "uint" && strings.HasPrefix(str, "-") {
			return expect{mustErr: true} // a signed literal is not an unsigned integer literal (even "-0")
		}
		if strs, isStrs := a.goVal.([]string); isStrs && family == "uint" {
			for _, str := range strs {
				if strings.HasPrefix(str, "-") {
					return expect{mustErr: true}
				}
			}
		}
		for _, n := range a.nums {
			switch family {
			case "int":
				bits := uint(8 * byteSize)
				lo := new(big.Int).Neg(new(big.Int).Lsh(big.NewInt(1), bits-1))
				hi := new(big.Int).Sub(new(big.Int).Lsh(big.NewInt(1), bits-1), big.NewInt(1))
				v.Ints = append(v.Ints, clampBig(n.i, lo, hi).Int64())
			case "uint":
				if n.i.Sign() < 0 {
					return expect{mustErr: true} // negative into unsigned: documented refusal
				}
				bits := uint(8 * byteSize)
				hi := new(big.Int).Sub(new(big.Int).Lsh(big.NewInt(1), bits), big.NewInt(1))
				v.Uints = append(v.Uints, clampBig(n.i, big.NewInt(0), hi).Uint64())
			case "float":
				var x float64
				if n.isFloat {
					x = n.f
					if n.strOverflow {
						return expect{mayErr: true, mustErr: false, value: e5.Value{FC: 0xFE}} // either refused or clamped: only no-panic/no-wrap is asserted
					}
				} else if a.class == "string-int" || a.class == "[]string" {
					// a string is a floating-point literal: decimal digits parse to the nearest
					// float64 (no 2^53 rule); other bases are not documented for floats
					if a.nonDecimal {
						return expect{mayErr: true}
					}
					x, _ = new(big.Float).SetInt(n.i).Float64()
				} else {
					// integers: |x| > 2^53 is a documented refusal
					lim := new(big.Int).Lsh(big.NewInt(1), 53)
					if new(big.Int).Abs(n.i).Cmp(lim) > 0 {
						return expect{mustErr: true}
					}
					x, _ = new(big.Float).SetInt(n.i).Float64()
				}
				if byteSize == 4 && !math.IsNaN(x) && !math.IsInf(x, 0) {
					if x > math.MaxFloat32 {
						x = math.MaxFloat32
					} else if x < -math.MaxFloat32 {
						x = -math.MaxFloat32
					}
				}
				v.Floats = append(v.Floats, x)
			case "binary":
				if a.class == "string-int" || a.class == "int" {
					if n.i.Sign() < 0 || n.i.Cmp(big.NewInt(255)) > 0 {
						return expect{mustErr: true}
					}
				}
				v.Bytes = append(v.Bytes, byte(n.i.Uint64()))
			case "boolean":
				v.Bools = append(v.Bools, n.i.Sign() != 0)
			}
		}
	}
	return expect{value: v, altValue: alt}
}

func construct(family string, byteSize int, shortcut bool, goArgs []any) (it secs2.Item, panicked any) {
	defer func() {
		if p := recover(); p != nil {
			panicked = p
		}
	}()
	switch family {
	case "int":
		if shortcut {
			return map[int]func(...any) secs2.Item{1: secs2.I1, 2: secs2.I2, 4: secs2.I4, 8: secs2.I8}[byteSize](goArgs...), nil
		}
		return secs2.NewIntItem(byteSize, goArgs...), nil
	case "uint":
		if shortcut {
			return map[int]func(...any) secs2.Item{1: secs2.U1, 2: secs2.U2, 4: secs2.U4, 8: secs2.U8}[byteSize](goArgs...), nil
		}
		return secs2.NewUintItem(byteSize, goArgs...), nil
	case "float":
		if shortcut {
			return map[int]func(...any) secs2.Item{4: secs2.F4, 8: secs2.F8}[byteSize](goArgs...), nil
		}
		return secs2.NewFloatItem(byteSize, goArgs...), nil
	case "binary":
		if shortcut {
			return secs2.B(goArgs...), nil
		}
		return secs2.NewBinaryItem(goArgs...), nil
	default:
		if shortcut {
			return secs2.BOOLEAN(goArgs...), nil
		}
		return secs2.NewBooleanItem(goArgs...), nil
	}
}

func TestC16Constructors(t *testing.T) {
	ev.Rule("argument lists of 0-6 values over every Go integer/float type, bool, numeric strings in base 10/16/8 (in range, beyond the width, beyond 64 bits), garbage strings, slices of each, nil, typed nil pointers, named types, structs, channels, maps, funcs x byte sizes {valid, -1,0,3,5,16, negative valid widths, MaxInt/MinInt, and sizes congruent to a valid width modulo 2^8, 2^16 and 2^32} x shortcut/full constructor. Oracle: a table-driven model of the documented constructor contract (exact values in order; out-of-width -> nearest bound; documented refusals -> Error()!=nil; never a panic, never a wrapped value), and for errored items: never Equal to anything, refused by NewDataMessage / NewDataMessageFromHeader / Derive().WithItem().Build() also when nested 1-5 lists deep. Non-trivial: at least one argument is out of range, unsupported, or a string; distinct by the argument list.")
	vt.Check(t, 40000, 1000000, func(rt *rapid.T) {
		family := rapid.SampledFrom([]string{"int", "int", "uint", "uint", "float", "float", "binary", "boolean"}).Draw(rt, "family")
		var byteSize int
		switch family {
		case "int", "uint":
			byteSize = rapid.SampledFrom([]int{1, 2, 4, 8, 1, 2, 4, 8, 1, 2, 4, 8, 1, 2, 4, 8, -1, 0, 3, 5, 16, 256 + 1, 1<<16 + 2, 1<<32 + 1, 1<<32 + 4, 2<<32 + 8, 8 - 1<<32, -4, -8, math.MaxInt, math.MinInt}).Draw(rt, "bytesize")
		case "float":
			byteSize = rapid.SampledFrom([]int{4, 8, 4, 8, 4, 8, 4, 8, 4, 8, 4, 8, -1, 0, 1, 2, 3, 16, 256 + 4, 1<<16 + 8, 1<<32 + 4, 1<<32 + 8, 3<<32 + 4, 4 - 1<<32, 8 - 2<<32, -4, -8, math.MaxInt, math.MinInt}).Draw(rt, "bytesize")
		}
		nargs := rapid.IntRange(0, 6).Draw(rt, "nargs")
		args := make([]arg, nargs)
		goArgs := make([]any, nargs)
		var descs []string
		nontrivial := false
		for i := range args {
			args[i] = drawArg(rt)
			// bias towards arguments the family supports, so that most lists are not refused outright
			for tries := 0; tries < 2 && !classOK(family, args[i].class) && rapid.IntRange(0, 3).Draw(rt, "retry") > 0; tries++ {
				args[i] = drawArg(rt)
			}
			goArgs[i] = args[i].goVal
			descs = append(descs, args[i].desc)
			if args[i].unsupported || strings.HasPrefix(args[i].class, "string") || !classOK(family, args[i].class) {
				nontrivial = true
			}
		}
		shortcut := rapid.Bool().Draw(rt, "shortcut") && (family == "binary" || family == "boolean" ||
			((family != "float") && (byteSize == 1 || byteSize == 2 || byteSize == 4 || byteSize == 8)) || (family == "float" && (byteSize == 4 || byteSize == 8)))
		want := model(family, byteSize, args)
		call := fmt.Sprintf("%s(size=%d, shortcut=%v)(%s)", family, byteSize, shortcut, strings.Join(descs, ", "))

		it, panicked := construct(family, byteSize, shortcut, goArgs)
		outcome := "value"
		if want.mustErr {
			outcome = "refused"
		}
		clamped := false
		if !want.mustErr && !want.mayErr {
			// did the model clamp anything?
			for _, a := range args {
				for _, n := range a.nums {
					if !n.isFloat && family != "float" && family != "binary" && family != "boolean" {
						w := uint(8 * byteSize)
						hi := new(big.Int).Lsh(big.NewInt(1), w-1)
						if family == "uint" {
							hi = new(big.Int).Lsh(big.NewInt(1), w)
						}
						if n.i.Cmp(hi) >= 0 || n.i.Cmp(new(big.Int).Neg(hi)) < 0 {
							clamped = true
						}
					}
					if n.isFloat && byteSize == 4 && !math.IsInf(n.f, 0) && math.Abs(n.f) > math.MaxFloat32 {
						clamped = true
					}
				}
			}
		}
		if clamped {
			outcome = "clamped"
			nontrivial = true
		}
		ev.Case(nontrivial, call, func() any { return map[string]any{"call": trunc200(call), "expected": outcome} }, "c16:"+family, "c16:"+outcome)
		if panicked != nil {
			rt.Fatalf("C16 violated: %s panicked: %v", call, panicked)
		}
		if it == nil {
			rt.Fatalf("C16 violated: %s returned nil", call)
		}
		err := it.Error()
		switch {
		case want.mayErr:
			// only: no panic, and if accepted the values must not be wrapped garbage (finite or inf)
			return
		case want.mustErr:
			if err == nil {
				rt.Fatalf("C16 violated: %s must be refused (Error() != nil) but is error-free: %s", call, it.ToSML())
			}
			checkErrored(rt, it, call)
			return
		}
		if err != nil {
			rt.Fatalf("C16 violated: %s is valid but Error() = %v", call, err)
		}
		if family == "float" && byteSize == 4 {
			// clamped means clamped for every reader: no accessor of an F4 item hands out a finite value
			// beyond the F4 bound (not even one that the wire encoding would round back to it)
			if fs, ferr := it.ToFloat(); ferr == nil {
				for _, x := range fs {
					if !math.IsInf(x, 0) && !math.IsNaN(x) && math.Abs(x) > math.MaxFloat32 {
						rt.Fatalf("C16 violated: %s holds %v, which lies beyond the F4 bound %v: out-of-range values are clamped to the bound", call, x, float64(math.MaxFloat32))
					}
				}
			}
		}
		for fam := 0; fam < 3; fam++ {
			got, oerr := obs.Value(it, fam)
			if oerr != nil {
				rt.Fatalf("C16 violated: %s: accessor family %d: %v", call, fam, oerr)
			}
			if !e5.Same(got, want.value) {
				rt.Fatalf("C16 violated: %s = %s, documented contract gives %s", call, got, want.value)
			}
		}
	})
}

// checkErrored asserts the "errored items never reach the wire" half for one errored item,
// directly and nested.
func checkErrored(rt *rapid.T, e secs2.Item, call string) {
	depth := rapid.IntRange(0, 5).Draw(rt, "nestdepth")
	cur := e
	for i := 0; i < depth; i++ {
		sib := rapid.IntRange(0, 2).Draw(rt, "siblings")
		kids := []secs2.Item{}
		for j := 0; j < sib; j++ {
			kids = append(kids, secs2.A("x"))
		}
		kids = append(kids, cur)
		if rapid.Bool().Draw(rt, "tailsib") {
			kids = append(kids, secs2.U1(1))
		}
		cur = secs2.L(kids...)
	}
	if cur.Error() == nil {
		rt.Fatalf("C16 violated: errored item from %s nested %d deep: list Error() is nil", call, depth)
	}
	others := []secs2.Item{cur, e, secs2.NewEmptyItem(), secs2.L(), secs2.A(""), gen.BuildCanonical(e5.Value{FC: e5.I1, Ints: []int64{0}})}
	for _, o := range others {
		if secs2.Equal(cur, o) || secs2.Equal(o, cur) {
			rt.Fatalf("C16 violated: errored item (from %s, nested %d) is Equal to %s", call, depth, o.Type())
		}
	}
	if m, err := hsms.NewDataMessage(1, 1, true, 7, [4]byte{0, 0, 0, 9}, cur); err == nil || m != nil {
		rt.Fatalf("C16 violated: NewDataMessage accepted an errored item (from %s, nested %d)", call, depth)
	}
	if m, err := hsms.NewDataMessageFromHeader([10]byte{0, 7, 0x81, 1, 0, 0, 0, 0, 0, 9}, cur); err == nil || m != nil {
		rt.Fatalf("C16 violated: NewDataMessageFromHeader accepted an errored item (from %s, nested %d)", call, depth)
	}
	base, err := hsms.NewDataMessage(1, 1, true, 7, [4]byte{0, 0, 0, 9}, secs2.A("ok"))
	if err != nil {
		rt.Fatalf("harness: %v", err)
	}
	if m, err := base.Derive().WithItem(cur).Build(); err == nil || m != nil {
		rt.Fatalf("C16 violated: Derive().WithItem(errored).Build() succeeded (from %s, nested %d)", call, depth)
	}
	// one builder, several Build calls: a Build refused for ANOTHER reason (stream > 127, W-bit on an
	// even function) must not make the builder forget that its item is errored
	b := base.Derive().WithItem(cur)
	for i, step := range []func(){
		func() { b.WithStream(200) },
		func() { b.WithStream(1).WithFunction(2).WithWaitBit(true) },
		func() { b.WithFunction(1).WithWaitBit(true) },
		func() { b.WithSessionID(9) },
	} {
		step()
		if m, err := b.Build(); err == nil || m != nil {
			rt.Fatalf("C16 violated: Build number %d on one builder holding an errored item (from %s, nested %d) succeeded", i+1, call, depth)
		}
	}
}
