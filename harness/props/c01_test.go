package props

import (
	"bytes"
	"fmt"
	"math"
	"testing"

	"github.com/arloliu/go-secs/v2/secs2"
	"pgregory.net/rapid"
	"verif/harness/ev"
	"verif/harness/gen"
	"verif/harness/obs"
	"verif/harness/ref/e5"
	"verif/harness/vt"
)

// hasNaN reports whether the tree contains a NaN (whose payload bits are not part of the
// logical value, so byte-exact comparison is relaxed to "some NaN of the right width").
func hasNaN(v e5.Value) bool {
	for _, f := range v.Floats {
		if math.IsNaN(f) {
			return true
		}
	}
	for _, c := range v.List {
		if hasNaN(c) {
			return true
		}
	}
	return false
}

// sameEncoding compares two encodings byte for byte; when the tree holds NaNs the comparison is
// made on the values the reference decoder assigns to both byte strings.
func sameEncoding(v e5.Value, got, want []byte) error {
	if bytes.Equal(got, want) {
		return nil
	}
	if hasNaN(v) && len(got) == len(want) {
		gv, gn, gerr := e5.Decode(got)
		wv, wn, werr := e5.Decode(want)
		if gerr == nil && werr == nil && gn == wn && gn == len(got) && e5.Same(gv, wv) {
			return nil
		}
	}
	return fmt.Errorf("encoding differs from SEMI E5 reference:\n got  %s\n want %s", hexTrunc(got), hexTrunc(want))
}

func hexTrunc(b []byte) string {
	if len(b) > 96 {
		return fmt.Sprintf("%x...(%d bytes)", b[:96], len(b))
	}
	return fmt.Sprintf("%x", b)
}

// firstDiff returns the first index where a and b differ (or -1).
func firstDiff(a, b []byte) int {
	n := min(len(a), len(b))
	for i := 0; i < n; i++ {
		if a[i] != b[i] {
			return i
		}
	}
	if len(a) != len(b) {
		return n
	}
	return -1
}

func treeClasses(v e5.Value, out map[string]bool) {
	n := v.Size()
	bucket := ">2"
	if n <= 2 {
		bucket = fmt.Sprint(n)
	}
	if v.FC != e5.Empty {
		out["fc:"+e5.Name(v.FC)+":"+bucket] = true
		L := len(e5.Encode(e5.Value{FC: v.FC})) // placeholder to keep the import honest
		_ = L
	}
	for _, c := range v.List {
		treeClasses(c, out)
	}
}

func lenBytesClass(v e5.Value, out map[string]bool) {
	if v.FC == e5.Empty {
		return
	}
	hdr := e5.Header(v.FC, payloadLen(v))
	out[fmt.Sprintf("lenbytes:%d", len(hdr)-1)] = true
	for _, c := range v.List {
		lenBytesClass(c, out)
	}
}

func payloadLen(v e5.Value) int {
	switch {
	case v.FC == e5.List:
		return len(v.List)
	case v.FC == e5.Local:
		return len(v.Bytes) + 2
	case v.FC == e5.Binary || e5.IsText(v.FC):
		return len(v.Bytes)
	case v.FC == e5.Boolean:
		return len(v.Bools)
	default:
		return v.Size() * e5.Width(v.FC)
	}
}

// slabCross reports the largest number of single-element leaves of one concrete slab type.
func slabCross(v e5.Value, counts map[byte]int) {
	if v.FC == e5.List {
		for _, c := range v.List {
			slabCross(c, counts)
		}
		return
	}
	if v.FC == e5.Empty {
		return
	}
	if e5.IsText(v.FC) || v.FC == e5.Binary || v.Size() == 1 {
		k := v.FC
		switch {
		case e5.IsInt(k):
			k = e5.I1
		case e5.IsUint(k):
			k = e5.U1
		case e5.IsFloat(k):
			k = e5.F4
		}
		counts[k]++
	}
}

func depthBucket(d int) string {
	switch {
	case d == 0:
		return "depth:0"
	case d <= 2:
		return "depth:1-2"
	case d <= 8:
		return "depth:3-8"
	case d <= 62:
		return "depth:9-62"
	default:
		return fmt.Sprintf("depth:%d", d)
	}
}

// checkItemAgainst runs every C01 oracle clause for one (value, item) pair.
func checkItemAgainst(v e5.Value, it secs2.Item) error {
	if err := it.Error(); err != nil {
		return fmt.Errorf("valid constructor arguments produced an errored item: %v", err)
	}
	want := e5.Encode(v)
	first := it.ToBytes()
	got := bytes.Clone(first)
	if err := sameEncoding(v, got, want); err != nil {
		return err
	}
	if it.EncodedLen() != len(got) {
		return fmt.Errorf("EncodedLen()=%d but ToBytes() has %d bytes", it.EncodedLen(), len(got))
	}
	// determinism - the buffers handed out are the caller's: what the caller does to them afterwards
	// (a reused scratch buffer) must not change what the item encodes to
	scribbleBytes(first)
	again := it.ToBytes()
	if !bytes.Equal(again, got) {
		return fmt.Errorf("ToBytes not deterministic: after the caller overwrote the buffer the first ToBytes() returned, the item encodes differently (first diff at %d)", firstDiff(again, got))
	}
	scribbleBytes(again)
	app := it.AppendTo(nil)
	if !bytes.Equal(app, got) {
		return fmt.Errorf("AppendTo(nil) != ToBytes() (first diff at %d)", firstDiff(app, got))
	}
	scribbleBytes(app)
	if v.FC != e5.Empty {
		// ... nor what a parent embedding the item encodes to
		parent := secs2.NewListItem(it)
		pb := parent.ToBytes()
		if wantP := append([]byte{0x01, 0x01}, got...); !bytes.Equal(pb, wantP) { // a list of one child: header 01 01, then the child's encoding
			return fmt.Errorf("a list embedding the item encodes wrongly after the caller overwrote buffers earlier encodings returned (first diff at %d)", firstDiff(pb, wantP))
		}
		scribbleBytes(pb)
		if pb2 := parent.ToBytes(); !bytes.Equal(pb2[len(pb2)-len(got):], got) {
			return fmt.Errorf("a list embedding the item encodes differently after the caller overwrote the buffer its first ToBytes() returned")
		}
	}
	// prefix preservation with three capacity situations
	prefix := []byte{0xDE, 0xAD, 0xBE, 0xEF, 0x00, 0xFF, 0x41}
	for _, extra := range []int{0, len(got), len(got) + 17, 1} {
		buf := make([]byte, len(prefix), len(prefix)+extra)
		copy(buf, prefix)
		// the spare capacity is a reused scratch buffer: it holds stale non-zero bytes, every one of
		// which the encoding must overwrite
		for i, spare := 0, buf[len(prefix):cap(buf)]; i < len(spare); i++ {
			spare[i] = 0xA7 ^ byte(i)
		}
		res := it.AppendTo(buf)
		if len(res) != len(prefix)+len(got) || !bytes.Equal(res[:len(prefix)], prefix) || !bytes.Equal(res[len(prefix):], got) {
			return fmt.Errorf("AppendTo(prefix with spare cap %d) = %s, want prefix||encoding", extra, hexTrunc(res))
		}
		if !bytes.Equal(buf[:len(prefix)], prefix) {
			return fmt.Errorf("AppendTo modified the caller's prefix")
		}
	}
	// the constructed item reads back as v through all accessor families
	for fam := 0; fam < 3; fam++ {
		ov, err := obs.Value(it, fam)
		if err != nil {
			return fmt.Errorf("constructed item, accessor family %d: %v", fam, err)
		}
		if !e5.Same(ov, v) {
			return fmt.Errorf("constructed item read through family %d = %s, want %s", fam, ov, v)
		}
	}
	// round trip
	dec, err := secs2.Decode(got)
	if err != nil {
		return fmt.Errorf("Decode(ToBytes()) failed: %v", err)
	}
	if v.FC == e5.Empty {
		if !dec.IsEmpty() {
			return fmt.Errorf("Decode(empty) is %s, want empty", dec.Type())
		}
		return nil
	}
	if !secs2.Equal(it, dec) || !secs2.Equal(dec, it) {
		return fmt.Errorf("decoded item not Equal to the original (%s)", v)
	}
	if dec.Type() != it.Type() || dec.Size() != it.Size() || dec.Type() != e5.Name(v.FC) || dec.Size() != v.Size() {
		return fmt.Errorf("decoded Type/Size = %s/%d, original %s/%d, reference %s/%d", dec.Type(), dec.Size(), it.Type(), it.Size(), e5.Name(v.FC), v.Size())
	}
	for fam := 0; fam < 3; fam++ {
		ov, err := obs.Value(dec, fam)
		if err != nil {
			return fmt.Errorf("decoded item, accessor family %d: %v", fam, err)
		}
		if !e5.Same(ov, v) {
			return fmt.Errorf("decoded item read through family %d = %s, want %s", fam, ov, v)
		}
	}
	if re := dec.ToBytes(); !bytes.Equal(re, got) {
		return fmt.Errorf("decoded item re-encodes differently (first diff at %d)", firstDiff(re, got))
	}
	if dec.EncodedLen() != len(got) {
		return fmt.Errorf("decoded EncodedLen()=%d, want %d", dec.EncodedLen(), len(got))
	}
	return nil
}

// scribbleBytes overwrites a buffer the library handed to the caller.
func scribbleBytes(b []byte) {
	for i := range b {
		b[i] ^= 0x5A
	}
}

func recordTree(prefix string, v e5.Value, sh *gen.Shape, extra ...string) {
	cl := map[string]bool{}
	treeClasses(v, cl)
	lenBytesClass(v, cl)
	cl[depthBucket(v.Depth())] = true
	counts := map[byte]int{}
	slabCross(v, counts)
	mx := 0
	for _, c := range counts {
		mx = max(mx, c)
	}
	switch {
	case mx > 213:
		cl["slab:>213"] = true
	case mx > 85:
		cl["slab:86-213"] = true
	case mx > 21:
		cl["slab:22-85"] = true
	case mx > 5:
		cl["slab:6-21"] = true
	}
	if sh != nil {
		for c := range sh.Classes {
			cl["ctor:"+c] = true
		}
	}
	classes := []string{prefix}
	for c := range cl {
		classes = append(classes, c)
	}
	classes = append(classes, extra...)
	nontrivial := v.FC != e5.Empty && !(v.FC != e5.List && v.Size() == 0) && v.Count()+v.Size() > 1
	ev.Case(nontrivial, fmt.Sprintf("%x", e5.Encode(v))+fmt.Sprint(sh), func() any {
		return map[string]any{"value": v.String(), "bytes": hexTrunc(e5.Encode(v))}
	}, classes...)
}

func TestC01Encode(t *testing.T) {
	ev.Rule("item trees drawn from a boundary-biased generator (all 16 format codes; element counts 0,1,2 and the 255/256 and 65535/65536 length-field boundaries; nesting to depth 64; lists of single-element leaves crossing the decoder's slab chunk sizes 1/5/21/85/213/341) and realised through drawn constructor shapes (shortcut or New*Item; scalars, one slice, mixed, numeric strings, every Go numeric type able to hold the values). Oracle: independent SEMI E5 reference encoder + round trip through Decode with all three accessor families. Non-trivial: the tree holds at least one element and is not a single zero-length leaf; distinct by reference encoding + constructor shape. Nested EmptyItem is outside the domain (no format code).")
	budget := 192 << 10
	if vt.Thorough() {
		budget = 1 << 20
	}
	vt.Check(t, 20000, 400000, func(rt *rapid.T) {
		v := gen.Value(rt, gen.Opts{MaxDepth: 64, Budget: budget})
		sh := &gen.Shape{}
		it := gen.Build(rt, v, sh)
		recordTree("c01", v, sh)
		if err := checkItemAgainst(v, it); err != nil {
			rt.Fatalf("C01 violated for %s: %v", v, err)
		}
	})
}
