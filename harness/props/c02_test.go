package props

import (
	"bytes"
	"fmt"
	"runtime"
	"runtime/debug"
	"sync"
	"testing"

	"github.com/arloliu/go-secs/v2/secs2"
	"pgregory.net/rapid"
	"verif/harness/ev"
	"verif/harness/gen"
	"verif/harness/obs"
	"verif/harness/ref/e5"
	"verif/harness/vt"
)

// allocOf runs f and returns the bytes it allocated (single goroutine, GC paused by the caller).
func allocOf(f func()) uint64 {
	var a, b runtime.MemStats
	runtime.ReadMemStats(&a)
	f()
	runtime.ReadMemStats(&b)
	return b.TotalAlloc - a.TotalAlloc
}

// allocBound is the C02 memory bound: a constant multiple of the input length plus a constant. The
// multiple has two parts. (1) Leaves: the worst legitimate expansion measured on the unchanged tree is
// 58x (thousands of zero-length leaves, each a small object) - 128x allows for that. (2) Lists: a list
// header may claim as many children as the REMAINING input could hold (two bytes per child), and
// the decoder may size its child slice for that claim before reading the children: 16 bytes per
// claimed child = 8 bytes per remaining input byte, at each of the at most 64 nesting levels the
// decoder accepts (a native-fuzz input of 2.3 kB - 64 nested lists each claiming 514 children -
// allocated 260x its length; the first bound of 128x, calibrated on random trees only, was wrong).
// Anything sized from a claimed length ALONE (2^24 children, a 16 MiB string) exceeds this by orders
// of magnitude.
func allocBound(n int) uint64 { return (128+8*64)*uint64(n) + 256<<10 }

type decodeResult struct {
	item  secs2.Item
	err   error
	panic any
	alloc uint64
}

func safeDecode(f func([]byte) (secs2.Item, error), in []byte) (r decodeResult) {
	r.alloc = allocOf(func() {
		defer func() {
			if p := recover(); p != nil {
				r.panic = p
			}
		}()
		r.item, r.err = f(in)
	})
	return
}

// checkDecode is the C02 oracle for one input. It returns a description of the violation or "".
func checkDecode(in []byte) (string, e5.Value, bool) {
	orig := append([]byte{}, in...)
	refV, consumed, refErr := e5.Decode(in)
	a := safeDecode(secs2.Decode, in)
	if a.panic != nil {
		return fmt.Sprintf("Decode panicked: %v", a.panic), refV, refErr == nil
	}
	if !bytes.Equal(in, orig) {
		return "Decode modified its input", refV, refErr == nil
	}
	owned := append([]byte{}, in...)
	b := safeDecode(secs2.DecodeOwned, owned)
	if b.panic != nil {
		return fmt.Sprintf("DecodeOwned panicked: %v", b.panic), refV, refErr == nil
	}
	if (a.err == nil) != (b.err == nil) {
		return fmt.Sprintf("Decode err=%v but DecodeOwned err=%v", a.err, b.err), refV, refErr == nil
	}
	if (a.err == nil) != (refErr == nil) {
		return fmt.Sprintf("acceptance differs from the E5 grammar: library err=%v, reference err=%v", a.err, refErr), refV, refErr == nil
	}
	for _, r := range []struct {
		name string
		res  decodeResult
	}{{"Decode", a}, {"DecodeOwned", b}} {
		if r.res.alloc > allocBound(len(in)) {
			return fmt.Sprintf("%s allocated %d bytes for a %d-byte input (bound %d)", r.name, r.res.alloc, len(in), allocBound(len(in))), refV, refErr == nil
		}
	}
	if a.err != nil {
		if a.item != nil || b.item != nil {
			// not part of the property, but an item next to an error would be observable
			_ = a.item
		}
		if msg := recheckKept(); msg != "" {
			return msg, refV, false
		}
		return "", refV, false
	}
	for _, r := range []struct {
		name string
		it   secs2.Item
	}{{"Decode", a.item}, {"DecodeOwned", b.item}} {
		if r.it == nil {
			return r.name + " returned (nil, nil)", refV, true
		}
		if err := r.it.Error(); err != nil {
			return fmt.Sprintf("%s returned an item with a deferred error: %v", r.name, err), refV, true
		}
		re := r.it.ToBytes()
		if !bytes.Equal(re, in[:consumed]) {
			return fmt.Sprintf("%s: re-encoding differs from the consumed prefix (first diff at %d; consumed %d, re-encoded %d)", r.name, firstDiff(re, in[:consumed]), consumed, len(re)), refV, true
		}
		if r.it.EncodedLen() != consumed {
			return fmt.Sprintf("%s: EncodedLen()=%d, consumed prefix is %d", r.name, r.it.EncodedLen(), consumed), refV, true
		}
		for fam := 0; fam < 3; fam++ {
			ov, err := obs.Value(r.it, fam)
			if err != nil {
				return fmt.Sprintf("%s: accessor family %d: %v", r.name, fam, err), refV, true
			}
			if !e5.Same(ov, refV) {
				return fmt.Sprintf("%s: values read through family %d = %s, E5 grammar assigns %s", r.name, fam, ov, refV), refV, true
			}
		}
	}
	if refV.FC != e5.Empty && (!secs2.Equal(a.item, b.item)) && !hasNaN(refV) {
		return "Decode and DecodeOwned results are not Equal", refV, true
	}
	if msg := keepAndRecheck(a.item, refV); msg != "" {
		return msg, refV, true
	}
	return "", refV, true
}

// A decoded item is an independent value: the application may keep it while the decoder goes on to
// other inputs - accepted and rejected ones. The ledger keeps the items of earlier inputs of this
// process (the last 24, small ones) with the values the grammar assigns to them and re-reads one of
// them, leaf by leaf, after every later decode.
type keptItem struct {
	it   secs2.Item
	want e5.Value
}

var (
	keptMu   sync.Mutex
	keptRing []keptItem
	keptNext int
)

func keepAndRecheck(it secs2.Item, v e5.Value) string {
	keptMu.Lock()
	defer keptMu.Unlock()
	recheck := func(k keptItem) string {
		for fam := 0; fam < 3; fam++ {
			ov, err := obs.Value(k.it, fam)
			if err != nil {
				return fmt.Sprintf("an item decoded EARLIER and kept by the caller can no longer be read (family %d): %v", fam, err)
			}
			if !e5.Same(ov, k.want) {
				return fmt.Sprintf("an item decoded EARLIER and kept by the caller changed while later inputs were decoded: now %s, was %s", ov, k.want)
			}
		}
		return ""
	}
	if n := len(keptRing); n > 0 {
		if msg := recheck(keptRing[keptNext%n]); msg != "" {
			return msg
		}
	}
	if it != nil && it.EncodedLen() <= 4096 {
		if len(keptRing) < 24 {
			keptRing = append(keptRing, keptItem{it, v})
		} else {
			keptRing[keptNext%24] = keptItem{it, v}
		}
	}
	keptNext++
	return ""
}

// recheckKept re-reads every kept item (called after inputs the decoder REJECTED).
func recheckKept() string {
	keptMu.Lock()
	defer keptMu.Unlock()
	for _, k := range keptRing {
		for fam := 0; fam < 3; fam++ {
			ov, err := obs.Value(k.it, fam)
			if err != nil || !e5.Same(ov, k.want) {
				return fmt.Sprintf("an item decoded EARLIER and kept by the caller changed after the decoder rejected a later input: now %s (err %v), was %s", ov, err, k.want)
			}
		}
	}
	return ""
}

func TestC02Decode(t *testing.T) {
	ev.Rule("inputs = valid reference encodings of generated trees put through structured mutators (byte flips, truncation, format-byte / length-byte-count / length-field rewrites, valid non-canonical re-encodings, wrapping to depth 63..66, trailing bytes, splices, hostile headers claiming up to 2^24-1 bytes, nested hostile lists) plus random strings. Oracle: no panic; accept/reject and decoded values equal to the independent E5 reference decoder (both directions); ToBytes == consumed prefix; Decode and DecodeOwned agree; TotalAlloc delta <= (128+8x64)*len+256KiB; items of earlier inputs, kept by the caller (a ring of 24), still read the same after every later accepted or rejected input. Non-trivial: input >= 2 bytes that differs from a canonical valid encoding and is either accepted in non-canonical form or rejected; distinct by input bytes.")
	old := debug.SetGCPercent(-1)
	defer debug.SetGCPercent(old)
	n := 0
	vt.Check(t, 50000, 2000000, func(rt *rapid.T) {
		v := gen.Value(rt, gen.Opts{MaxDepth: 64, Budget: 8 << 10, NoBigCounts: true})
		in, kind := gen.MutateEncoding(rt, v)
		msg, _, accepted := checkDecode(in)
		canonical := kind == "valid"
		nontrivial := len(in) >= 2 && !canonical
		acc := "rejected"
		if accepted {
			acc = "accepted"
		}
		ev.Case(nontrivial, string(in), func() any {
			return map[string]any{"mutation": kind, "input": hexTrunc(in), "outcome": acc}
		}, "mut:"+kind, "mut:"+kind+":"+acc, acc)
		if msg != "" {
			rt.Fatalf("C02 violated (%s, %d bytes %s): %s", kind, len(in), hexTrunc(in), msg)
		}
		n++
		if n%2000 == 0 {
			runtime.GC()
		}
	})
}

// TestC02Hostile enumerates (not samples) the attacker-sized headers: every format code x every
// length-byte count x a set of claimed lengths, bare and as a list child, with 0..3 bytes of data.
func TestC02Hostile(t *testing.T) {
	old := debug.SetGCPercent(-1)
	defer debug.SetGCPercent(old)
	defer ev.Flush()
	ev.Rule("exhaustive family: all 64 format codes x length-byte counts 0..3 x claimed lengths {0,1,2,3,7,8,255,256,65535,65536,2^24-1} x 0..3 trailing data bytes x {bare, first child of a 2-list, nested 64 deep}; plus 1-65 nested lists each claiming the most children the remaining bytes (64 B - 65 kB) allow; same oracle as TestC02Decode")
	lengths := []int{0, 1, 2, 3, 7, 8, 255, 256, 65535, 65536, 1<<24 - 1}
	count := 0
	for fc := 0; fc < 64; fc++ {
		for nlen := 0; nlen <= 3; nlen++ {
			for _, L := range lengths {
				if nlen < 3 && L >= 1<<(8*uint(nlen)) {
					continue
				}
				for tail := 0; tail <= 3; tail++ {
					hdr := []byte{byte(fc)<<2 | byte(nlen)}
					for i := nlen - 1; i >= 0; i-- {
						hdr = append(hdr, byte(L>>(8*uint(i))))
					}
					for i := 0; i < tail; i++ {
						hdr = append(hdr, byte(0x41+i))
					}
					variants := [][]byte{hdr, append([]byte{0x01, 0x02}, hdr...)}
					deep := bytes.Repeat([]byte{0x01, 0x01}, 63)
					variants = append(variants, append(deep, hdr...))
					for vi, in := range variants {
						msg, _, accepted := checkDecode(in)
						acc := "rejected"
						if accepted {
							acc = "accepted"
						}
						ev.Case(true, string(in), func() any { return map[string]any{"input": hexTrunc(in), "outcome": acc} }, fmt.Sprintf("hostile:variant%d", vi), "hostile:"+acc)
						count++
						if msg != "" {
							t.Fatalf("VERIF-VIOLATION: C02 violated for hostile input %x: %s", in, msg)
						}
					}
				}
			}
		}
		runtime.GC()
	}
	// nested lists, each claiming as many children as the remaining bytes allow (the shape that
	// maximises what a decoder may pre-size from claims that pass a remaining-bytes check)
	for _, total := range []int{64, 200, 2318, 20000, 65000} {
		for _, depth := range []int{1, 8, 63, 64, 65} {
			in := make([]byte, 0, total)
			for d := 0; d < depth && len(in)+3 <= total; d++ {
				claim := min((total-len(in)-3)/2, 0xffff)
				in = append(in, 0x02, byte(claim>>8), byte(claim))
			}
			for len(in) < total {
				in = append(in, 0x02)
			}
			msg, _, accepted := checkDecode(in)
			acc := "rejected"
			if accepted {
				acc = "accepted"
			}
			ev.Case(true, string(in), func() any { return map[string]any{"input": hexTrunc(in), "outcome": acc} }, "hostile:max-claims", "hostile:"+acc)
			count++
			if msg != "" {
				t.Fatalf("VERIF-VIOLATION: C02 violated for %d nested lists claiming the most children %d bytes allow: %s", depth, total, msg)
			}
		}
	}
	t.Logf("enumerated %d hostile inputs", count)
}
