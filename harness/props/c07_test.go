package props

// C07: the data gate. A real connection is driven into each way of being not-selected; every
// data-sending entry point must fail with the right error, count exactly one drop and put nothing
// on the wire; inbound data while not selected is rejected with reason 4; data pipelined behind the
// Select that establishes the session is delivered under every segmentation.

import (
	"context"
	"errors"
	"fmt"
	"strings"
	"testing"
	"testing/synctest"
	"time"

	"github.com/arloliu/go-secs/v2/hsms"
	"github.com/arloliu/go-secs/v2/secs2"
	"pgregory.net/rapid"
	"verif/harness/ev"
	"verif/harness/netsim"
	"verif/harness/ref/e37"
	"verif/harness/vt"
)

var c07Situations = []string{"never-opened", "closed", "connecting", "connected-not-selected", "deselected", "between-generations", "select-rejected", "deselected-pipelined"}
var c07Entries = []string{"SendDataMessage/W", "SendDataMessage/noW", "SendDataMessageAsync", "SendSECS2Message", "ReplyDataMessage", "ForwardDataMessage", "ForwardDataMessageAsync"}

func callEntry(c hsms.Connection, entry string, n int) error {
	ctx, cancel := ctxT(2 * time.Second)
	defer cancel()
	body := secs2.A(fmt.Sprintf("gate-%d", n))
	switch entry {
	case "SendDataMessage/W":
		_, err := c.SendDataMessage(ctx, 1, 1, true, body)
		return err
	case "SendDataMessage/noW":
		_, err := c.SendDataMessage(ctx, 6, 11, false, body)
		return err
	case "SendDataMessageAsync":
		return c.SendDataMessageAsync(ctx, 1, 3, rapidBool(n), body)
	case "SendSECS2Message":
		_, err := c.SendSECS2Message(ctx, s2msg{2, 13, true, body})
		return err
	case "ReplyDataMessage":
		prim, err := hsms.NewDataMessage(1, 1, true, 0xffff, [4]byte{0, 0, 9, byte(n)}, secs2.NewEmptyItem())
		if err != nil {
			return fmt.Errorf("VERIF-INFRA: %w", err)
		}
		return c.ReplyDataMessage(ctx, prim, body)
	case "ForwardDataMessage", "ForwardDataMessageAsync":
		m, err := hsms.NewDataMessage(5, 1, true, 0xffff, [4]byte{0xf0, 0, 0, byte(n)}, body)
		if err != nil {
			return fmt.Errorf("VERIF-INFRA: %w", err)
		}
		if entry == "ForwardDataMessage" {
			return c.ForwardDataMessage(ctx, m)
		}
		return c.ForwardDataMessageAsync(ctx, m)
	}
	return fmt.Errorf("VERIF-INFRA: unknown entry %s", entry)
}

// s2msg is a caller-side secs2.SECS2Message.
type s2msg struct {
	s, f byte
	w    bool
	it   secs2.Item
}

func (m s2msg) StreamCode() uint8   { return m.s }
func (m s2msg) FunctionCode() uint8 { return m.f }
func (m s2msg) WaitBit() bool       { return m.w }
func (m s2msg) Item() secs2.Item    { return m.it }

func rapidBool(n int) bool { return n%2 == 0 }

func TestC07Gate(t *testing.T) {
	ev.Rule("(way of being not-selected: never opened / closed / connecting / connected-not-selected / deselected / select+deselect in one write / between reconnect generations / select rejected) x role x all 7 data-sending entry points in drawn order x 0-3 inbound data frames; plus pipelined Select+data under drawn segmentations (one write, arbitrary cuts, 1-byte drip); oracle: error identity, drop counter delta, zero data bytes seen by the raw peer, Reject reason 4 echoing session id/system bytes, no handler call, link still answers a Linktest; non-trivial = any case other than never-opened")
	vt.Bubble(t, func(t *testing.T) {
		vt.CheckBubble(t, 30000, 1500000, func(rt *rapid.T) {
			if rapid.IntRange(0, 3).Draw(rt, "part") == 0 {
				runC07Pipeline(rt)
			} else {
				runC07Gate(rt)
			}
		})
	})
}

func runC07Gate(rt *rapid.T) {
	active := rapid.Bool().Draw(rt, "active")
	sit := rapid.SampledFrom(c07Situations).Draw(rt, "situation")
	if !active && (sit == "select-rejected" || sit == "connecting") {
		sit = "connected-not-selected"
	}
	session := genSession(rt, 0x0101)
	w, err := newWorld(worldOpt{active: active, noListen: sit == "connecting", connOpts: []hsms.ConnOption{
		hsms.WithSessionID(session), hsms.WithT5(5 * time.Second), hsms.WithReconnectBackoff(time.Second, 2), hsms.WithT7(30 * time.Second), hsms.WithT6(10 * time.Second)}})
	if err != nil {
		rt.Fatalf("VERIF-INFRA: %v", err)
	}
	dl := &deliveries{}
	w.conn.AddDataMessageHandler(dl.handler)
	var p *netsim.Peer
	var hist []string
	defer func() {
		_ = w.conn.Close()
		if p != nil {
			p.Close()
		}
		if w.ln != nil {
			_ = w.ln.Close()
		}
		synctest.Wait()
	}()
	fail := func(f string, a ...any) {
		tr := ""
		if p != nil {
			tr = p.Transcript()
		}
		rt.Fatalf("C07 violated (active=%v situation=%s): %s\nhistory:\n  %s\nwire:\n%s", active, sit, fmt.Sprintf(f, a...), strings.Join(hist, "\n  "), tr)
	}
	open := func() {
		if err := w.conn.Open(context.Background(), hsms.OpenBackground); err != nil {
			rt.Fatalf("VERIF-INFRA: open: %v", err)
		}
	}
	linkUp := false // a TCP link to the peer exists in the tested situation
	wantErr := hsms.ErrNotSelectedState
	wantState := hsms.NotConnectedState
	switch sit {
	case "never-opened":
		wantErr = hsms.ErrNotOpen
	case "closed":
		open()
		if rapid.Bool().Draw(rt, "wasSelected") {
			p, err = w.peerUp(time.Second)
			if err != nil {
				rt.Fatalf("VERIF-INFRA: %v", err)
			}
			if err := w.selectAsPeer(p, 7); err != nil {
				rt.Fatalf("VERIF-INFRA: %v", err)
			}
		}
		if err := w.conn.Close(); err != nil {
			fail("Close: %v", err)
		}
		synctest.Wait()
	case "connecting":
		open()
		synctest.Wait()
	case "connected-not-selected":
		open()
		p, err = w.peerUp(time.Second)
		if err != nil {
			rt.Fatalf("VERIF-INFRA: %v", err)
		}
		synctest.Wait()
		linkUp, wantState = true, hsms.NotSelectedState
	case "deselected":
		open()
		p, err = w.peerUp(time.Second)
		if err != nil {
			rt.Fatalf("VERIF-INFRA: %v", err)
		}
		if err := w.selectAsPeer(p, 7); err != nil {
			rt.Fatalf("VERIF-INFRA: %v", err)
		}
		_ = p.Send(e37.Control(e37.DeselectReq, session, 0, 0, 8))
		synctest.Wait()
		linkUp, wantState = true, hsms.NotSelectedState
	case "deselected-pipelined":
		// the select and the deselect arrive in ONE write: the second is committed on the receive path
		// before the supervisor has processed the event of the first - a stale "select accepted" must
		// not put the session back into Selected
		open()
		p, err = w.peerUp(time.Second)
		if err != nil {
			rt.Fatalf("VERIF-INFRA: %v", err)
		}
		if active {
			f, ok := p.WaitFrame(0, func(f e37.Frame) bool { return f.SType == e37.SelectReq }, time.Second)
			if !ok {
				fail("no Select.req from the active endpoint")
			}
			_ = p.Send(e37.Control(e37.SelectRsp, f.F.Session, 0, 0, f.F.Sys), e37.Control(e37.DeselectReq, session, 0, 0, 8))
		} else {
			_ = p.Send(e37.Control(e37.SelectReq, session, 0, 0, 7), e37.Control(e37.DeselectReq, session, 0, 0, 8))
		}
		synctest.Wait()
		linkUp, wantState = true, hsms.NotSelectedState
	case "between-generations":
		open()
		p, err = w.peerUp(time.Second)
		if err != nil {
			rt.Fatalf("VERIF-INFRA: %v", err)
		}
		if err := w.selectAsPeer(p, 7); err != nil {
			rt.Fatalf("VERIF-INFRA: %v", err)
		}
		if w.ln != nil {
			_ = w.ln.Close() // the peer is unreachable while the library retries
		}
		if rapid.Bool().Draw(rt, "reset") {
			p.Reset()
		} else {
			p.Close()
		}
		p = nil
		synctest.Wait()
	case "select-rejected":
		open()
		p, err = w.peerUp(time.Second)
		if err != nil {
			rt.Fatalf("VERIF-INFRA: %v", err)
		}
		f, ok := p.WaitFrame(0, func(f e37.Frame) bool { return f.SType == e37.SelectReq }, time.Second)
		if !ok {
			fail("no Select.req from the active endpoint")
		}
		_ = w.ln.Close()
		_ = p.Send(e37.Control(e37.SelectRsp, f.F.Session, 0, byte(rapid.IntRange(2, 255).Draw(rt, "status")), f.F.Sys))
		synctest.Wait()
	}
	hist = append(hist, "situation established: "+sit)
	if got := w.conn.State(); got != wantState {
		fail("State()=%v in this situation, expected %v", got, wantState)
	}
	if p != nil {
		p.Take()
	}
	// every send entry point, in drawn order
	entries := rapid.Permutation(c07Entries).Draw(rt, "entries")
	for i, e := range entries {
		before := w.conn.Metrics().DataMsgDropNotSelectedCount()
		sent := w.conn.Metrics().DataMsgSendCount()
		err := callEntry(w.conn, e, i)
		hist = append(hist, fmt.Sprintf("%s -> %v", e, err))
		if err != nil && strings.Contains(err.Error(), "VERIF-INFRA") {
			rt.Fatalf("%v", err)
		}
		if !errors.Is(err, wantErr) {
			fail("%s returned %v, want %v", e, err, wantErr)
		}
		synctest.Wait()
		wantDrop := uint64(1)
		if sit == "never-opened" {
			wantDrop = 0
		}
		if d := w.conn.Metrics().DataMsgDropNotSelectedCount() - before; d != wantDrop {
			fail("%s counted %d not-selected drops, want exactly %d", e, d, wantDrop)
		}
		if w.conn.Metrics().DataMsgSendCount() != sent {
			fail("%s: the data-sent counter moved although the send was refused", e)
		}
		if linkUp {
			for _, rf := range p.Take() {
				if rf.F.IsData() {
					fail("%s put a data message on the wire while not selected: %v", e, rf.F)
				}
			}
		}
	}
	// inbound data while not selected
	if linkUp {
		k := rapid.IntRange(0, 3).Draw(rt, "inbound")
		var frames []e37.Frame
		for i := 0; i < k; i++ {
			fn := byte(rapid.IntRange(0, 255).Draw(rt, "fn"))
			frames = append(frames, e37.DataFrame(genSession(rt, session), byte(rapid.IntRange(0, 127).Draw(rt, "s")), fn, fn%2 == 1 && rapid.Bool().Draw(rt, "w"),
				genSys(rt, nil), genBody(rt)))
		}
		if k > 0 {
			if rapid.Bool().Draw(rt, "oneWrite") {
				_ = p.Send(frames...)
			} else {
				for _, f := range frames {
					_ = p.Send(f)
				}
			}
			synctest.Wait()
			got := p.Take()
			if len(got) != k {
				fail("%d inbound data frames while not selected were answered by %d frames %v", k, len(got), got)
			}
			for i, rf := range got {
				want := e37.Frame{Session: frames[i].Session, B2: 0, B3: 4, SType: e37.RejectReq, Sys: frames[i].Sys}
				if !frameEq(rf.F, want) {
					fail("inbound %v answered by %v, want %v", frames[i], rf.F, want)
				}
				hist = append(hist, fmt.Sprintf("inbound %v -> %v", frames[i], rf.F))
			}
			if d := dl.take(); len(d) != 0 {
				fail("%d data messages reached the handlers while not selected", len(d))
			}
		}
		if !barrier(p, 1, time.Second) {
			fail("control traffic stopped working: no Linktest.rsp")
		}
		if eof, _, _ := p.EOF(); eof {
			fail("the link was dropped")
		}
	}
	role := "passive"
	if active {
		role = "active"
	}
	ev.Case(sit != "never-opened", fmt.Sprint(role, sit, entries, hist), func() any {
		return map[string]any{"role": role, "situation": sit, "history": hist}
	}, "c07:"+sit, "c07:role:"+role)
}

// runC07Pipeline: the peer pipelines k data frames directly behind the Select.req (passive
// library) or Select.rsp (active library) under a drawn segmentation.
func runC07Pipeline(rt *rapid.T) {
	active := rapid.Bool().Draw(rt, "active")
	session := genSession(rt, 0x0101)
	w, err := newWorld(worldOpt{active: active, connOpts: []hsms.ConnOption{hsms.WithSessionID(session), hsms.WithT8(5 * time.Second)}})
	if err != nil {
		rt.Fatalf("VERIF-INFRA: %v", err)
	}
	dl := &deliveries{}
	w.conn.AddDataMessageHandler(dl.handler)
	var p *netsim.Peer
	defer func() {
		_ = w.conn.Close()
		if p != nil {
			p.Close()
		}
		if w.ln != nil {
			_ = w.ln.Close()
		}
		synctest.Wait()
	}()
	if err := w.conn.Open(context.Background(), hsms.OpenBackground); err != nil {
		rt.Fatalf("VERIF-INFRA: open: %v", err)
	}
	p, err = w.peerUp(time.Second)
	if err != nil {
		rt.Fatalf("VERIF-INFRA: %v", err)
	}
	var first e37.Frame
	if active {
		f, ok := p.WaitFrame(0, func(f e37.Frame) bool { return f.SType == e37.SelectReq }, time.Second)
		if !ok {
			rt.Fatalf("C07 violated: no Select.req from the active endpoint\n%s", p.Transcript())
		}
		first = e37.Control(e37.SelectRsp, f.F.Session, 0, 0, f.F.Sys)
	} else {
		first = e37.Control(e37.SelectReq, session, 0, 0, 0x5e1ec7)
	}
	synctest.Wait()
	p.Take()
	k := rapid.IntRange(1, 6).Draw(rt, "k")
	stream := first.Bytes()
	var data []e37.Frame
	for i := 0; i < k; i++ {
		fn := byte(rapid.IntRange(0, 255).Draw(rt, "fn"))
		f := e37.DataFrame(session, byte(rapid.IntRange(0, 127).Draw(rt, "s")), fn, false, 0x1000+uint32(i), genBody(rt))
		data = append(data, f)
		stream = append(stream, f.Bytes()...)
	}
	mode := rapid.SampledFrom([]string{"one-write", "cuts", "drip", "cuts-settle"}).Draw(rt, "segmentation")
	var cuts []int
	switch mode {
	case "cuts", "cuts-settle":
		n := rapid.IntRange(1, 6).Draw(rt, "ncuts")
		for i := 0; i < n; i++ {
			cuts = append(cuts, rapid.IntRange(1, len(stream)-1).Draw(rt, "cut"))
		}
	case "drip":
		for i := 1; i < len(stream); i++ {
			cuts = append(cuts, i)
		}
	}
	segs := splitAt(stream, cuts)
	for _, s := range segs {
		if err := p.SendRaw(s); err != nil {
			rt.Fatalf("C07 violated: peer write failed: %v", err)
		}
		if mode == "cuts-settle" {
			synctest.Wait()
		}
	}
	synctest.Wait()
	got := p.Take()
	for _, rf := range got {
		if rf.F.SType == e37.RejectReq {
			rt.Fatalf("C07 violated (active=%v %s): data pipelined behind the select was rejected: %v\n%s", active, mode, rf.F, p.Transcript())
		}
	}
	d := dl.take()
	if len(d) != k {
		rt.Fatalf("C07 violated (active=%v %s, segments %v): %d of %d pipelined data messages were delivered\n%s", active, mode, segLens(segs), len(d), k, p.Transcript())
	}
	for i := range d {
		if d[i].hdr != data[i].Header() || d[i].blen != len(data[i].Body) {
			rt.Fatalf("C07 violated: pipelined message %d delivered out of order or altered: got header %x, sent %v", i, d[i].hdr, data[i])
		}
	}
	if w.conn.State() != hsms.SelectedState {
		rt.Fatalf("C07 violated: State()=%v after the select handshake", w.conn.State())
	}
	role := "passive"
	if active {
		role = "active"
	}
	ev.Case(true, fmt.Sprint("pipe", role, mode, segLens(segs), k), func() any {
		return map[string]any{"role": role, "pipelined": k, "segmentation": mode, "segments": segLens(segs)}
	}, "c07:pipeline:"+mode, "c07:role:"+role)
}

// splitAt cuts b at the given offsets (duplicates and order do not matter).
func splitAt(b []byte, cuts []int) [][]byte {
	mark := make([]bool, len(b)+1)
	for _, c := range cuts {
		if c > 0 && c < len(b) {
			mark[c] = true
		}
	}
	var out [][]byte
	start := 0
	for i := 1; i <= len(b); i++ {
		if i == len(b) || mark[i] {
			out = append(out, b[start:i])
			start = i
		}
	}
	return out
}

func segLens(s [][]byte) []int {
	out := make([]int, len(s))
	for i := range s {
		out[i] = len(s[i])
	}
	if len(out) > 12 {
		return append(out[:12:12], -len(s))
	}
	return out
}

// TestC07ClosingStuck (REAL time): Close from Selected against a peer that has stopped reading. The
// state is NotConnected at once, but the socket stays open while the courtesy Separate is stuck in
// its write (up to 500 ms); what the peer writes in that window is data received while not selected.
// (Not runnable in a bubble: the Reject the library owes the peer queues behind the stuck write.)
func TestC07ClosingStuck(t *testing.T) {
	ev.Rule("HSMS-SS, both roles, real time: Selected; the peer stops reading (window 0); Close is called and parks in its farewell write; as soon as State() reports NotConnected the peer writes 1-3 data frames (primaries and secondaries, drawn stream/function/W); oracle: no handler is called for them, neither before nor after Close returns, and Close returns nil within 4 s; non-trivial = always")
	vt.Check(t, 60, 3000, func(rt *rapid.T) {
		active := rapid.Bool().Draw(rt, "active")
		session := genSession(rt, 0x0101)
		w, err := newWorld(worldOpt{active: active, connOpts: []hsms.ConnOption{hsms.WithSessionID(session), hsms.WithT7(30 * time.Second), hsms.WithT6(10 * time.Second), hsms.WithCloseTimeout(time.Second)}})
		if err != nil {
			rt.Fatalf("VERIF-INFRA: %v", err)
		}
		w.realTime = true
		dl := &deliveries{}
		w.conn.AddDataMessageHandler(dl.handler)
		if err := w.conn.Open(context.Background(), hsms.OpenBackground); err != nil {
			rt.Fatalf("VERIF-INFRA: open: %v", err)
		}
		p, err := w.peerUp(5 * time.Second)
		if err != nil {
			rt.Fatalf("VERIF-INFRA: %v", err)
		}
		closed := make(chan error, 1)
		defer func() {
			p.Close()
			if w.ln != nil {
				_ = w.ln.Close()
			}
			go func() { _ = w.conn.Close() }()
		}()
		if err := w.selectAsPeer(p, 7); err != nil {
			rt.Fatalf("VERIF-INFRA: %v", err)
		}
		if !waitState(w.conn, hsms.SelectedState, 3*time.Second) {
			rt.Fatalf("VERIF-INFRA: never Selected")
		}
		dl.take()
		p.C.SetInboundWindow(0)
		p.C.StallInbound(true)
		go func() { closed <- w.conn.Close() }()
		if !waitState(w.conn, hsms.NotConnectedState, 3*time.Second) {
			rt.Fatalf("C07 violated: State() did not report NotConnected within 3 s of Close")
		}
		k := rapid.IntRange(1, 3).Draw(rt, "frames")
		var sent []string
		for i := 0; i < k; i++ {
			fn := byte(rapid.IntRange(0, 255).Draw(rt, "fn"))
			f := e37.DataFrame(session, byte(rapid.IntRange(0, 127).Draw(rt, "s")), fn, fn%2 == 1 && rapid.Bool().Draw(rt, "w"), genSys(rt, nil), genBody(rt))
			_ = p.Send(f)
			sent = append(sent, fmt.Sprint(f))
		}
		time.Sleep(30 * time.Millisecond)
		if d := dl.take(); len(d) != 0 {
			rt.Fatalf("C07 violated (active=%v): %d of the data messages %v, written by the peer while Close was in progress and State() was NotConnected, reached the handlers", active, len(d), sent)
		}
		select {
		case e := <-closed:
			if e != nil {
				rt.Fatalf("C07 violated: Close returned %v", e)
			}
		case <-time.After(4 * time.Second):
			rt.Fatalf("C07 violated: Close did not return within 4 s (close timeout 1 s, farewell bound 500 ms)")
		}
		time.Sleep(10 * time.Millisecond)
		if d := dl.take(); len(d) != 0 {
			rt.Fatalf("C07 violated (active=%v): %d data messages reached the handlers after Close returned", active, len(d))
		}
		role := "passive"
		if active {
			role = "active"
		}
		ev.Case(true, fmt.Sprint(active, sent), func() any { return sent }, "c07:closing-stuck", "c07cs:role:"+role)
	})
}
