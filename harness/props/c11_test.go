package props

// C11 (end to end): after any involuntary loss of an established or half-established link an open
// connection re-dials (re-listens) with the configured backoff and recovers to a working Selected
// session. Virtual time: every backoff gap is compared exactly with ref/fsm.Backoff.

import (
	"context"
	"errors"
	"fmt"
	"strings"
	"testing"
	"testing/synctest"
	"time"

	"github.com/arloliu/go-secs/v2/hsms"
	"github.com/arloliu/go-secs/v2/secs2"
	"pgregory.net/rapid"
	"verif/harness/ev"
	"verif/harness/netsim"
	"verif/harness/ref/e37"
	"verif/harness/ref/fsm"
	"verif/harness/vt"
)

type c11Case struct {
	active   bool
	fault    string // cut-in cut-out t6 t7 t8 write-timeout linktest select-rejected peer-close
	offset   int64
	status   byte
	refusals int
	initial  time.Duration
	mult     float64
	t5       time.Duration
	atFirst  bool          // the fault hits the very first generation (otherwise a second one)
	cold     int           // active only: the first `cold` dials of the very first Open are refused (cold peer)
	thenDead bool          // after the recovery the peer falls silent: the auto-linktest (interval 2 s) must drop the link and the connection must recover once more
	newT5    time.Duration // != 0: T5 is changed at runtime (UpdateConfigOptions) in the middle of the second backoff sleep of the recovery
}

const (
	c11T6 = 200 * time.Millisecond
	c11T7 = 300 * time.Millisecond
	c11T8 = 100 * time.Millisecond
	c11WT = 250 * time.Millisecond
	c11LT = 50 * time.Millisecond
	// c11SlowLT: linktest interval of the "thenDead" follow-up
	c11SlowLT = 2 * time.Second
)

// c11Exchange runs the connect/select/first-data/linktest exchange from the peer's side on p and
// reports how far it got; any step may fail because of the planned fault.
func c11Exchange(w *world, p *netsim.Peer, sel bool) (selected, dataOK, linktestOK bool) {
	if sel {
		if err := w.selectAsPeer(p, 0x5e1ec7); err != nil {
			return
		}
		selected = true
	}
	p.SetOnFrame(func(f e37.Frame) {
		if f.IsData() && f.WBit() {
			_ = p.Send(e37.DataFrame(f.Session, f.Stream(), f.Function()+1, false, f.Sys, asciiBody("pong")))
		}
	})
	ctx, cancel := ctxT(150 * time.Millisecond)
	rep, err := w.conn.SendDataMessage(ctx, 1, 13, true, secs2.A("ping"))
	cancel()
	dataOK = err == nil && rep != nil
	if !dataOK {
		return
	}
	linktestOK = barrier(p, 77, 200*time.Millisecond)
	return
}

func runC11(rt interface {
	Fatalf(string, ...any)
}, c c11Case) (classes []string, hist []string) {
	opts := []hsms.ConnOption{hsms.WithT3(time.Second), hsms.WithT5(c.t5), hsms.WithT6(c11T6), hsms.WithT7(c11T7), hsms.WithT8(c11T8),
		hsms.WithReconnectBackoff(c.initial, c.mult), hsms.WithWriteTimeout(c11WT), hsms.WithLinktestFailThreshold(2), hsms.WithCloseTimeout(2 * time.Second)}
	if c.fault == "linktest" {
		opts = append(opts, hsms.WithLinktestInterval(c11LT))
	} else if c.thenDead {
		// longer than anything the first fault does (no probe falls due while a write is stalled)
		opts = append(opts, hsms.WithLinktestInterval(c11SlowLT))
	}
	w, err := newWorld(worldOpt{active: c.active, connOpts: opts})
	if err != nil {
		rt.Fatalf("VERIF-INFRA: %v", err)
	}
	var peers []*netsim.Peer
	defer func() {
		_ = w.conn.Close()
		for _, p := range peers {
			p.Close()
		}
		if w.ln != nil {
			_ = w.ln.Close()
		}
		synctest.Wait()
	}()
	t0 := time.Now()
	logf := func(f string, a ...any) {
		hist = append(hist, fmt.Sprintf("+%v ", time.Since(t0))+fmt.Sprintf(f, a...))
	}
	fail := func(f string, a ...any) {
		var ev []string
		for _, e := range w.nw.Events() {
			ev = append(ev, fmt.Sprintf("+%v %s", e.At.Sub(t0), e.Kind))
		}
		var wire strings.Builder
		for g, p := range peers {
			fmt.Fprintf(&wire, " connection %d:\n%s", g+1, p.Transcript())
		}
		rt.Fatalf("C11 violated (%+v): %s\nhistory:\n  %s\ndial/listen log:\n  %s\nwire:\n%s", c, fmt.Sprintf(f, a...), strings.Join(hist, "\n  "), strings.Join(ev, "\n  "), wire.String())
	}
	if c.active && c.cold > 0 {
		w.nw.RefuseNextDials(c.cold)
	}
	if err := w.conn.Open(context.Background(), hsms.OpenBackground); err != nil {
		rt.Fatalf("VERIF-INFRA: open: %v", err)
	}
	// checkGaps compares the instants of consecutive attempts with the reference backoff sequence
	checkGaps := func(what string, prev time.Time, tries []time.Time, t5For func(iter int) time.Duration) {
		delay := c.initial
		prevGap := time.Duration(0)
		for i, at := range tries {
			t5 := t5For(i) // the configuration is read at the top of every iteration, before its sleep
			want := min(delay, t5)
			gap := at.Sub(prev)
			if gap != want {
				fail("%s: attempt %d came %v after the previous failure, the backoff prescribes %v (initial %v x%v, T5 %v in force for this attempt)", what, i, gap, want, c.initial, c.mult, t5)
			}
			if (gap < prevGap && t5For(i) >= t5For(max(i-1, 0))) || gap > t5 || gap <= 0 {
				fail("%s: backoff gap %v after %v: must be positive, non-decreasing (unless T5 was lowered) and <= T5 %v", what, gap, prevGap, t5)
			}
			prevGap = gap
			prev = at
			delay, _ = fsm.Backoff(delay, c.mult, t5)
		}
	}
	fixedT5 := func(int) time.Duration { return c.t5 }
	up := func() *netsim.Peer {
		p, err := w.peerUp(60 * time.Second)
		if err != nil {
			fail("the link was not re-established: %v", err)
		}
		peers = append(peers, p)
		p.SetAuto(true, false)
		return p
	}
	coldChecked := false
	coldCheck := func() {
		if coldChecked || !c.active {
			return
		}
		coldChecked = true
		// the very first connect - even one that had to retry a cold peer - is not a reconnect, and
		// its retries follow the same backoff schedule
		var dials []time.Time
		for _, e := range w.nw.Events() {
			if e.Kind == "dial" {
				dials = append(dials, e.At)
			}
		}
		if len(dials) != c.cold+1 {
			fail("cold start: %d dials for %d refusals + 1 success", len(dials), c.cold)
		}
		checkGaps("cold start", dials[0], dials[1:], fixedT5)
		if n := w.conn.Metrics().Reconnects(); n != 0 {
			fail("Reconnects()=%d after the very first connect (%d cold retries): the first Open is never a reconnect", n, c.cold)
		}
		if c.cold > 0 {
			classes = append(classes, "c11:cold-start")
		}
	}
	if !c.atFirst {
		p := up()
		coldCheck()
		if sel, d, l := c11Exchange(w, p, true); !sel || !d || !l {
			fail("the undisturbed first generation did not work (select=%v data=%v linktest=%v)", sel, d, l)
		}
		logf("first generation healthy")
		// end it plainly so that the faulted generation is a reconnect generation
		p.C.Reset()
		_ = p.C.Close()
		synctest.Wait()
	}
	p := up()
	synctest.Wait()
	coldCheck()
	reconnectsBefore := w.conn.Metrics().Reconnects()
	evIdx := len(w.nw.Events()) // dial/listen attempts from here on belong to the recovery
	logf("faulted generation up")
	var endAt, wtStart, deselAt time.Time
	switch c.fault {
	case "cut-in": // the link dies after the peer has WRITTEN offset bytes (library inbound direction)
		p.C.CutAfterWritten(c.offset, nil)
		c11Exchange(w, p, true)
	case "cut-out": // ... after the peer has READ offset bytes (library outbound direction)
		p.C.CutAfterRead(c.offset, nil)
		c11Exchange(w, p, true)
	case "peer-close":
		c11Exchange(w, p, true)
		_ = p.C.Close()
	case "t7-after-deselect":
		// the session is selected, the peer deselects and then goes silent: the NOT SELECTED dwell
		// starts anew at the deselect, and its T7 expiry is a link failure like any other
		if err := w.selectAsPeer(p, 0x5e1ec7); err != nil {
			fail("select: %v", err)
		}
		if c.offset%2 == 0 {
			time.Sleep(time.Duration(c.offset%100) * time.Millisecond) // the dwell armed at TCP-up is long gone, or not
		}
		_ = p.Send(e37.Control(e37.DeselectReq, 0xffff, 0, 0, 0xde5e1))
		deselAt = time.Now()
	case "t6", "t7": // nobody completes the select: active waits T6, passive dwells T7
	case "t8":
		if rapid0(c.offset)%2 == 0 {
			_ = w.selectAsPeer(p, 0x5e1ec7)
		}
		// a drawn prefix (1..13 bytes) of a valid frame, then silence: T8 covers the length field, the
		// boundary between length and header, and the header alike
		fr := e37.DataFrame(0xffff, 1, 1, false, 0x1234, []byte{0x41, 0x02, 'h', 'i'}).Bytes()
		_ = p.SendRaw(fr[:1+int(c.offset%13)])
	case "write-timeout":
		if err := w.selectAsPeer(p, 0x5e1ec7); err != nil {
			fail("select: %v", err)
		}
		p.C.SetInboundWindow(4)
		p.C.StallInbound(true)
		wtStart = time.Now()
		go func() {
			ctx, cancel := ctxT(time.Second)
			defer cancel()
			_, _ = w.conn.SendDataMessage(ctx, 1, 1, c.offset%2 == 0, secs2.A("into the void")) // with or without the W-bit
		}()
	case "linktest":
		if err := w.selectAsPeer(p, 0x5e1ec7); err != nil {
			fail("select: %v", err)
		}
		p.SetAuto(false, false)
	case "select-rejected":
		f, ok := p.WaitFrame(0, func(f e37.Frame) bool { return f.SType == e37.SelectReq }, time.Second)
		if !ok {
			fail("no Select.req")
		}
		_ = p.Send(e37.Control(e37.SelectRsp, f.F.Session, 0, c.status, f.F.Sys))
	}
	// refuse the next k attempts, then become reachable again
	if c.active {
		w.nw.RefuseNextDials(c.refusals)
	} else {
		w.nw.FailNextListens(c.refusals)
	}
	if c.fault == "write-timeout" {
		time.Sleep(c11WT + 10*time.Millisecond)
		p.C.StallInbound(false)
	}
	bound := 2 * time.Second
	if !p.WaitEOF(bound) {
		if c.fault == "cut-in" || c.fault == "cut-out" {
			// the cut point lies beyond what this exchange transfers: the link simply stays up
			p.C.CutAfterWritten(-1, nil)
			p.C.CutAfterRead(-1, nil)
			if !barrier(p, 5, time.Second) || w.conn.State() != hsms.SelectedState {
				fail("no fault was hit, yet the link is not healthy")
			}
			return append(classes, "c11:cut-beyond-exchange"), hist
		}
		fail("the %s fault did not end the connection within %v", c.fault, bound)
	}
	_, endAt, _ = p.EOF()
	if c.fault == "write-timeout" {
		// the peer's reader was stalled and saw the end late; the write deadline is what ended it
		endAt = wtStart.Add(c11WT)
	}
	logf("faulted generation ended (%s)", c.fault)
	switch c.fault {
	case "t7-after-deselect":
		if d := endAt.Sub(deselAt); d != c11T7 {
			fail("after a Deselect.req and silence the link was ended %v after the deselect, T7 is %v", d, c11T7)
		}
	case "t6":
		if d := endAt.Sub(peers[len(peers)-1].Frames()[0].At); c.active && d != c11T6 {
			fail("the unanswered Select.req was given up after %v, T6 is %v", d, c11T6)
		}
	}
	// a redundant Open while the reconnect loop is backing off must be refused WITHOUT side effects:
	// the recovery below (and its exact backoff schedule) must be unaffected
	if c.offset%3 == 0 {
		synctest.Wait()
		if err := w.conn.Open(context.Background(), hsms.OpenBackground); !errors.Is(err, hsms.ErrAlreadyOpen) {
			fail("Open on an open connection (reconnecting) returned %v, want ErrAlreadyOpen", err)
		}
		classes = append(classes, "c11:redundant-open")
	}
	// runtime reconfiguration in the middle of the outage: T5 is changed while the reconnect loop is
	// in its SECOND backoff sleep; the sleep in progress keeps its length, every later one is capped
	// by the new T5
	t5For := fixedT5
	if c.newT5 != 0 {
		g0 := min(c.initial, c.t5)
		d1, _ := fsm.Backoff(c.initial, c.mult, c.t5)
		g1 := min(d1, c.t5)
		time.Sleep(time.Until(endAt.Add(g0 + g1/2)))
		if err := w.conn.UpdateConfigOptions(hsms.WithT5(c.newT5)); err != nil {
			fail("UpdateConfigOptions(WithT5(%v)) in the middle of an outage: %v", c.newT5, err)
		}
		logf("T5 changed to %v at runtime", c.newT5)
		t5For = func(i int) time.Duration {
			if i >= 2 {
				return c.newT5
			}
			return c.t5
		}
		classes = append(classes, "c11:t5-changed-at-runtime")
	}
	// recovery (first let the dying generation finish its teardown: a dial that races it is accepted
	// by the old generation's refuse loop and closed at once, exactly as on a real network)
	synctest.Wait()
	p2 := up()
	if err := w.selectAsPeer(p2, 0x5e1ec8); err != nil {
		fail("the recovered link could not be selected: %v", err)
	}
	if got := w.conn.State(); got != hsms.SelectedState {
		fail("State()=%v after the recovered link was selected", got)
	}
	if _, d, l := c11Exchange(w, p2, false); !d || !l {
		fail("the recovered session does not work (data=%v linktest=%v)", d, l)
	}
	logf("recovered")
	// the attempts between the end of the faulted generation and the recovery
	kindTry, kindFail, kindOK := "dial", "dial-refused", "dial-ok"
	if !c.active {
		kindTry, kindFail, kindOK = "listen", "listen-fail", "listen"
	}
	var tries []time.Time
	for _, e := range w.nw.Events()[evIdx:] {
		if c.active && e.Kind == kindTry {
			tries = append(tries, e.At)
		}
		if !c.active && (e.Kind == kindFail || e.Kind == kindOK) {
			tries = append(tries, e.At)
		}
	}
	if len(tries) != c.refusals+1 {
		fail("%d reconnect attempts after the fault, expected %d refused + 1 successful", len(tries), c.refusals)
	}
	checkGaps("recovery", endAt, tries, t5For)
	if c.active {
		if d := w.conn.Metrics().Reconnects() - reconnectsBefore; d != 1 {
			fail("Reconnects() grew by %d over one successful re-dial", d)
		}
	}
	_ = kindFail
	if c.thenDead {
		// The recovered session is as well protected as the first one: when its peer falls silent the
		// auto-linktest drops it within a few intervals (whatever the earlier failure left behind in
		// the bookkeeping the linktest consults), and the connection recovers once more.
		p2.SetAuto(false, false)
		bound := 4*(c11SlowLT+c11T6) + time.Second
		if !p2.WaitEOF(bound) {
			fail("after the recovery the peer fell silent, but the auto-linktest (interval %v, T6 %v, threshold 2) did not drop the link within %v", c11SlowLT, c11T6, bound)
		}
		logf("silent peer dropped by the linktest")
		synctest.Wait()
		p3 := up()
		if err := w.selectAsPeer(p3, 0x5e1ec9); err != nil {
			fail("the link recovered after the linktest drop could not be selected: %v", err)
		}
		if _, d, l := c11Exchange(w, p3, false); !d || !l {
			fail("the session recovered after the linktest drop does not work (data=%v linktest=%v)", d, l)
		}
		classes = append(classes, "c11:then-dead")
	}
	// no reconnect after Close
	if err := w.conn.Close(); err != nil {
		fail("Close: %v", err)
	}
	n := len(w.nw.Events())
	time.Sleep(3 * max(c.t5, c.newT5))
	if evs := w.nw.Events(); len(evs) != n {
		fail("a %s happened after Close", evs[n].Kind)
	}
	role := "passive"
	if c.active {
		role = "active"
	}
	return append(classes, "c11:fault:"+c.fault, "c11:role:"+role, fmt.Sprintf("c11:refusals:%d", min(c.refusals, 3))), hist
}

func rapid0(x int64) int64 { return x }

func TestC11Recovery(t *testing.T) {
	ev.Rule("(role, fault, refusals 0..8, backoff initial/multiplier/T5, faulted generation first or second): fault = reset after the peer wrote / read a drawn number of bytes of the connect-select-data-linktest exchange, peer close, unanswered select (T6), silent peer (T7), Deselect.req followed by silence (T7 counted from the deselect), partial frame (T8), closed window (write timeout), dead linktest, Select.rsp status 2..255; then k refused dials / failed listens; optionally, after the recovery, the peer falls silent and the auto-linktest (interval 2 s) must drop the link and the connection recover once more; optionally T5 changed at runtime (UpdateConfigOptions) in the middle of the second backoff sleep: later sleeps are capped by the new value; active: 0-4 refused dials before the very first connection (cold start: same backoff schedule, Reconnects() stays 0); oracle: every gap between attempts equals the ref/fsm.Backoff sequence exactly (virtual time), positive, non-decreasing, <= T5; the link is re-established, re-selected, a reply-expected round trip and a linktest work; Reconnects() +1 per successful re-dial (active); nothing is dialled or listened after Close; non-trivial = the fault lands after the first byte of an exchange, or k >= 2")
	vt.Bubble(t, func(t *testing.T) {
		vt.CheckBubble(t, 4000, 200000, func(rt *rapid.T) {
			c := c11Case{active: rapid.Bool().Draw(rt, "active")}
			faults := []string{"cut-in", "cut-in", "cut-out", "cut-out", "peer-close", "t8", "write-timeout", "linktest", "t7-after-deselect"}
			if c.active {
				faults = append(faults, "t6", "select-rejected")
			} else {
				faults = append(faults, "t7")
			}
			c.fault = rapid.SampledFrom(faults).Draw(rt, "fault")
			c.offset = int64(rapid.IntRange(0, 80).Draw(rt, "offset"))
			c.status = byte(rapid.IntRange(2, 255).Draw(rt, "status"))
			c.refusals = rapid.SampledFrom([]int{0, 0, 1, 2, 3, 5, 8}).Draw(rt, "refusals")
			c.initial = time.Duration(rapid.SampledFrom([]int{5, 20, 100, 400}).Draw(rt, "initialMs")) * time.Millisecond
			c.mult = rapid.SampledFrom([]float64{1, 1.5, 2, 3, 10}).Draw(rt, "mult")
			c.t5 = time.Duration(rapid.SampledFrom([]int{50, 150, 1000}).Draw(rt, "t5Ms")) * time.Millisecond
			c.atFirst = rapid.Bool().Draw(rt, "atFirst")
			if c.active {
				c.cold = rapid.SampledFrom([]int{0, 0, 1, 2, 4}).Draw(rt, "cold")
			}
			if c.fault == "peer-close" || c.fault == "t8" || c.fault == "write-timeout" { // (probes would shift the byte offsets of the cut faults)
				c.thenDead = rapid.IntRange(0, 3).Draw(rt, "thenDead") == 0
			}
			if c.refusals >= 2 && c.fault != "write-timeout" && c.offset%3 != 0 && rapid.Bool().Draw(rt, "retune") {
				c.newT5 = time.Duration(rapid.SampledFrom([]int{10, 30, 80, 400, 3000}).Draw(rt, "newT5Ms")) * time.Millisecond
			}
			cls, hist := runC11(rt, c)
			ev.Case(c.offset > 0 || c.refusals >= 2, fmt.Sprintf("%+v", c), func() any { return map[string]any{"case": fmt.Sprintf("%+v", c), "history": hist} }, cls...)
		})
	})
}

type tFatal struct{ t *testing.T }

func (f tFatal) Fatalf(s string, a ...any) { f.t.Fatalf("VERIF-VIOLATION: "+s, a...) }

// TestC11CutEnumeration cuts the link at EVERY byte offset, in both directions, of the
// connect/select/first-data/linktest exchange, for both roles.
func TestC11CutEnumeration(t *testing.T) {
	defer ev.Flush()
	vt.Bubble(t, func(t *testing.T) {
		for _, active := range []bool{true, false} {
			for _, dir := range []string{"cut-in", "cut-out"} {
				beyond := 0
				for off := int64(0); off < 200 && beyond < 2; off++ {
					c := c11Case{active: active, fault: dir, offset: off, refusals: int(off % 3), initial: 20 * time.Millisecond, mult: 2, t5: 150 * time.Millisecond, atFirst: off%2 == 0}
					cls, hist := runC11(tFatal{t}, c)
					for _, cl := range cls {
						if cl == "c11:cut-beyond-exchange" {
							beyond++
						}
					}
					ev.Case(off > 0, fmt.Sprintf("enum %+v", c), func() any { return map[string]any{"case": fmt.Sprintf("%+v", c), "history": hist} }, append(cls, "c11:enumerated")...)
				}
			}
		}
	})
}
