package props

// C03 / C04 at the frame-size cap: message lengths within a few bytes of 2^24-1 (the largest length
// an HSMS receiver has to accept), enumerated exhaustively - random generation never gets here.

import (
	"bytes"
	"context"
	"fmt"
	"sync"
	"testing"
	"testing/synctest"
	"time"

	"github.com/arloliu/go-secs/v2/hsms"
	"github.com/arloliu/go-secs/v2/secs2"
	"verif/harness/ev"
	"verif/harness/ref/e37"
	"verif/harness/vt"
)

func TestC03SizeCap(t *testing.T) {
	defer ev.Flush()
	ev.Rule("enumerated: message length field L = 2^24-1-8 .. 2^24-1+12 with exactly L bytes following (header of a data message S1F1, body one Binary item filling the rest). L <= 2^24-1: the message is also BUILT through NewDataMessage over a Binary item, its ToBytes must equal the reference frame, and DecodeHSMSMessage / DecodeHSMSPayload / DecodeOwnedHSMSPayload must accept the bytes and re-serialize them identically; L > 2^24-1: every decode entry point must reject. Non-trivial: all (each L is within 12 of the cap)")
	const capLen = e37.MaxLen
	for L := capLen - 8; L <= capLen+12; L++ {
		n := L - 10 - 4 // one Binary item with a 3-byte length: 4 header bytes + n
		body := make([]byte, 0, 4+n)
		body = append(body, 0x23, byte(n>>16), byte(n>>8), byte(n))
		body = append(body, make([]byte, n)...)
		for i := 4; i < len(body); i += 4099 {
			body[i] = byte(i)
		}
		frame := make([]byte, 0, 4+L)
		frame = append(frame, byte(L>>24), byte(L>>16), byte(L>>8), byte(L))
		frame = append(frame, 0xff, 0xff, 0x01, 0x01, 0, 0, 0, 0, 0x12, 0x34)
		frame = append(frame, body...)
		if len(frame) != 4+L {
			t.Fatalf("VERIF-INFRA: built %d bytes for L=%d", len(frame), L)
		}
		wantOK := L <= capLen
		outcome := "rejected"
		if wantOK {
			outcome = "accepted"
		}
		ev.Case(true, fmt.Sprint(L), func() any {
			return map[string]any{"length_field": L, "distance_from_cap": L - capLen, "expected": outcome}
		}, "c03cap:"+outcome)
		d1, e1 := hsms.DecodeHSMSMessage(frame)
		d2, e2 := hsms.DecodeHSMSPayload(frame[4:])
		d3, e3 := hsms.DecodeOwnedHSMSPayload(append([]byte(nil), frame[4:]...))
		for i, e := range []error{e1, e2, e3} {
			if (e == nil) != wantOK {
				t.Fatalf("VERIF-VIOLATION: C03/C04 violated: decode entry point %d on a frame with length field %d (cap %d, %d bytes follow): error=%v, must be accepted=%v", i, L, capLen, L, e, wantOK)
			}
		}
		if !wantOK {
			continue
		}
		for i, d := range []hsms.Message{d1, d2, d3} {
			if !bytes.Equal(d.ToBytes(), frame) {
				t.Fatalf("VERIF-VIOLATION: C03 violated: decode entry point %d re-serializes a %d-byte message differently", i, L)
			}
		}
		it := secs2.B(body[4:])
		if it.Error() != nil {
			t.Fatalf("VERIF-INFRA: binary item of %d bytes: %v", n, it.Error())
		}
		m, err := hsms.NewDataMessage(1, 1, false, 0xffff, [4]byte{0, 0, 0x12, 0x34}, it)
		if err != nil {
			t.Fatalf("VERIF-VIOLATION: C03 violated: NewDataMessage refused a body of %d bytes (message length %d <= cap %d): %v", n+4, L, capLen, err)
		}
		if got := m.ToBytes(); !bytes.Equal(got, frame) {
			t.Fatalf("VERIF-VIOLATION: C03 violated: a built message of length %d serializes to %d bytes that differ from the reference frame", L, len(got))
		}
		rd, rerr := hsms.DecodeHSMSMessage(m.ToBytes())
		if rerr != nil {
			t.Fatalf("VERIF-VIOLATION: C03 violated: a message of length %d (<= cap) serializes but does not decode back: %v", L, rerr)
		}
		if !bytes.Equal(rd.ToBytes(), frame) {
			t.Fatalf("VERIF-VIOLATION: C03 violated: round trip of a message of length %d changed the bytes", L)
		}
	}
}

// TestC04WireCap: the same lengths arriving on a CONNECTION (the stream reader has its own bound
// check): a frame of exactly the cap is a message like any other; one byte more ends the link.
func TestC04WireCap(t *testing.T) {
	defer ev.Flush()
	ev.Rule("a Selected HSMS-SS connection (passive and active, virtual time); the raw peer writes one data frame with length field L = cap-1, cap (2^24-1), cap+1, cap+2 and exactly L bytes following (body: one Binary item filling the frame); oracle: L <= cap: the handler receives one message whose body has L-10 bytes and the link still answers a Linktest; L > cap: nothing is delivered and the link is dropped; non-trivial = all")
	vt.Bubble(t, func(t *testing.T) {
		const capLen = e37.MaxLen
		for _, active := range []bool{false, true} {
			for _, L := range []int{capLen - 1, capLen, capLen + 1, capLen + 2} {
				w, err := newWorld(worldOpt{active: active, connOpts: []hsms.ConnOption{hsms.WithT3(time.Second), hsms.WithT8(5 * time.Second), hsms.WithT7(time.Hour)}})
				if err != nil {
					t.Fatalf("VERIF-INFRA: %v", err)
				}
				var mu sync.Mutex
				var got []int
				w.conn.AddDataMessageHandler(func(m *hsms.DataMessage, _ hsms.SECS2Endpoint) {
					mu.Lock()
					got = append(got, m.BodyLen())
					mu.Unlock()
				})
				if err := w.conn.Open(context.Background(), hsms.OpenBackground); err != nil {
					t.Fatalf("VERIF-INFRA: %v", err)
				}
				p, err := w.peerUp(time.Second)
				if err != nil {
					t.Fatalf("VERIF-INFRA: %v", err)
				}
				if err := w.selectAsPeer(p, 99); err != nil {
					t.Fatalf("VERIF-INFRA: %v", err)
				}
				n := L - 10 - 4
				frame := make([]byte, 0, 4+L)
				frame = append(frame, byte(L>>24), byte(L>>16), byte(L>>8), byte(L))
				frame = append(frame, 0xff, 0xff, 0x01, 0x01, 0, 0, 0, 0, 0x12, 0x34)
				frame = append(frame, 0x23, byte(n>>16), byte(n>>8), byte(n))
				frame = append(frame, make([]byte, n)...)
				done := make(chan struct{})
				go func() { defer close(done); _ = p.SendRaw(frame) }()
				time.Sleep(time.Second)
				synctest.Wait()
				mu.Lock()
				delivered := append([]int(nil), got...)
				mu.Unlock()
				eof, _, _ := p.EOF()
				outcome := "rejected"
				if L <= capLen {
					outcome = "accepted"
					if len(delivered) != 1 || delivered[0] != L-10 {
						t.Fatalf("VERIF-VIOLATION: C04 violated (active=%v): a frame with length field %d (cap %d) arriving on a Selected connection produced deliveries %v, want one message with a %d-byte body (link dropped: %v)", active, L, capLen, delivered, L-10, eof)
					}
					if eof || !barrier(p, 5, time.Second) {
						t.Fatalf("VERIF-VIOLATION: C04 violated (active=%v): after a frame of length %d (<= cap) the link is no longer usable", active, L)
					}
				} else {
					if len(delivered) != 0 {
						t.Fatalf("VERIF-VIOLATION: C04 violated (active=%v): a frame with length field %d (> cap %d) was delivered", active, L, capLen)
					}
					if !eof {
						t.Fatalf("VERIF-VIOLATION: C04 violated (active=%v): a frame with length field %d (> cap %d) did not end the link", active, L, capLen)
					}
				}
				ev.Case(true, fmt.Sprint(active, L), func() any { return map[string]any{"active": active, "length_field": L, "expected": outcome} }, "c04cap:"+outcome)
				_ = w.conn.Close()
				p.Close()
				if w.ln != nil {
					_ = w.ln.Close()
				}
				<-done
				synctest.Wait()
			}
		}
	})
}
