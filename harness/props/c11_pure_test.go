package props

// C11 (pure part): the real reconnect backoff step compared with ref/fsm.Backoff over generated
// (current delay, multiplier, T5) incl. multiplier 1.0, huge, NaN, +Inf, and folded sequences.

import (
	"fmt"
	"math"
	"math/big"
	"testing"
	"time"

	"github.com/arloliu/go-secs/v2/hsms"
	"pgregory.net/rapid"
	"verif/harness/ev"
	"verif/harness/ref/fsm"
	"verif/harness/vt"
)

// maxExactDuration bounds generated durations to what float64 holds exactly (2^53 ns = 104 days):
// the backoff multiplies in float64, so beyond that a delay can move by a few ns through rounding
// alone (observed: x1.0 at ~292 years "decreases" by 23 ns). Timers of that size are outside any
// meaningful configuration; the bound is stated in the evidence rule.
const maxExactDuration = int64(1) << 53

func genDuration(rt *rapid.T, label string) time.Duration {
	switch rapid.IntRange(0, 5).Draw(rt, label+"Kind") {
	case 0:
		return time.Duration(rapid.Int64Range(1, 1000).Draw(rt, label))
	case 1:
		return time.Duration(rapid.Int64Range(1, int64(10*time.Second)).Draw(rt, label))
	case 2:
		return time.Duration(rapid.Int64Range(int64(time.Hour), maxExactDuration).Draw(rt, label))
	case 3:
		return time.Duration(rapid.Int64Range(maxExactDuration-1000, maxExactDuration).Draw(rt, label))
	default:
		return time.Duration(rapid.Int64Range(1, 60000).Draw(rt, label)) * time.Millisecond
	}
}

func genMultiplier(rt *rapid.T) float64 {
	switch rapid.IntRange(0, 7).Draw(rt, "multKind") {
	case 0:
		return 1.0
	case 1:
		return 2.0
	case 2:
		return math.Nextafter(1.0, 2)
	case 3:
		return math.Inf(1)
	case 4:
		return math.NaN()
	case 5:
		return rapid.Float64Range(1, 1e300).Draw(rt, "mult")
	default:
		return rapid.Float64Range(1, 4).Draw(rt, "mult")
	}
}

func TestC11Backoff(t *testing.T) {
	ev.Rule("(durations up to 2^53 ns = 104 days, the float64-exact range; current delay, multiplier >= 1 incl. 1.0 / NaN / +Inf / huge, T5) triples and folded retry sequences through the real nextBackoffDelay; oracle = ref/fsm.Backoff (exact big.Float product, 1 ns + 1 ulp tolerance) plus: result in (0, T5], non-decreasing sleeps that start at min(initial, T5); non-trivial = the product crosses T5 or is not finite, or the sequence has >= 3 steps")
	vt.Check(t, 100000, 3000000, func(rt *rapid.T) {
		ceil := genDuration(rt, "t5")
		initial := genDuration(rt, "initial")
		mult := genMultiplier(rt)
		steps := rapid.IntRange(1, 12).Draw(rt, "steps")
		delay := initial
		prevSleep := time.Duration(0)
		crossed := false
		var trace []string
		for k := 0; k < steps; k++ {
			// what connectLoop sleeps before attempt k
			sleep := delay
			if sleep > ceil {
				sleep = ceil
			}
			if k == 0 {
				want := initial
				if want > ceil {
					want = ceil
				}
				if sleep != want {
					rt.Fatalf("C11 violated: first delay %v, want min(initial %v, T5 %v)", sleep, initial, ceil)
				}
			}
			if sleep <= 0 || sleep > ceil {
				rt.Fatalf("C11 violated: delay %v outside (0, T5=%v] at attempt %d (initial %v, x%v)", sleep, ceil, k, initial, mult)
			}
			if sleep < prevSleep {
				rt.Fatalf("C11 violated: delay decreased %v -> %v at attempt %d (initial %v, x%v, T5 %v)", prevSleep, sleep, k, initial, mult, ceil)
			}
			prevSleep = sleep
			got := hsms.VerifNextBackoffDelay(delay, mult, ceil)
			want, exact := fsm.Backoff(delay, mult, ceil)
			ok := got == want
			if !ok && exact != nil {
				// float64 rounding of the product: allow 1 ns + 2^-50 relative
				diff := new(big.Float).Sub(new(big.Float).SetInt64(int64(got)), exact)
				tol := new(big.Float).Quo(exact, new(big.Float).SetFloat64(math.Ldexp(1, 50)))
				tol.Add(tol, big.NewFloat(1))
				if diff.Abs(diff).Cmp(tol.Abs(tol)) <= 0 && got > 0 && got <= ceil {
					ok = true
				}
				// a product within rounding distance of the cap may land on either side
				if got == ceil && new(big.Float).Sub(new(big.Float).SetInt64(int64(ceil)), exact).Abs(new(big.Float).Sub(new(big.Float).SetInt64(int64(ceil)), exact)).Cmp(tol) <= 0 {
					ok = true
				}
			}
			if !ok {
				rt.Fatalf("C11 violated: nextBackoffDelay(%v, %v, %v) = %v, reference %v", delay, mult, ceil, got, want)
			}
			if got <= 0 || got > ceil {
				rt.Fatalf("C11 violated: nextBackoffDelay(%v, %v, %v) = %v outside (0, T5]", delay, mult, ceil, got)
			}
			if got == ceil && delay < ceil {
				crossed = true
			}
			trace = append(trace, fmt.Sprintf("%v->%v", delay, got))
			delay = got
		}
		nontrivial := crossed || math.IsNaN(mult) || math.IsInf(mult, 0) || steps >= 3
		cls := []string{"backoff"}
		if crossed {
			cls = append(cls, "backoff:reaches-T5")
		}
		if mult == 1.0 {
			cls = append(cls, "backoff:flat")
		}
		if math.IsNaN(mult) || math.IsInf(mult, 0) {
			cls = append(cls, "backoff:nonfinite")
		}
		ev.Case(nontrivial, fmt.Sprint(initial, mult, ceil, steps), func() any {
			return map[string]any{"initial": initial.String(), "multiplier": fmt.Sprint(mult), "T5": ceil.String(), "delays": trace}
		}, cls...)
	})
}
