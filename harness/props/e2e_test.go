package props

// Shared end-to-end scaffolding: a library hsmsss connection wired (through its documented
// WithDialer / WithListener seams) to the harness-owned in-memory network, a raw E37 peer, a
// capturing logger, and small synchronisation helpers. Everything here runs inside a
// testing/synctest bubble: time is virtual (timers fire exactly, nothing depends on machine
// load) and synctest.Wait() is the quiescence primitive ("every goroutine is blocked").

import (
	"context"
	"fmt"
	"net"
	"strings"
	"sync"
	"sync/atomic"
	"testing/synctest"
	"time"

	"github.com/arloliu/go-secs/v2/hsms"
	"github.com/arloliu/go-secs/v2/hsmsss"
	"github.com/arloliu/go-secs/v2/logger"
	"github.com/arloliu/go-secs/v2/secs1"
	"verif/harness/netsim"
	"verif/harness/ref/e37"
)

// capLogger records Warn/Error lines (the library reports notification coalescing through Warn).
type capLogger struct {
	mu    sync.Mutex
	lines []string
}

func (l *capLogger) add(level, msg string, kv []any) {
	l.mu.Lock()
	l.lines = append(l.lines, level+": "+msg+" "+fmt.Sprint(kv...))
	l.mu.Unlock()
}
func (l *capLogger) Debug(string, ...any)        {}
func (l *capLogger) Info(string, ...any)         {}
func (l *capLogger) Warn(msg string, kv ...any)  { l.add("WARN", msg, kv) }
func (l *capLogger) Error(msg string, kv ...any) { l.add("ERROR", msg, kv) }
func (l *capLogger) Fatal(msg string, kv ...any) { l.add("FATAL", msg, kv) }
func (l *capLogger) With(...any) logger.Logger   { return l }
func (l *capLogger) Level() logger.LogLevel      { return logger.DebugLevel }
func (l *capLogger) SetLevel(logger.LogLevel)    {}
func (l *capLogger) count(sub string) int {
	l.mu.Lock()
	defer l.mu.Unlock()
	n := 0
	for _, s := range l.lines {
		if strings.Contains(s, sub) {
			n++
		}
	}
	return n
}

// world is one library connection plus the harness side of its network.
type world struct {
	nw     *netsim.Net
	addr   string
	active bool
	conn   hsmsss.Connection
	log    *capLogger
	ln     *netsim.Listener // harness listener (only when the library is active)

	// every socket / listener ever handed to the library (leak checks)
	lmu          sync.Mutex
	libConns     []*netsim.Conn
	libListeners []*recListener
	lateAccept   atomic.Bool  // see recListener.Accept
	realTime     bool         // the check does not run in a synctest bubble
	slow         atomic.Int64 // ns by which the dial / listen seams return late (0: at once)
}

// recListener records the connections the library accepts.
type recListener struct {
	*netsim.Listener
	w      *world
	closed chan struct{}
	once   sync.Once
}

func (l *recListener) Close() error {
	l.once.Do(func() { close(l.closed) })
	return l.Listener.Close()
}

func (l *recListener) Accept() (net.Conn, error) {
	c, err := l.Listener.Accept()
	if err != nil {
		return nil, err
	}
	l.w.lmu.Lock()
	l.w.libConns = append(l.w.libConns, c.(*netsim.Conn))
	l.w.lmu.Unlock()
	if l.w.lateAccept.Load() {
		// the accepting goroutine is "descheduled" between the kernel handing it the connection and
		// its return from Accept: it resumes only once the listener has been closed (a legal schedule
		// on a real network; see TestC09LateAccept)
		<-l.closed
	}
	return c, nil
}

// leaked reports library-side sockets / listeners that were handed out and never closed.
func (w *world) leaked() []string {
	w.lmu.Lock()
	defer w.lmu.Unlock()
	var out []string
	for _, c := range w.libConns {
		if !c.Closed() {
			out = append(out, fmt.Sprintf("conn #%d", c.ID))
		}
	}
	for i, l := range w.libListeners {
		if !l.Closed() {
			out = append(out, fmt.Sprintf("listener #%d", i))
		}
	}
	return out
}

type worldOpt struct {
	active   bool
	equip    bool
	connOpts []hsms.ConnOption
	ssOpts   []hsmsss.Option
	noListen bool // active library: do not open the harness listener (peer absent)
}

func newWorld(o worldOpt) (*world, error) {
	w := &world{nw: netsim.NewNet(), addr: "eq:5000", active: o.active, log: &capLogger{}}
	opts := []hsmsss.Option{
		hsmsss.WithDialer(func(ctx context.Context, network, address string) (net.Conn, error) {
			c, err := w.nw.Dial(ctx, w.addr)
			if err != nil {
				return nil, err
			}
			w.lmu.Lock()
			w.libConns = append(w.libConns, c)
			w.lmu.Unlock()
			if d := w.slow.Load(); d > 0 {
				time.Sleep(time.Duration(d)) // the connection is established, the dialer returns late
			}
			return c, nil
		}),
		hsmsss.WithListener(func(ctx context.Context, network, address string) (net.Listener, error) {
			if d := w.slow.Load(); d > 0 {
				time.Sleep(time.Duration(d)) // a slow bind: whoever asked for it may have been closed meanwhile
			}
			l, err := w.nw.Listen(w.addr)
			if err != nil {
				return nil, err
			}
			rl := &recListener{Listener: l, w: w, closed: make(chan struct{})}
			w.lmu.Lock()
			w.libListeners = append(w.libListeners, rl)
			w.lmu.Unlock()
			return rl, nil
		}),
		hsmsss.WithConnectionOption(hsms.WithLogger(w.log)),
	}
	if o.active {
		opts = append(opts, hsmsss.WithActive())
	} else {
		opts = append(opts, hsmsss.WithPassive())
	}
	if o.equip {
		opts = append(opts, hsmsss.WithEquipRole())
	} else {
		opts = append(opts, hsmsss.WithHostRole())
	}
	for _, co := range o.connOpts {
		opts = append(opts, hsmsss.WithConnectionOption(co))
	}
	opts = append(opts, o.ssOpts...)
	cfg, err := hsmsss.NewConfig("127.0.0.1", 5000, opts...)
	if err != nil {
		return nil, err
	}
	c, err := hsmsss.New(cfg)
	if err != nil {
		return nil, err
	}
	w.conn = c
	if o.active && !o.noListen {
		l, err := w.nw.Listen(w.addr)
		if err != nil {
			return nil, err
		}
		w.ln = l
	}
	return w, nil
}

// listen (re)opens the harness listener for an active library.
func (w *world) listen() error {
	l, err := w.nw.Listen(w.addr)
	if err != nil {
		return err
	}
	w.ln = l
	return nil
}

// peerUp establishes the TCP-level link from the harness side and returns a raw peer on it:
// for a passive library it dials; for an active library it accepts the library's dial.
func (w *world) peerUp(d time.Duration) (*netsim.Peer, error) {
	if !w.active {
		deadline := time.Now().Add(d)
		for {
			c, err := w.nw.Dial(context.Background(), w.addr)
			if err == nil {
				return netsim.NewPeer(c), nil
			}
			if time.Now().After(deadline) {
				return nil, fmt.Errorf("peerUp: dial: %w", err)
			}
			time.Sleep(time.Millisecond)
		}
	}
	type res struct {
		c   net.Conn
		err error
	}
	ch := make(chan res, 1)
	ln := w.ln
	go func() {
		c, err := ln.Accept()
		ch <- res{c, err}
	}()
	t := time.NewTimer(d)
	defer t.Stop()
	select {
	case r := <-ch:
		if r.err != nil {
			return nil, r.err
		}
		return netsim.NewPeer(r.c.(*netsim.Conn)), nil
	case <-t.C:
		_ = ln.Close() // unblock the acceptor
		<-ch
		return nil, fmt.Errorf("peerUp: no dial from the library within %v", d)
	}
}

// selectAsPeer performs the Select handshake from the peer's side: for a passive library the peer
// sends Select.req and awaits Select.rsp; for an active library it awaits the library's Select.req
// and answers status 0. It returns once the handshake bytes have been exchanged and the library
// has gone quiet.
func (w *world) selectAsPeer(p *netsim.Peer, sys uint32) error {
	if !w.active {
		if err := p.Send(e37.Control(e37.SelectReq, 0xffff, 0, 0, sys)); err != nil {
			return err
		}
		f, ok := p.WaitFrame(0, func(f e37.Frame) bool { return f.SType == e37.SelectRsp && f.Sys == sys }, 5*time.Second)
		if !ok {
			return fmt.Errorf("no Select.rsp\n%s", p.Transcript())
		}
		if f.F.B3 != 0 {
			return fmt.Errorf("Select.rsp status %d", f.F.B3)
		}
		w.quiesce()
		return nil
	}
	f, ok := p.WaitFrame(0, func(f e37.Frame) bool { return f.SType == e37.SelectReq }, 5*time.Second)
	if !ok {
		return fmt.Errorf("no Select.req from the active library\n%s", p.Transcript())
	}
	if err := p.Send(e37.Control(e37.SelectRsp, f.F.Session, 0, 0, f.F.Sys)); err != nil {
		return err
	}
	w.quiesce()
	return nil
}

// quiesce waits until every goroutine is blocked (bubble) - or, for the few checks that run in real
// time, a few milliseconds.
func (w *world) quiesce() {
	if w.realTime {
		time.Sleep(5 * time.Millisecond)
		return
	}
	synctest.Wait()
}

const barrierBase = 0xB0000000

// barrier sends a Linktest.req with a reserved system-bytes value and waits for its Linktest.rsp.
// All library responses to frames sent before the barrier precede the barrier's response (one
// FIFO async sender per generation). It reports whether the link answered.
func barrier(p *netsim.Peer, n uint32, d time.Duration) bool {
	sys := barrierBase + n
	from := len(p.Frames())
	_ = from
	if err := p.Send(e37.Control(e37.LinktestReq, 0xffff, 0, 0, sys)); err != nil {
		return false
	}
	_, ok := p.WaitFrame(0, func(f e37.Frame) bool { return f.SType == e37.LinktestRsp && f.Sys == sys }, d)
	return ok
}

func isBarrier(f e37.Frame) bool {
	return f.PType == 0 && (f.SType == e37.LinktestRsp || f.SType == e37.LinktestReq) && f.Sys >= barrierBase && f.Sys < barrierBase+0x01000000
}

// waitState polls State() (virtual time) until it equals want or d elapsed.
func waitState(c hsms.Connection, want hsms.ConnState, d time.Duration) bool {
	deadline := time.Now().Add(d)
	for {
		if c.State() == want {
			return true
		}
		if !time.Now().Before(deadline) {
			return false
		}
		time.Sleep(time.Millisecond)
	}
}

func ctxT(d time.Duration) (context.Context, context.CancelFunc) {
	return context.WithTimeout(context.Background(), d)
}

// s1World is a SECS-I library connection wired to the harness network.
type s1World struct {
	nw     *netsim.Net
	addr   string
	active bool
	conn   secs1.Connection
	ln     *netsim.Listener

	lmu          sync.Mutex
	libConns     []*netsim.Conn
	libListeners []*netsim.Listener
	slow         atomic.Int64 // see world.slow
}

// s1RecListener records the connections a SECS-I library accepts.
type s1RecListener struct {
	*netsim.Listener
	w *s1World
}

func (l *s1RecListener) Accept() (net.Conn, error) {
	c, err := l.Listener.Accept()
	if err != nil {
		return nil, err
	}
	l.w.lmu.Lock()
	l.w.libConns = append(l.w.libConns, c.(*netsim.Conn))
	l.w.lmu.Unlock()
	return c, nil
}

func (w *s1World) leaked() []string {
	w.lmu.Lock()
	defer w.lmu.Unlock()
	var out []string
	for _, c := range w.libConns {
		if !c.Closed() {
			out = append(out, fmt.Sprintf("conn #%d", c.ID))
		}
	}
	for i, l := range w.libListeners {
		if !l.Closed() {
			out = append(out, fmt.Sprintf("listener #%d", i))
		}
	}
	return out
}

type s1Opt struct {
	noListen      bool
	active, equip bool
	device        uint16
	opts          []secs1.Option
}

func newS1World(o s1Opt) (*s1World, error) {
	w := &s1World{nw: netsim.NewNet(), addr: "line:1", active: o.active}
	opts := []secs1.Option{
		secs1.WithDialer(func(ctx context.Context, network, address string) (net.Conn, error) {
			c, err := w.nw.Dial(ctx, w.addr)
			if err != nil {
				return nil, err
			}
			w.lmu.Lock()
			w.libConns = append(w.libConns, c)
			w.lmu.Unlock()
			if d := w.slow.Load(); d > 0 {
				time.Sleep(time.Duration(d)) // the connection is established, the dialer returns late
			}
			return c, nil
		}),
		secs1.WithListener(func(ctx context.Context, network, address string) (net.Listener, error) {
			if d := w.slow.Load(); d > 0 {
				time.Sleep(time.Duration(d))
			}
			l, err := w.nw.Listen(w.addr)
			if err != nil {
				return nil, err
			}
			w.lmu.Lock()
			w.libListeners = append(w.libListeners, l)
			w.lmu.Unlock()
			return &s1RecListener{Listener: l, w: w}, nil
		}),
		secs1.WithDeviceID(o.device),
		secs1.WithConnectionOption(hsms.WithLogger(&capLogger{})),
	}
	if o.active {
		opts = append(opts, secs1.WithActive())
	} else {
		opts = append(opts, secs1.WithPassive())
	}
	if o.equip {
		opts = append(opts, secs1.WithEquipment())
	} else {
		opts = append(opts, secs1.WithHost())
	}
	opts = append(opts, o.opts...)
	cfg, err := secs1.NewConfig("127.0.0.1", 5000, opts...)
	if err != nil {
		return nil, err
	}
	c, err := secs1.New(cfg)
	if err != nil {
		return nil, err
	}
	w.conn = c
	if o.active && !o.noListen {
		l, err := w.nw.Listen(w.addr)
		if err != nil {
			return nil, err
		}
		w.ln = l
	}
	return w, nil
}

// lineUp establishes the TCP-level line from the harness side and returns the harness end.
func (w *s1World) lineUp(d time.Duration) (*netsim.Conn, error) {
	if !w.active {
		deadline := time.Now().Add(d)
		for {
			c, err := w.nw.Dial(context.Background(), w.addr)
			if err == nil {
				return c, nil
			}
			if time.Now().After(deadline) {
				return nil, fmt.Errorf("lineUp: dial: %w", err)
			}
			time.Sleep(time.Millisecond)
		}
	}
	type res struct {
		c   net.Conn
		err error
	}
	ch := make(chan res, 1)
	ln := w.ln
	go func() {
		c, err := ln.Accept()
		ch <- res{c, err}
	}()
	t := time.NewTimer(d)
	defer t.Stop()
	select {
	case r := <-ch:
		if r.err != nil {
			return nil, r.err
		}
		return r.c.(*netsim.Conn), nil
	case <-t.C:
		_ = ln.Close()
		<-ch
		return nil, fmt.Errorf("lineUp: no dial from the library within %v", d)
	}
}

// listen (re)opens the harness listener for an active SECS-I library (no-op while one is open).
func (w *s1World) listen() error {
	if w.ln != nil && !w.ln.Closed() {
		return nil
	}
	l, err := w.nw.Listen(w.addr)
	if err != nil {
		return err
	}
	w.ln = l
	return nil
}
