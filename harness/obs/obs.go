// Package obs reads items back through the library's public accessor surface and turns what it
// sees into reference values (e5.Value) or into a full textual snapshot (for immutability checks).
package obs

import (
	"fmt"
	"math"
	"strings"

	"github.com/arloliu/go-secs/v2/secs2"
	"verif/harness/ref/e5"
)

// Families of accessors.
const (
	ViaTo   = 0 // ToList/ToBinary/ToInt/...
	ViaAt   = 1 // ItemAt/ByteAt/IntAt/...
	ViaIter = 2 // Items/Ints/... iterators (binary and text have no iterator: To* is used)
)

var typeToFC = map[string]byte{
	"list": e5.List, "binary": e5.Binary, "boolean": e5.Boolean, "ascii": e5.ASCII, "jis8": e5.JIS8,
	"localized_str": e5.Local, "i1": e5.I1, "i2": e5.I2, "i4": e5.I4, "i8": e5.I8,
	"u1": e5.U1, "u2": e5.U2, "u4": e5.U4, "u8": e5.U8, "f4": e5.F4, "f8": e5.F8, "empty": e5.Empty,
}

// predicates returns the set of Is* predicates that hold, as type names.
func predicates(it secs2.Item) []string {
	var p []string
	add := func(b bool, n string) {
		if b {
			p = append(p, n)
		}
	}
	add(it.IsEmpty(), "empty")
	add(it.IsList(), "list")
	add(it.IsBinary(), "binary")
	add(it.IsBoolean(), "boolean")
	add(it.IsASCII(), "ascii")
	add(it.IsJIS8(), "jis8")
	add(it.IsLocalizedStr(), "localized_str")
	add(it.IsInt8(), "i1")
	add(it.IsInt16(), "i2")
	add(it.IsInt32(), "i4")
	add(it.IsInt64(), "i8")
	add(it.IsUint8(), "u1")
	add(it.IsUint16(), "u2")
	add(it.IsUint32(), "u4")
	add(it.IsUint64(), "u8")
	add(it.IsFloat32(), "f4")
	add(it.IsFloat64(), "f8")
	return p
}

// Value reads the logical value of it through one accessor family.
func Value(it secs2.Item, family int) (e5.Value, error) {
	if it == nil {
		return e5.Value{}, fmt.Errorf("nil item")
	}
	if err := it.Error(); err != nil {
		return e5.Value{}, fmt.Errorf("item has deferred error: %w", err)
	}
	fc, ok := typeToFC[it.Type()]
	if !ok {
		return e5.Value{}, fmt.Errorf("unknown Type() %q", it.Type())
	}
	if p := predicates(it); len(p) != 1 || p[0] != it.Type() {
		return e5.Value{}, fmt.Errorf("Is* predicates %v disagree with Type() %q", p, it.Type())
	}
	v := e5.Value{FC: fc}
	n := it.Size()
	switch {
	case fc == e5.Empty:
		if n != 0 {
			return v, fmt.Errorf("empty item has Size %d", n)
		}
	case fc == e5.List:
		var kids []secs2.Item
		switch family {
		case ViaTo:
			l, err := it.ToList()
			if err != nil {
				return v, err
			}
			kids = l
		case ViaAt:
			for i := 0; i < n; i++ {
				c, err := it.ItemAt(i)
				if err != nil {
					return v, fmt.Errorf("ItemAt(%d): %w", i, err)
				}
				kids = append(kids, c)
			}
			if _, err := it.ItemAt(n); err == nil {
				return v, fmt.Errorf("ItemAt(Size) did not fail")
			}
		default:
			for c := range it.Items() {
				kids = append(kids, c)
			}
		}
		if len(kids) != n {
			return v, fmt.Errorf("list Size()=%d but accessor family %d yields %d children", n, family, len(kids))
		}
		v.List = make([]e5.Value, len(kids))
		for i, c := range kids {
			cv, err := Value(c, family)
			if err != nil {
				return v, fmt.Errorf("child %d: %w", i, err)
			}
			v.List[i] = cv
		}
	case fc == e5.Binary:
		switch family {
		case ViaAt:
			v.Bytes = make([]byte, 0, n)
			for i := 0; i < n; i++ {
				b, err := it.ByteAt(i)
				if err != nil {
					return v, fmt.Errorf("ByteAt(%d): %w", i, err)
				}
				v.Bytes = append(v.Bytes, b)
			}
		case ViaIter:
			v.Bytes = it.AppendBinaryTo(nil)
		default:
			b, err := it.ToBinary()
			if err != nil {
				return v, err
			}
			v.Bytes = b
		}
	case fc == e5.ASCII:
		s, err := it.ToASCII()
		if err != nil {
			return v, err
		}
		v.Bytes = []byte(s)
	case fc == e5.JIS8:
		s, err := it.ToJIS8()
		if err != nil {
			return v, err
		}
		v.Bytes = []byte(s)
	case fc == e5.Local:
		s, err := it.ToLocalizedStr()
		if err != nil {
			return v, err
		}
		h, err := it.ToLocalizedStrHeader()
		if err != nil {
			return v, err
		}
		v.Bytes, v.LSH = []byte(s), h
	case fc == e5.Boolean:
		switch family {
		case ViaAt:
			for i := 0; i < n; i++ {
				b, err := it.BoolAt(i)
				if err != nil {
					return v, fmt.Errorf("BoolAt(%d): %w", i, err)
				}
				v.Bools = append(v.Bools, b)
			}
		case ViaIter:
			for b := range it.Bools() {
				v.Bools = append(v.Bools, b)
			}
		default:
			b, err := it.ToBoolean()
			if err != nil {
				return v, err
			}
			v.Bools = b
		}
	case e5.IsInt(fc):
		switch family {
		case ViaAt:
			for i := 0; i < n; i++ {
				x, err := it.IntAt(i)
				if err != nil {
					return v, fmt.Errorf("IntAt(%d): %w", i, err)
				}
				v.Ints = append(v.Ints, x)
			}
		case ViaIter:
			for x := range it.Ints() {
				v.Ints = append(v.Ints, x)
			}
		default:
			x, err := it.ToInt()
			if err != nil {
				return v, err
			}
			v.Ints = x
		}
	case e5.IsUint(fc):
		switch family {
		case ViaAt:
			for i := 0; i < n; i++ {
				x, err := it.UintAt(i)
				if err != nil {
					return v, fmt.Errorf("UintAt(%d): %w", i, err)
				}
				v.Uints = append(v.Uints, x)
			}
		case ViaIter:
			for x := range it.Uints() {
				v.Uints = append(v.Uints, x)
			}
		default:
			x, err := it.ToUint()
			if err != nil {
				return v, err
			}
			v.Uints = x
		}
	case e5.IsFloat(fc):
		switch family {
		case ViaAt:
			for i := 0; i < n; i++ {
				x, err := it.FloatAt(i)
				if err != nil {
					return v, fmt.Errorf("FloatAt(%d): %w", i, err)
				}
				v.Floats = append(v.Floats, x)
			}
		case ViaIter:
			for x := range it.Floats() {
				v.Floats = append(v.Floats, x)
			}
		default:
			x, err := it.ToFloat()
			if err != nil {
				return v, err
			}
			v.Floats = x
		}
	}
	if v.Size() != n { // e5.Value.Size follows the documented Size() conventions
		return v, fmt.Errorf("%s: Size()=%d but accessor family %d yields %d elements", it.Type(), n, family, v.Size())
	}
	return v, nil
}

// Snapshot renders every public observation of an item tree into a string: type, size, error,
// predicates, every accessor family, wrong-type accessors' error-ness, encodings and SML.
func Snapshot(it secs2.Item) string {
	var sb strings.Builder
	snap(&sb, it, 0)
	return sb.String()
}

func snap(sb *strings.Builder, it secs2.Item, depth int) {
	if it == nil {
		sb.WriteString("nil;")
		return
	}
	fmt.Fprintf(sb, "T=%s N=%d E=%v P=%v ", it.Type(), it.Size(), it.Error() != nil, predicates(it))
	for fam := 0; fam < 3; fam++ {
		v, err := valueShallow(it, fam)
		fmt.Fprintf(sb, "F%d=%s/%v ", fam, v, err != nil)
	}
	b := it.ToBytes()
	fmt.Fprintf(sb, "EL=%d B=%x A=%x ", it.EncodedLen(), b, it.AppendTo([]byte{0xAA}))
	fmt.Fprintf(sb, "AB=%x ", it.AppendBinaryTo([]byte{0x55}))
	if depth == 0 {
		fmt.Fprintf(sb, "SML=%q ", it.ToSML())
	}
	if g, err := it.Get(); err == nil && g != nil {
		fmt.Fprintf(sb, "G=%s ", g.Type())
	}
	if it.IsList() {
		sb.WriteString("[")
		i := 0
		for c := range it.Items() {
			g, err := it.Get(i)
			if err != nil || g != c {
				fmt.Fprintf(sb, "GETMISMATCH(%d) ", i)
			}
			snap(sb, c, depth+1)
			i++
		}
		sb.WriteString("]")
	}
	sb.WriteString(";")
}

// valueShallow is Value without recursing into list children (children are snapshotted
// separately) and rendered for NaN-stable comparison.
func valueShallow(it secs2.Item, family int) (string, error) {
	if it.IsList() {
		switch family {
		case ViaTo:
			l, err := it.ToList()
			return fmt.Sprintf("list%d", len(l)), err
		case ViaAt:
			n := 0
			for i := 0; i < it.Size(); i++ {
				if _, err := it.ItemAt(i); err == nil {
					n++
				}
			}
			return fmt.Sprintf("list%d", n), nil
		default:
			n := 0
			for range it.Items() {
				n++
			}
			return fmt.Sprintf("list%d", n), nil
		}
	}
	v, err := Value(it, family)
	if err != nil {
		return "err", err
	}
	if e5.IsFloat(v.FC) {
		return fmt.Sprintf("%s%x", e5.Name(v.FC), floatBits(v.Floats)), nil
	}
	return fmt.Sprintf("%s|%x|%d|%v|%v|%v", e5.Name(v.FC), v.Bytes, v.LSH, v.Bools, v.Ints, v.Uints), nil
}

func floatBits(xs []float64) []uint64 {
	out := make([]uint64, len(xs))
	for i, x := range xs {
		out[i] = math.Float64bits(x)
	}
	return out
}
