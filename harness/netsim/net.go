package netsim

import (
	"context"
	"net"
	"sync"
	"sync/atomic"
	"time"
)

// Listener is an in-memory net.Listener.
type Listener struct {
	nw      *Net
	address string
	backlog chan *Conn
	done    chan struct{}
	once    sync.Once
	closes  atomic.Int32
}

func (l *Listener) Accept() (net.Conn, error) {
	select {
	case <-l.done:
		return nil, net.ErrClosed
	default:
	}
	select {
	case c := <-l.backlog:
		return c, nil
	case <-l.done:
		return nil, net.ErrClosed
	}
}

func (l *Listener) Close() error {
	l.closes.Add(1)
	first := false
	l.once.Do(func() {
		first = true
		close(l.done)
		l.nw.unregister(l)
		// connections still in the backlog were never accepted: reset them
		for {
			select {
			case c := <-l.backlog:
				c.Reset()
			default:
				return
			}
		}
	})
	if !first {
		return net.ErrClosed
	}
	return nil
}

func (l *Listener) Addr() net.Addr  { return addr(l.address) }
func (l *Listener) Closed() bool    { return l.closes.Load() > 0 }
func (l *Listener) CloseCalls() int { return int(l.closes.Load()) }

// Event is one timestamped dial / listen / accept observation kept by a Net.
type Event struct {
	At   time.Time
	Kind string // "dial", "dial-ok", "dial-refused", "listen", "listen-fail"
	Addr string
}

// Net is a tiny in-memory network: addresses are strings, at most one listener per address.
type Net struct {
	mu        sync.Mutex
	listeners map[string]*Listener
	Window    int

	// bookkeeping of every object handed out (leak checks) and every dial/listen call
	conns      []*Conn // both ends of every connection ever created
	lsns       []*Listener
	events     []Event
	failListen int // the next n Listen calls fail
	refuseDial int // the next n Dial calls are refused even if someone listens
	holdDial   chan struct{}
}

func NewNet() *Net { return &Net{listeners: map[string]*Listener{}} }

func (n *Net) log(kind, address string) {
	n.events = append(n.events, Event{At: time.Now(), Kind: kind, Addr: address})
}

func (n *Net) unregister(l *Listener) {
	n.mu.Lock()
	if n.listeners[l.address] == l {
		delete(n.listeners, l.address)
	}
	n.mu.Unlock()
}

// Listen opens a listener on address. It fails if one is already open there.
func (n *Net) Listen(address string) (*Listener, error) {
	n.mu.Lock()
	defer n.mu.Unlock()
	if n.failListen > 0 {
		n.failListen--
		n.log("listen-fail", address)
		return nil, &net.OpError{Op: "listen", Net: "netsim", Err: ErrRefused}
	}
	if _, busy := n.listeners[address]; busy {
		n.log("listen-fail", address)
		return nil, &net.OpError{Op: "listen", Net: "netsim", Err: errAddrInUse}
	}
	l := &Listener{nw: n, address: address, backlog: make(chan *Conn, 16), done: make(chan struct{})}
	n.listeners[address] = l
	n.lsns = append(n.lsns, l)
	n.log("listen", address)
	return l, nil
}

type simpleErr string

func (e simpleErr) Error() string { return string(e) }

const errAddrInUse = simpleErr("netsim: address already in use")

// Dial connects to address. It returns ErrRefused when nobody listens (or the backlog is full).
func (n *Net) Dial(ctx context.Context, address string) (*Conn, error) {
	n.mu.Lock()
	n.log("dial", address)
	hold := n.holdDial
	n.mu.Unlock()
	if hold != nil {
		select {
		case <-hold:
		case <-ctx.Done():
			return nil, ctx.Err()
		}
	}
	if err := ctx.Err(); err != nil {
		return nil, err
	}
	n.mu.Lock()
	defer n.mu.Unlock()
	if n.refuseDial > 0 {
		n.refuseDial--
		n.log("dial-refused", address)
		return nil, &net.OpError{Op: "dial", Net: "netsim", Err: ErrRefused}
	}
	l := n.listeners[address]
	if l == nil {
		n.log("dial-refused", address)
		return nil, &net.OpError{Op: "dial", Net: "netsim", Err: ErrRefused}
	}
	a, b := Pipe(n.Window)
	select {
	case l.backlog <- b:
	default:
		n.log("dial-refused", address)
		return nil, &net.OpError{Op: "dial", Net: "netsim", Err: ErrRefused}
	}
	n.conns = append(n.conns, a, b)
	n.log("dial-ok", address)
	return a, nil
}

// DialFunc / ListenFunc adapt the Net to the library's hsms.DialFunc / hsms.ListenFunc seams
// (the network and address arguments of the library are ignored: the harness address is fixed).
func (n *Net) DialFunc(address string) func(ctx context.Context, network, addr string) (net.Conn, error) {
	return func(ctx context.Context, _, _ string) (net.Conn, error) {
		c, err := n.Dial(ctx, address)
		if err != nil {
			return nil, err
		}
		return c, nil
	}
}

func (n *Net) ListenFunc(address string) func(ctx context.Context, network, addr string) (net.Listener, error) {
	return func(_ context.Context, _, _ string) (net.Listener, error) {
		l, err := n.Listen(address)
		if err != nil {
			return nil, err
		}
		return l, nil
	}
}

// FailNextListens / RefuseNextDials inject k consecutive failures.
func (n *Net) FailNextListens(k int) { n.mu.Lock(); n.failListen = k; n.mu.Unlock() }
func (n *Net) RefuseNextDials(k int) { n.mu.Lock(); n.refuseDial = k; n.mu.Unlock() }

// HoldDials makes every Dial block (honouring its ctx) until the returned release is called.
func (n *Net) HoldDials() (release func()) {
	ch := make(chan struct{})
	n.mu.Lock()
	n.holdDial = ch
	n.mu.Unlock()
	var once sync.Once
	return func() {
		once.Do(func() {
			n.mu.Lock()
			if n.holdDial == ch {
				n.holdDial = nil
			}
			n.mu.Unlock()
			close(ch)
		})
	}
}

// Listening reports whether a listener is currently open on address.
func (n *Net) Listening(address string) bool {
	n.mu.Lock()
	defer n.mu.Unlock()
	return n.listeners[address] != nil
}

// Events returns a copy of the dial/listen log.
func (n *Net) Events() []Event {
	n.mu.Lock()
	defer n.mu.Unlock()
	return append([]Event(nil), n.events...)
}

// Conns / Listeners return every object ever handed out.
func (n *Net) Conns() []*Conn {
	n.mu.Lock()
	defer n.mu.Unlock()
	return append([]*Conn(nil), n.conns...)
}

func (n *Net) Listeners() []*Listener {
	n.mu.Lock()
	defer n.mu.Unlock()
	return append([]*Listener(nil), n.lsns...)
}
