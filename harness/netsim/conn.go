// Package netsim is the harness-owned network: in-memory, buffered, deadline-aware
// net.Conn / net.Listener implementations that the library reaches through its documented
// WithDialer / WithListener seams. Every blocking operation parks on a channel select (plus a
// time.Timer for deadlines), so that inside a testing/synctest bubble the goroutine is "durably
// blocked" and virtual time can advance. The same code works in real time.
//
// A Conn behaves like a TCP socket as far as the library can observe it: writes are buffered up
// to a window, reads return whatever is available, Close unblocks both directions, the peer sees
// EOF after draining, deadlines produce os.ErrDeadlineExceeded-compatible timeouts.
package netsim

import (
	"errors"
	"io"
	"net"
	"os"
	"sync"
	"sync/atomic"
	"time"
)

// DefaultWindow is the per-direction buffer (the "TCP window").
const DefaultWindow = 256 << 10

// half is one direction of a connection: a bounded byte queue.
type half struct {
	mu      sync.Mutex
	buf     []byte
	window  int
	wclosed bool          // writer closed its end: reader gets EOF after draining
	rclosed bool          // reader closed its end: writer gets EPIPE
	reset   bool          // connection reset: both ends fail immediately, buffered data lost
	stalled bool          // fault: bytes are accepted from the writer but not shown to the reader
	notify  chan struct{} // closed and replaced on every state change

	// accounting (bytes that entered / left this direction)
	written int64
	read    int64

	// fault plan: cut (reset) once `written` reaches cutAtWritten (>=0), or once `read` reaches
	// cutAtRead.
	cutAtWritten int64
	cutAtRead    int64
	onCut        func()
}

func newHalf(window int) *half {
	return &half{window: window, notify: make(chan struct{}), cutAtWritten: -1, cutAtRead: -1}
}

func (h *half) broadcastLocked() {
	close(h.notify)
	h.notify = make(chan struct{})
}

type timeoutError struct{}

func (timeoutError) Error() string   { return "netsim: i/o timeout" }
func (timeoutError) Timeout() bool   { return true }
func (timeoutError) Temporary() bool { return true }
func (timeoutError) Is(target error) bool {
	return target == os.ErrDeadlineExceeded
}

// ErrReset is returned by reads and writes on a connection that was reset (cut).
var ErrReset = errors.New("netsim: connection reset by peer")

// ErrRefused is returned by Dial when nobody listens on the address.
var ErrRefused = errors.New("netsim: connection refused")

type addr string

func (a addr) Network() string { return "netsim" }
func (a addr) String() string  { return string(a) }

// Conn is one end of an in-memory duplex connection.
type Conn struct {
	in, out *half // in: peer -> us, out: us -> peer
	local   addr
	remote  addr

	dmu       sync.Mutex
	rdeadline time.Time
	wdeadline time.Time
	dnotify   chan struct{} // closed+replaced when a deadline changes

	closed      atomic.Bool
	dead        atomic.Bool // killed by a fault plan: local writes fail
	closeCount  atomic.Int32
	closedAt    atomic.Int64 // UnixNano of the first Close
	writeLinger atomic.Int64 // see SetWriteLinger
	ID          int64

	// WriteChunks records the size of every Write call (segmentation seen by this end).
	wmu         sync.Mutex
	WriteChunks []int
}

var connID atomic.Int64

// Pipe returns the two ends of a fresh connection with the given per-direction window.
func Pipe(window int) (*Conn, *Conn) {
	if window <= 0 {
		window = DefaultWindow
	}
	ab, ba := newHalf(window), newHalf(window)
	a := &Conn{in: ba, out: ab, local: "a", remote: "b", dnotify: make(chan struct{}), ID: connID.Add(1)}
	b := &Conn{in: ab, out: ba, local: "b", remote: "a", dnotify: make(chan struct{}), ID: connID.Add(1)}
	return a, b
}

func (c *Conn) deadlines() (r, w time.Time, ch chan struct{}) {
	c.dmu.Lock()
	defer c.dmu.Unlock()
	return c.rdeadline, c.wdeadline, c.dnotify
}

// wait blocks until ch (state change), dch (deadline change) or the deadline fires. It reports
// whether the deadline expired.
func wait(ch, dch chan struct{}, deadline time.Time) bool {
	if deadline.IsZero() {
		select {
		case <-ch:
		case <-dch:
		}
		return false
	}
	d := time.Until(deadline)
	if d <= 0 {
		return true
	}
	t := time.NewTimer(d)
	defer t.Stop()
	select {
	case <-ch:
		return false
	case <-dch:
		return false
	case <-t.C:
		return true
	}
}

func (c *Conn) Read(p []byte) (int, error) {
	h := c.in
	for {
		rd, _, dch := c.deadlines()
		h.mu.Lock()
		switch {
		case c.closed.Load():
			h.mu.Unlock()
			return 0, net.ErrClosed
		case h.reset:
			h.mu.Unlock()
			return 0, ErrReset
		case len(h.buf) > 0 && !h.stalled:
			if len(p) == 0 {
				h.mu.Unlock()
				return 0, nil
			}
			n := copy(p, h.buf)
			if h.cutAtRead >= 0 && h.read+int64(n) > h.cutAtRead {
				n = max(0, int(h.cutAtRead-h.read))
			}
			if n == 0 { // cut point reached exactly
				h.reset = true
				h.buf = nil
				cb := h.onCut
				h.broadcastLocked()
				h.mu.Unlock()
				c.resetOther()
				if cb != nil {
					cb()
				}
				return 0, ErrReset
			}
			h.buf = h.buf[n:]
			h.read += int64(n)
			h.broadcastLocked()
			h.mu.Unlock()
			return n, nil
		case h.wclosed && !h.stalled:
			h.mu.Unlock()
			return 0, io.EOF
		}
		if !rd.IsZero() && !time.Now().Before(rd) {
			h.mu.Unlock()
			return 0, timeoutError{}
		}
		ch := h.notify
		h.mu.Unlock()
		if wait(ch, dch, rd) {
			return 0, timeoutError{}
		}
	}
}

func (c *Conn) resetOther() {
	o := c.out
	o.mu.Lock()
	if !o.reset {
		o.reset = true
		o.buf = nil
		o.broadcastLocked()
	}
	o.mu.Unlock()
}

func (c *Conn) Write(p []byte) (int, error) {
	c.wmu.Lock()
	c.WriteChunks = append(c.WriteChunks, len(p))
	c.wmu.Unlock()
	h := c.out
	total := 0
	waited := false
	// linger: a Write that was BLOCKED when the link ended returns its error only this much later
	// (a wrapped or tunnelled connection need not unblock its writers the instant it is closed)
	linger := func() {
		if d := time.Duration(c.writeLinger.Load()); waited && d > 0 {
			time.Sleep(d)
		}
	}
	for {
		_, wd, dch := c.deadlines()
		h.mu.Lock()
		switch {
		case c.closed.Load():
			h.mu.Unlock()
			linger()
			return total, net.ErrClosed
		case h.reset || c.dead.Load():
			h.mu.Unlock()
			linger()
			return total, ErrReset
		case h.rclosed:
			h.mu.Unlock()
			linger()
			return total, ErrReset // EPIPE-like
		}
		if len(p) == 0 {
			h.mu.Unlock()
			return total, nil
		}
		// like a real net.Conn: a write deadline that has ALREADY passed fails the write at once, even
		// if the peer's window has room (a deadline armed for an earlier write and never cleared)
		if !wd.IsZero() && !time.Now().Before(wd) {
			h.mu.Unlock()
			return total, timeoutError{}
		}
		space := h.window - len(h.buf)
		if space > 0 {
			n := min(space, len(p))
			if h.cutAtWritten >= 0 && h.written+int64(n) >= h.cutAtWritten {
				// deliver the bytes before the cut point, then kill the link: the peer can
				// drain what arrived and then sees EOF; this end fails from now on.
				n = max(0, int(h.cutAtWritten-h.written))
				h.buf = append(h.buf, p[:n]...)
				h.written += int64(n)
				total += n
				p = p[n:]
				h.wclosed = true
				h.cutAtWritten = -1
				cb := h.onCut
				h.broadcastLocked()
				h.mu.Unlock()
				c.markLocalReset()
				c.dead.Store(true)
				if cb != nil {
					cb()
				}
				if len(p) == 0 {
					return total, nil
				}
				return total, ErrReset
			}
			h.buf = append(h.buf, p[:n]...)
			h.written += int64(n)
			total += n
			p = p[n:]
			h.broadcastLocked()
			if len(p) == 0 {
				h.mu.Unlock()
				return total, nil
			}
		}
		if !wd.IsZero() && !time.Now().Before(wd) {
			h.mu.Unlock()
			return total, timeoutError{}
		}
		ch := h.notify
		h.mu.Unlock()
		waited = true
		if wait(ch, dch, wd) {
			return total, timeoutError{}
		}
	}
}

// SetWriteLinger makes a Write that is blocked when the link ends return only d later.
func (c *Conn) SetWriteLinger(d time.Duration) { c.writeLinger.Store(int64(d)) }

// markLocalReset makes this end's subsequent reads fail (the link is dead for us) while the
// peer can still drain what was delivered and then sees EOF.
func (c *Conn) markLocalReset() {
	i := c.in
	i.mu.Lock()
	if !i.reset {
		i.reset = true
		i.buf = nil
		i.broadcastLocked()
	}
	i.mu.Unlock()
}

// Close closes this end: pending and future local operations fail with net.ErrClosed, the peer
// reads EOF after draining and its writes fail.
func (c *Conn) Close() error {
	c.closeCount.Add(1)
	if c.closed.Swap(true) {
		return net.ErrClosed
	}
	c.closedAt.Store(time.Now().UnixNano())
	c.out.mu.Lock()
	c.out.wclosed = true
	c.out.broadcastLocked()
	c.out.mu.Unlock()
	c.in.mu.Lock()
	c.in.rclosed = true
	c.in.buf = nil
	c.in.broadcastLocked()
	c.in.mu.Unlock()
	c.dmu.Lock()
	close(c.dnotify)
	c.dnotify = make(chan struct{})
	c.dmu.Unlock()
	return nil
}

// Reset aborts the connection in both directions immediately (RST): buffered data is lost.
func (c *Conn) Reset() {
	for _, h := range []*half{c.in, c.out} {
		h.mu.Lock()
		if !h.reset {
			h.reset = true
			h.buf = nil
			h.broadcastLocked()
		}
		h.mu.Unlock()
	}
}

// ClosedAt is the instant of the first Close on this end (zero if never closed).
func (c *Conn) ClosedAt() time.Time {
	if ns := c.closedAt.Load(); ns != 0 {
		return time.Unix(0, ns)
	}
	return time.Time{}
}

// Closed reports whether Close was called on this end; CloseCalls how many times.
func (c *Conn) Closed() bool    { return c.closed.Load() }
func (c *Conn) CloseCalls() int { return int(c.closeCount.Load()) }

// BytesWritten / BytesRead report the bytes this end has put into / taken out of the link.
func (c *Conn) BytesWritten() int64 {
	c.out.mu.Lock()
	defer c.out.mu.Unlock()
	return c.out.written
}

func (c *Conn) BytesRead() int64 {
	c.in.mu.Lock()
	defer c.in.mu.Unlock()
	return c.in.read
}

// Buffered reports how many bytes written by the peer have not been read by this end yet.
func (c *Conn) Buffered() int {
	c.in.mu.Lock()
	defer c.in.mu.Unlock()
	return len(c.in.buf)
}

// CutAfterWritten arranges for the connection to die once this end has written n bytes in
// total (counted from the start of the connection): the first n bytes reach the peer, the
// write that crosses the boundary fails.
func (c *Conn) CutAfterWritten(n int64, onCut func()) {
	c.out.mu.Lock()
	c.out.cutAtWritten = n
	c.out.onCut = onCut
	c.out.mu.Unlock()
}

// CutAfterRead arranges for the connection to die once this end has read n bytes in total.
func (c *Conn) CutAfterRead(n int64, onCut func()) {
	c.in.mu.Lock()
	c.in.cutAtRead = n
	c.in.onCut = onCut
	c.in.broadcastLocked()
	c.in.mu.Unlock()
}

// StallInbound makes bytes written by the peer invisible to this end (as if the network stopped
// delivering) until released.
func (c *Conn) StallInbound(on bool) {
	c.in.mu.Lock()
	c.in.stalled = on
	c.in.broadcastLocked()
	c.in.mu.Unlock()
}

// SetWindow changes the capacity of the outbound direction (peer's receive window).
func (c *Conn) SetWindow(n int) {
	c.out.mu.Lock()
	c.out.window = n
	c.out.broadcastLocked()
	c.out.mu.Unlock()
}

func (c *Conn) LocalAddr() net.Addr  { return c.local }
func (c *Conn) RemoteAddr() net.Addr { return c.remote }

func (c *Conn) SetDeadline(t time.Time) error {
	if c.closed.Load() {
		return net.ErrClosed
	}
	c.dmu.Lock()
	c.rdeadline, c.wdeadline = t, t
	close(c.dnotify)
	c.dnotify = make(chan struct{})
	c.dmu.Unlock()
	return nil
}

func (c *Conn) SetReadDeadline(t time.Time) error {
	if c.closed.Load() {
		return net.ErrClosed
	}
	c.dmu.Lock()
	c.rdeadline = t
	close(c.dnotify)
	c.dnotify = make(chan struct{})
	c.dmu.Unlock()
	return nil
}

func (c *Conn) SetWriteDeadline(t time.Time) error {
	if c.closed.Load() {
		return net.ErrClosed
	}
	c.dmu.Lock()
	c.wdeadline = t
	close(c.dnotify)
	c.dnotify = make(chan struct{})
	c.dmu.Unlock()
	return nil
}

var _ net.Conn = (*Conn)(nil)

// SetInboundWindow changes the capacity of the inbound direction (this end's receive window):
// with a small window and a stalled reader the other side's writes block.
func (c *Conn) SetInboundWindow(n int) {
	c.in.mu.Lock()
	c.in.window = n
	c.in.broadcastLocked()
	c.in.mu.Unlock()
}
