package netsim

import (
	"fmt"
	"strings"
	"sync"
	"time"

	"verif/harness/ref/e37"
)

// RecvFrame is one frame the raw peer received, with its arrival time and position.
type RecvFrame struct {
	F   e37.Frame
	At  time.Time
	Idx int
}

// Peer is a raw HSMS peer: it speaks bytes built and parsed by ref/e37, never the library's own
// message types. A reader goroutine cuts the inbound byte stream into frames and records them.
type Peer struct {
	C *Conn

	mu     sync.Mutex
	frames []RecvFrame
	taken  int
	raw    []byte
	eof    bool
	rerr   error
	eofAt  time.Time
	notify chan struct{}
	split  e37.Splitter
	done   chan struct{}
	// AutoLinktest / AutoSelect make the reader answer Linktest.req / Select.req itself.
	AutoLinktest bool
	AutoSelect   bool
	// OnFrame, when set, is called on the reader goroutine for every inbound frame (after it was
	// recorded). It may call Send.
	OnFrame func(f e37.Frame)
	wmu     sync.Mutex
	sentLog []string
}

// NewPeer starts a raw peer on c.
func NewPeer(c *Conn) *Peer {
	p := &Peer{C: c, notify: make(chan struct{}), done: make(chan struct{})}
	go p.readLoop()
	return p
}

func (p *Peer) readLoop() {
	defer close(p.done)
	buf := make([]byte, 64<<10)
	for {
		n, err := p.C.Read(buf)
		if n > 0 {
			p.mu.Lock()
			p.raw = append(p.raw, buf[:n]...)
			fs := p.split.Feed(buf[:n])
			now := time.Now()
			var added []e37.Frame
			for _, f := range fs {
				p.frames = append(p.frames, RecvFrame{F: f, At: now, Idx: len(p.frames)})
				added = append(added, f)
			}
			auto, autoSel, cb := p.AutoLinktest, p.AutoSelect, p.OnFrame
			close(p.notify)
			p.notify = make(chan struct{})
			p.mu.Unlock()
			for _, f := range added {
				if auto && f.PType == 0 && f.SType == e37.LinktestReq {
					_ = p.Send(e37.Control(e37.LinktestRsp, 0xffff, 0, 0, f.Sys))
				}
				if autoSel && f.PType == 0 && f.SType == e37.SelectReq {
					_ = p.Send(e37.Control(e37.SelectRsp, f.Session, 0, 0, f.Sys))
				}
				if cb != nil {
					cb(f)
				}
			}
		}
		if err != nil {
			p.mu.Lock()
			p.eof = true
			p.rerr = err
			p.eofAt = time.Now()
			close(p.notify)
			p.notify = make(chan struct{})
			p.mu.Unlock()
			return
		}
	}
}

// SetAuto configures the automatic responders.
func (p *Peer) SetAuto(linktest, sel bool) {
	p.mu.Lock()
	p.AutoLinktest, p.AutoSelect = linktest, sel
	p.mu.Unlock()
}

// SetOnFrame installs the per-frame callback.
func (p *Peer) SetOnFrame(f func(e37.Frame)) {
	p.mu.Lock()
	p.OnFrame = f
	p.mu.Unlock()
}

// Send writes the frames in ONE Write call (one "TCP segment").
func (p *Peer) Send(fs ...e37.Frame) error {
	var b []byte
	for _, f := range fs {
		b = append(b, f.Bytes()...)
	}
	p.wmu.Lock()
	for _, f := range fs {
		p.sentLog = append(p.sentLog, f.String())
	}
	p.wmu.Unlock()
	return p.SendRaw(b)
}

// SendRaw writes raw bytes in one Write call.
func (p *Peer) SendRaw(b []byte) error {
	p.wmu.Lock()
	defer p.wmu.Unlock()
	_, err := p.C.Write(b)
	return err
}

// Frames returns a snapshot of every frame received so far.
func (p *Peer) Frames() []RecvFrame {
	p.mu.Lock()
	defer p.mu.Unlock()
	return append([]RecvFrame(nil), p.frames...)
}

// Take returns the frames received since the previous Take.
func (p *Peer) Take() []RecvFrame {
	p.mu.Lock()
	defer p.mu.Unlock()
	out := append([]RecvFrame(nil), p.frames[p.taken:]...)
	p.taken = len(p.frames)
	return out
}

// Raw returns all bytes received so far.
func (p *Peer) Raw() []byte {
	p.mu.Lock()
	defer p.mu.Unlock()
	return append([]byte(nil), p.raw...)
}

// PendingBytes is the size of an incomplete trailing frame.
func (p *Peer) PendingBytes() int {
	p.mu.Lock()
	defer p.mu.Unlock()
	return p.split.Pending()
}

// EOF reports whether the inbound direction ended (peer closed / reset) and when.
func (p *Peer) EOF() (bool, time.Time, error) {
	p.mu.Lock()
	defer p.mu.Unlock()
	return p.eof, p.eofAt, p.rerr
}

// WaitFrame blocks until a frame with index >= from satisfies pred, the stream ends, or d elapsed.
func (p *Peer) WaitFrame(from int, pred func(e37.Frame) bool, d time.Duration) (RecvFrame, bool) {
	deadline := time.Now().Add(d)
	for {
		p.mu.Lock()
		for i := from; i < len(p.frames); i++ {
			if pred(p.frames[i].F) {
				f := p.frames[i]
				p.mu.Unlock()
				return f, true
			}
		}
		from = len(p.frames)
		eof := p.eof
		ch := p.notify
		p.mu.Unlock()
		if eof {
			return RecvFrame{}, false
		}
		rem := time.Until(deadline)
		if rem <= 0 {
			return RecvFrame{}, false
		}
		t := time.NewTimer(rem)
		select {
		case <-ch:
			t.Stop()
		case <-t.C:
			return RecvFrame{}, false
		}
	}
}

// WaitEOF blocks until the inbound direction ends or d elapsed.
func (p *Peer) WaitEOF(d time.Duration) bool {
	deadline := time.Now().Add(d)
	for {
		p.mu.Lock()
		eof := p.eof
		ch := p.notify
		p.mu.Unlock()
		if eof {
			return true
		}
		rem := time.Until(deadline)
		if rem <= 0 {
			return false
		}
		t := time.NewTimer(rem)
		select {
		case <-ch:
			t.Stop()
		case <-t.C:
			return false
		}
	}
}

// Close closes the peer's socket and waits for the reader to exit.
func (p *Peer) Close() {
	_ = p.C.Close()
	<-p.done
}

// Reset aborts the connection (RST) and waits for the reader to exit.
func (p *Peer) Reset() {
	p.C.Reset()
	_ = p.C.Close()
	<-p.done
}

// Transcript renders what the peer sent and received (for failure reports).
func (p *Peer) Transcript() string {
	var sb strings.Builder
	p.wmu.Lock()
	for _, s := range p.sentLog {
		fmt.Fprintf(&sb, "  peer-> %s\n", s)
	}
	p.wmu.Unlock()
	p.mu.Lock()
	for _, f := range p.frames {
		fmt.Fprintf(&sb, "  lib->  %s\n", f.F.String())
	}
	if p.eof {
		fmt.Fprintf(&sb, "  lib->  <EOF %v>\n", p.rerr)
	}
	p.mu.Unlock()
	return sb.String()
}
