// Package e4 is an independent reference for SEMI E4 (SECS-I): block layout and checksum, message
// splitting, the receive-side message assembly rules of section 9.4 as summarised in the property
// statement, and a line peer that speaks the ENQ/EOT/ACK/NAK character protocol over any
// io.ReadWriter with deadlines. It shares no code with the library under test.
package e4

import (
	"errors"
	"fmt"
	"time"
)

const (
	ENQ = 0x05
	EOT = 0x04
	ACK = 0x06
	NAK = 0x15

	MaxBody = 244
)

// Block is one SECS-I block in the field layout of E4 section 8.
type Block struct {
	Device   uint16 // 15 bit
	R        bool   // direction: true = toward the host
	Stream   byte   // 7 bit
	W        bool
	Function byte
	Number   uint16 // 15 bit
	E        bool   // last block of the message
	Sys      uint32
	Body     []byte
}

// Header returns the 10 header bytes.
func (b Block) Header() [10]byte {
	var h [10]byte
	h[0] = byte(b.Device>>8) & 0x7f
	if b.R {
		h[0] |= 0x80
	}
	h[1] = byte(b.Device)
	h[2] = b.Stream & 0x7f
	if b.W {
		h[2] |= 0x80
	}
	h[3] = b.Function
	h[4] = byte(b.Number>>8) & 0x7f
	if b.E {
		h[4] |= 0x80
	}
	h[5] = byte(b.Number)
	h[6], h[7], h[8], h[9] = byte(b.Sys>>24), byte(b.Sys>>16), byte(b.Sys>>8), byte(b.Sys)
	return h
}

// Bytes returns the wire form: length byte, header, body, 16-bit checksum (sum of header+body).
func (b Block) Bytes() []byte {
	h := b.Header()
	out := make([]byte, 0, 13+len(b.Body))
	out = append(out, byte(10+len(b.Body)))
	out = append(out, h[:]...)
	out = append(out, b.Body...)
	var sum uint16
	for _, c := range out[1:] {
		sum += uint16(c)
	}
	return append(out, byte(sum>>8), byte(sum))
}

var (
	ErrLength   = errors.New("e4: length byte outside 10..254 or not matching the data")
	ErrChecksum = errors.New("e4: checksum is not the 16-bit sum of header and body")
)

// Parse parses the characters of one block (length byte first).
func Parse(raw []byte) (Block, error) {
	if len(raw) < 1 {
		return Block{}, ErrLength
	}
	n := int(raw[0])
	if n < 10 || n > 254 || len(raw) != 1+n+2 {
		return Block{}, ErrLength
	}
	var sum uint16
	for _, c := range raw[1 : 1+n] {
		sum += uint16(c)
	}
	if byte(sum>>8) != raw[1+n] || byte(sum) != raw[2+n] {
		return Block{}, ErrChecksum
	}
	h := raw[1:11]
	return Block{
		Device: uint16(h[0]&0x7f)<<8 | uint16(h[1]), R: h[0]&0x80 != 0,
		Stream: h[2] & 0x7f, W: h[2]&0x80 != 0, Function: h[3],
		Number: uint16(h[4]&0x7f)<<8 | uint16(h[5]), E: h[4]&0x80 != 0,
		Sys:  uint32(h[6])<<24 | uint32(h[7])<<16 | uint32(h[8])<<8 | uint32(h[9]),
		Body: append([]byte(nil), raw[11:1+n]...),
	}, nil
}

// Message is a complete SECS-I message.
type Message struct {
	Device   uint16
	R        bool
	Stream   byte
	W        bool
	Function byte
	Sys      uint32
	Body     []byte
}

// Split cuts a message into blocks of at most 244 body bytes numbered 1..N, E-bit on the last; an
// empty body gives one header-only block.
func Split(m Message) []Block {
	mk := func(n int, e bool, body []byte) Block {
		return Block{Device: m.Device, R: m.R, Stream: m.Stream, W: m.W, Function: m.Function, Number: uint16(n), E: e, Sys: m.Sys, Body: body}
	}
	if len(m.Body) == 0 {
		return []Block{mk(1, true, nil)}
	}
	var out []Block
	for off, n := 0, 1; off < len(m.Body); off, n = off+MaxBody, n+1 {
		end := min(off+MaxBody, len(m.Body))
		out = append(out, mk(n, end == len(m.Body), m.Body[off:end]))
	}
	return out
}

// Assembler is the receive-side message assembly of E4 section 9.4 for one endpoint.
type Assembler struct {
	Device  uint16
	IsEquip bool // the endpoint's role: equipment accepts R=0, host accepts R=1
	T4      time.Duration

	open     bool
	first    Block
	bodies   [][]byte
	expected uint16
	lastAt   time.Time
	last     [10]byte // header of the last block accepted as non-duplicate
	haveLast bool
}

func sameMessage(a, b Block) bool {
	return a.Device == b.Device && a.R == b.R && a.Stream == b.Stream && a.W == b.W && a.Function == b.Function && a.Sys == b.Sys
}

// Accept feeds one checksum-valid block that arrived at time now; it returns the message the block
// completes, if any, and a word naming the rule that fired.
func (a *Assembler) Accept(b Block, now time.Time) (*Message, string) {
	if b.Device != a.Device {
		return nil, "wrong-device"
	}
	if b.R == a.IsEquip { // toward the host but we are the equipment, or vice versa
		return nil, "wrong-direction"
	}
	timedOut := false
	if a.open && now.Sub(a.lastAt) > a.T4 {
		a.open, a.bodies = false, nil
		timedOut = true
	}
	if a.haveLast && b.Header() == a.last {
		return nil, "duplicate"
	}
	rule := "first"
	if a.open {
		if b.Number == a.expected && sameMessage(b, a.first) {
			a.bodies = append(a.bodies, b.Body)
			a.expected = b.Number + 1
			a.lastAt = now
			a.last, a.haveLast = b.Header(), true
			if b.E {
				return a.complete(), "completed"
			}
			return nil, "continued"
		}
		a.open, a.bodies = false, nil
		rule = "aborted-then-first"
	}
	if timedOut {
		rule = "t4-then-first"
	}
	if !(b.Number == 1 || (b.Number == 0 && b.E)) {
		if rule == "first" {
			return nil, "not-a-first-block"
		}
		return nil, rule + "-rejected"
	}
	a.open, a.first, a.bodies, a.expected, a.lastAt = true, b, [][]byte{b.Body}, b.Number+1, now
	a.last, a.haveLast = b.Header(), true
	if b.E {
		return a.complete(), rule + "-completed"
	}
	return nil, rule
}

func (a *Assembler) complete() *Message {
	m := &Message{Device: a.first.Device, R: a.first.R, Stream: a.first.Stream, W: a.first.W, Function: a.first.Function, Sys: a.first.Sys}
	for _, p := range a.bodies {
		m.Body = append(m.Body, p...)
	}
	a.open, a.bodies = false, nil
	return m
}

func (b Block) String() string {
	d := "->E"
	if b.R {
		d = "->H"
	}
	e := ""
	if b.E {
		e = "E"
	}
	w := ""
	if b.W {
		w = "W"
	}
	return fmt.Sprintf("blk#%d%s dev=%d%s S%dF%d%s sys=%08x body=%dB", b.Number, e, b.Device, d, b.Stream, b.Function, w, b.Sys, len(b.Body))
}
