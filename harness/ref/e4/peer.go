package e4

import (
	"errors"
	"fmt"
	"net"
	"time"
)

// RecvBlock is one block transmission the peer took from the line.
type RecvBlock struct {
	Raw   []byte // every character from the length byte to the second checksum byte
	Block Block
	Err   error // parse error (length / checksum), nil for a well-formed block
	At    time.Time
	Resp  byte // what the peer answered (ACK / NAK)
}

// Peer is a reference SECS-I line peer. All methods are called from ONE goroutine (the line is
// half duplex and has a single reader).
type Peer struct {
	C        net.Conn
	IsMaster bool // the peer plays the equipment (master) role in contention
	T1, T2   time.Duration

	Received []RecvBlock // every block transmission taken from the library, in order
	Trace    []string    // character-level transcript
	// Respond decides the answer to a received block (default: ACK iff well-formed).
	Respond func(rb RecvBlock) byte
}

func (p *Peer) tracef(f string, a ...any) { p.Trace = append(p.Trace, fmt.Sprintf(f, a...)) }

func name(b byte) string {
	switch b {
	case ENQ:
		return "ENQ"
	case EOT:
		return "EOT"
	case ACK:
		return "ACK"
	case NAK:
		return "NAK"
	}
	return fmt.Sprintf("0x%02x", b)
}

var ErrTimeout = errors.New("e4 peer: timeout")

func (p *Peer) readByte(d time.Duration) (byte, error) {
	_ = p.C.SetReadDeadline(time.Now().Add(d))
	var b [1]byte
	n, err := p.C.Read(b[:])
	if n == 1 {
		return b[0], nil
	}
	var ne net.Error
	if errors.As(err, &ne) && ne.Timeout() {
		return 0, ErrTimeout
	}
	return 0, err
}

// Write sends raw characters.
func (p *Peer) Write(b ...byte) error {
	_, err := p.C.Write(b)
	return err
}

// takeBlock reads one block transmission after the peer granted the line with EOT.
func (p *Peer) takeBlock() (RecvBlock, error) {
	lb, err := p.readByte(p.T2)
	if err != nil {
		return RecvBlock{}, fmt.Errorf("waiting for the length byte: %w", err)
	}
	rb := RecvBlock{Raw: []byte{lb}, At: time.Now()}
	n := int(lb)
	if n < 10 || n > 254 {
		// invalid length: listen until the line is silent for T1, then NAK
		for {
			if _, err := p.readByte(p.T1); err != nil {
				break
			}
		}
		rb.Err = ErrLength
	} else {
		for len(rb.Raw) < 1+n+2 {
			c, err := p.readByte(p.T1)
			if err != nil {
				rb.Err = fmt.Errorf("T1 between characters: %w", err)
				break
			}
			rb.Raw = append(rb.Raw, c)
		}
		if rb.Err == nil {
			rb.Block, rb.Err = Parse(rb.Raw)
		}
	}
	resp := byte(ACK)
	if rb.Err != nil {
		resp = NAK
	}
	if p.Respond != nil {
		resp = p.Respond(rb)
	}
	rb.Resp = resp
	p.tracef("lib-> %d characters (%v, err=%v); peer-> %s", len(rb.Raw), rb.Block, rb.Err, name(resp))
	p.Received = append(p.Received, rb)
	if resp != 0 {
		if err := p.Write(resp); err != nil {
			return rb, err
		}
	}
	return rb, nil
}

// ServeOne waits up to d for the library to request the line (ENQ), grants it and takes one block
// transmission. ok is false when nothing was offered within d.
func (p *Peer) ServeOne(d time.Duration) (rb RecvBlock, ok bool, err error) {
	deadline := time.Now().Add(d)
	for {
		rem := time.Until(deadline)
		if rem <= 0 {
			return RecvBlock{}, false, nil
		}
		b, e := p.readByte(rem)
		if e != nil {
			if errors.Is(e, ErrTimeout) {
				return RecvBlock{}, false, nil
			}
			return RecvBlock{}, false, e
		}
		if b != ENQ {
			p.tracef("lib-> %s (ignored while idle)", name(b))
			continue
		}
		p.tracef("lib-> ENQ; peer-> EOT")
		if e := p.Write(EOT); e != nil {
			return RecvBlock{}, false, e
		}
		rb, e = p.takeBlock()
		return rb, true, e
	}
}

// ReceiveMessage serves block transmissions until a well-formed, acknowledged block with the E-bit
// arrives (or nothing is offered for idle). It returns the acknowledged blocks of that message.
func (p *Peer) ReceiveMessage(idle time.Duration) ([]Block, error) {
	var out []Block
	for {
		rb, ok, err := p.ServeOne(idle)
		if err != nil {
			return out, err
		}
		if !ok {
			return out, fmt.Errorf("line idle for %v before the message was complete (%d blocks so far): %w", idle, len(out), ErrTimeout)
		}
		if rb.Err == nil && rb.Resp == ACK {
			out = append(out, rb.Block)
			if rb.Block.E {
				return out, nil
			}
		}
	}
}

// SendResult is the outcome of one block transmission attempt by the peer.
type SendResult struct {
	Granted bool // the library answered ENQ with EOT
	Resp    byte // the character that followed the block (ACK / NAK / other), 0 if none within T2
	Yields  int  // how often the peer yielded the line to a contending library (peer is the slave)
	Err     error
}

// SendRaw requests the line and transmits raw as one block transmission: ENQ, wait for EOT (T2),
// write the characters (gap[i] is slept before character i, if given), wait for the response (T2).
// If the library contends (sends ENQ) and the peer is the slave, the peer yields: it grants the
// line, takes the library's block, and then requests the line again.
func (p *Peer) SendRaw(raw []byte, gaps map[int]time.Duration) SendResult {
	var res SendResult
	if err := p.Write(ENQ); err != nil {
		res.Err = err
		return res
	}
	p.tracef("peer-> ENQ")
	deadline := time.Now().Add(p.T2)
	for !res.Granted {
		rem := time.Until(deadline)
		if rem <= 0 {
			res.Err = fmt.Errorf("no EOT within T2: %w", ErrTimeout)
			return res
		}
		b, err := p.readByte(rem)
		if err != nil {
			res.Err = fmt.Errorf("waiting for EOT: %w", err)
			return res
		}
		switch {
		case b == EOT:
			res.Granted = true
		case b == ENQ && !p.IsMaster:
			// contention: the library is the master, we yield
			p.tracef("lib-> ENQ (contention); peer yields: EOT")
			res.Yields++
			if err := p.Write(EOT); err != nil {
				res.Err = err
				return res
			}
			if _, err := p.takeBlock(); err != nil {
				res.Err = err
				return res
			}
			if err := p.Write(ENQ); err != nil {
				res.Err = err
				return res
			}
			p.tracef("peer-> ENQ (again)")
			deadline = time.Now().Add(p.T2)
		default:
			p.tracef("lib-> %s (ignored while waiting for EOT)", name(b))
		}
	}
	p.tracef("lib-> EOT; peer-> %d characters", len(raw))
	if len(gaps) == 0 {
		if err := p.Write(raw...); err != nil {
			res.Err = err
			return res
		}
	} else {
		for i, c := range raw {
			if g := gaps[i]; g > 0 {
				time.Sleep(g)
			}
			if err := p.Write(c); err != nil {
				res.Err = err
				return res
			}
		}
	}
	b, err := p.readByte(p.T2 + p.T1*2)
	if err != nil {
		res.Err = fmt.Errorf("no response to the block: %w", err)
		return res
	}
	res.Resp = b
	p.tracef("lib-> %s", name(b))
	return res
}

// Idle serves whatever the library wants to send for d.
func (p *Peer) Idle(d time.Duration) error {
	deadline := time.Now().Add(d)
	for time.Until(deadline) > 0 {
		if _, _, err := p.ServeOne(time.Until(deadline)); err != nil {
			return err
		}
	}
	return nil
}
