// Package e37 is an independent reference for SEMI E37 HSMS framing: the 4-byte big-endian
// message length, the 10-byte header (session id, header byte 2, header byte 3, PType, SType,
// system bytes) and the body. It shares no code with the library under test.
package e37

import (
	"errors"
	"fmt"
)

// SType values defined by E37.
const (
	Data        = 0
	SelectReq   = 1
	SelectRsp   = 2
	DeselectReq = 3
	DeselectRsp = 4
	LinktestReq = 5
	LinktestRsp = 6
	RejectReq   = 7
	SeparateReq = 9
)

// MaxLen is the largest message length the receiver has to accept (16 MiB - 1; E5 item cap).
const MaxLen = 1<<24 - 1

// Frame is one HSMS message in the field layout of E37 §8.2.
type Frame struct {
	Session uint16
	B2      byte // data: W-bit<<7 | stream; control: 0 (Reject.req: offending PType/SType)
	B3      byte // data: function; control: status / reason
	PType   byte
	SType   byte
	Sys     uint32
	Body    []byte
}

// DefinedSType reports whether s is an SType E37 defines.
func DefinedSType(s byte) bool { return s <= 7 || s == 9 }

// IsData reports whether f is a data message.
func (f Frame) IsData() bool { return f.PType == 0 && f.SType == Data }

func (f Frame) Stream() byte   { return f.B2 & 0x7f }
func (f Frame) WBit() bool     { return f.B2&0x80 != 0 }
func (f Frame) Function() byte { return f.B3 }

// Header returns the 10 header bytes.
func (f Frame) Header() [10]byte {
	return [10]byte{byte(f.Session >> 8), byte(f.Session), f.B2, f.B3, f.PType, f.SType,
		byte(f.Sys >> 24), byte(f.Sys >> 16), byte(f.Sys >> 8), byte(f.Sys)}
}

// Bytes returns the wire form: length, header, body.
func (f Frame) Bytes() []byte {
	n := 10 + len(f.Body)
	out := make([]byte, 0, 4+n)
	out = append(out, byte(n>>24), byte(n>>16), byte(n>>8), byte(n))
	h := f.Header()
	out = append(out, h[:]...)
	return append(out, f.Body...)
}

// DataFrame builds a data message frame.
func DataFrame(session uint16, stream, function byte, w bool, sys uint32, body []byte) Frame {
	b2 := stream & 0x7f
	if w {
		b2 |= 0x80
	}
	return Frame{Session: session, B2: b2, B3: function, SType: Data, Sys: sys, Body: body}
}

// Control builds a header-only control frame.
func Control(stype byte, session uint16, b2, b3 byte, sys uint32) Frame {
	return Frame{Session: session, B2: b2, B3: b3, SType: stype, Sys: sys}
}

// FromHeader parses a 10-byte header plus body.
func FromHeader(h []byte, body []byte) Frame {
	return Frame{Session: uint16(h[0])<<8 | uint16(h[1]), B2: h[2], B3: h[3], PType: h[4], SType: h[5],
		Sys: uint32(h[6])<<24 | uint32(h[7])<<16 | uint32(h[8])<<8 | uint32(h[9]), Body: body}
}

var (
	ErrShort   = errors.New("e37: fewer than 14 bytes")
	ErrLength  = errors.New("e37: length field does not equal the remaining bytes")
	ErrTooLong = errors.New("e37: length field above the cap")
	ErrPType   = errors.New("e37: PType is not 0")
	ErrSType   = errors.New("e37: undefined SType")
)

// ParseWhole parses a byte string that must be exactly one frame (length prefix included) and
// applies the frame-level well-formedness rules of the property: length field == remaining bytes,
// 10 <= length <= cap, PType 0, defined SType. A data body is NOT validated here.
func ParseWhole(b []byte) (Frame, error) {
	if len(b) < 14 {
		return Frame{}, ErrShort
	}
	n := int(b[0])<<24 | int(b[1])<<16 | int(b[2])<<8 | int(b[3])
	if n < 10 {
		return Frame{}, ErrLength
	}
	if n > MaxLen {
		return Frame{}, ErrTooLong
	}
	if n != len(b)-4 {
		return Frame{}, ErrLength
	}
	f := FromHeader(b[4:14], b[14:])
	if f.PType != 0 {
		return f, ErrPType
	}
	if !DefinedSType(f.SType) {
		return f, ErrSType
	}
	return f, nil
}

// Splitter incrementally cuts a byte stream into frames (no validation beyond the length bound).
type Splitter struct {
	buf []byte
	Bad error // set when a length outside [10, MaxLen] is met; the stream is then dead
}

// Feed appends bytes and returns the frames completed by them.
func (s *Splitter) Feed(p []byte) []Frame {
	if s.Bad != nil {
		return nil
	}
	s.buf = append(s.buf, p...)
	var out []Frame
	for len(s.buf) >= 4 {
		n := int(s.buf[0])<<24 | int(s.buf[1])<<16 | int(s.buf[2])<<8 | int(s.buf[3])
		if n < 10 || n > MaxLen {
			s.Bad = fmt.Errorf("e37: length %d outside [10,%d]", n, MaxLen)
			return out
		}
		if len(s.buf) < 4+n {
			break
		}
		body := append([]byte(nil), s.buf[14:4+n]...)
		out = append(out, FromHeader(s.buf[4:14], body))
		s.buf = s.buf[4+n:]
	}
	return out
}

// Pending returns the number of buffered bytes of an incomplete frame.
func (s *Splitter) Pending() int { return len(s.buf) }

func (f Frame) String() string {
	name := map[byte]string{0: "Data", 1: "Select.req", 2: "Select.rsp", 3: "Deselect.req", 4: "Deselect.rsp",
		5: "Linktest.req", 6: "Linktest.rsp", 7: "Reject.req", 9: "Separate.req"}[f.SType]
	if name == "" || f.PType != 0 {
		name = fmt.Sprintf("P%d/S%d", f.PType, f.SType)
	}
	if f.IsData() {
		w := ""
		if f.WBit() {
			w = "W"
		}
		return fmt.Sprintf("S%dF%d%s sess=%04x sys=%08x body=%dB", f.Stream(), f.Function(), w, f.Session, f.Sys, len(f.Body))
	}
	s := fmt.Sprintf("%s sess=%04x b2=%d b3=%d sys=%08x", name, f.Session, f.B2, f.B3, f.Sys)
	if len(f.Body) > 0 {
		s += fmt.Sprintf(" body=%dB", len(f.Body))
	}
	return s
}
