package fsm

import "verif/harness/ref/e37"

// Responder is the HSMS-SS control-procedure model written from SEMI E37 / E37.1 as summarised in
// the property statement (C08): what an endpoint sends back for every frame a peer can send on an
// established TCP link.
type Responder struct {
	Selected bool
	// OpenSelect is the system bytes of the endpoint's own open Select.req (active role), valid
	// while HasOpenSelect.
	HasOpenSelect bool
	OpenSelect    uint32
	// Validate / Session: inbound session-id validation for data messages.
	Validate bool
	Session  uint16
}

// Effect is the predicted reaction to one inbound frame.
type Effect struct {
	Out        []e37.Frame // control frames the endpoint sends back, in order
	Deliver    bool        // a data message is handed to the application handlers
	S9F1       bool        // a data message is dropped and answered with an S9F1 (validation on)
	Disconnect bool        // the endpoint ends the TCP connection
	Class      string      // which rule fired (for coverage accounting)
}

func reject(f e37.Frame, reason, b2 byte) e37.Frame {
	return e37.Frame{Session: f.Session, B2: b2, B3: reason, SType: e37.RejectReq, Sys: f.Sys}
}

// Step predicts the reaction to f and updates the model.
func (r *Responder) Step(f e37.Frame) Effect {
	switch {
	case f.PType != 0:
		return Effect{Out: []e37.Frame{reject(f, 2, f.PType)}, Class: "reject-ptype"}
	case !e37.DefinedSType(f.SType):
		return Effect{Out: []e37.Frame{reject(f, 1, f.SType)}, Class: "reject-stype"}
	case f.SType != e37.Data && len(f.Body) > 0:
		return Effect{Out: []e37.Frame{reject(f, 1, f.SType)}, Class: "reject-control-with-body"}
	}
	switch f.SType {
	case e37.Data:
		if !r.Selected {
			return Effect{Out: []e37.Frame{reject(f, 4, 0)}, Class: "data-not-selected"}
		}
		if r.Validate && f.Session != r.Session && !(f.Stream() == 9 && f.Function() == 1) {
			return Effect{S9F1: true, Class: "data-session-mismatch"}
		}
		return Effect{Deliver: true, Class: "data-delivered"}
	case e37.SelectReq:
		status := byte(1)
		cls := "select-duplicate"
		if !r.Selected {
			status, cls = 0, "select-first"
			r.Selected = true
		}
		return Effect{Out: []e37.Frame{{Session: f.Session, B3: status, SType: e37.SelectRsp, Sys: f.Sys}}, Class: cls}
	case e37.DeselectReq:
		status := byte(1)
		cls := "deselect-not-selected"
		if r.Selected {
			status, cls = 0, "deselect-selected"
			r.Selected = false
		}
		return Effect{Out: []e37.Frame{{Session: f.Session, B3: status, SType: e37.DeselectRsp, Sys: f.Sys}}, Class: cls}
	case e37.LinktestReq:
		return Effect{Out: []e37.Frame{{Session: 0xffff, SType: e37.LinktestRsp, Sys: f.Sys}}, Class: "linktest"}
	case e37.SelectRsp:
		if r.HasOpenSelect && f.Sys == r.OpenSelect {
			r.HasOpenSelect = false
			switch f.B3 {
			case 0:
				r.Selected = true
				return Effect{Class: "own-select-accepted"}
			case 1:
				return Effect{Class: "own-select-already-active"}
			default:
				return Effect{Disconnect: true, Class: "own-select-refused"}
			}
		}
		return Effect{Out: []e37.Frame{reject(f, 3, f.SType)}, Class: "orphan-response"}
	case e37.DeselectRsp, e37.LinktestRsp:
		return Effect{Out: []e37.Frame{reject(f, 3, f.SType)}, Class: "orphan-response"}
	case e37.RejectReq:
		if r.HasOpenSelect && f.Sys == r.OpenSelect {
			r.HasOpenSelect = false
			return Effect{Disconnect: true, Class: "own-select-rejected"}
		}
		return Effect{Class: "orphan-reject-ignored"}
	case e37.SeparateReq:
		if r.Selected {
			r.Selected = false
			return Effect{Disconnect: true, Class: "separate-selected"}
		}
		return Effect{Class: "separate-ignored"}
	}
	return Effect{}
}
