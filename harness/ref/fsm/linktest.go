// Package fsm holds small executable reference models written from the property statements and
// the package documentation (not from the library's source): linktest failure accounting, the
// reconnect backoff, the HSMS-SS responder.
package fsm

import (
	"math"
	"math/big"
	"time"
)

// Linktest is the failure-accounting model of docs/guides/linktest-suppression.md ("the three
// rules", rule 3) and of hsms.WithLinktestSuppression: only consecutive probe timeouts on a silent
// link accumulate; a sign of life (a frame received after the probe went out, or a reply still
// outstanding) credits the failure; a frame received since the previous counted failure restarts
// the run with this failure; the disconnect decision re-checks for life.
type Linktest struct {
	Suppress  bool
	Threshold int
	Run       int   // consecutive counted failures
	lastRecv  int64 // receive stamp seen by the last counted failure
}

// Outcome of one failure evaluation.
type Outcome struct {
	Credited   bool // the failure did not count
	Disconnect bool
}

// Success records an answered probe.
func (l *Linktest) Success() { l.Run = 0 }

// Timeout evaluates one probe timeout. recvNow / inflight are the values at evaluation time,
// recvFinal / inflightFinal the fresh values read by the pre-disconnect re-check.
func (l *Linktest) Timeout(sentAt, recvNow, inflight, recvFinal, inflightFinal int64) Outcome {
	if !l.Suppress {
		l.Run++
		if l.Run >= l.Threshold {
			return Outcome{Disconnect: true}
		}
		return Outcome{}
	}
	if recvNow > sentAt || inflight > 0 {
		l.Run = 0
		return Outcome{Credited: true}
	}
	saved := l.lastRecv
	if l.Run > 0 && recvNow > l.lastRecv {
		l.Run = 1
	} else {
		l.Run++
	}
	l.lastRecv = recvNow
	if l.Run >= l.Threshold {
		if inflightFinal > 0 || recvFinal > sentAt {
			l.Run = 0
			l.lastRecv = saved
			return Outcome{Credited: true}
		}
		return Outcome{Disconnect: true}
	}
	return Outcome{}
}

// Backoff returns the delay that follows cur in the reconnect backoff: cur x multiplier, capped at
// ceil (T5); anything not representable (overflow, NaN, Inf, non-positive) is the cap. exact
// reports the un-rounded product for tolerance checks (nil when not finite).
func Backoff(cur time.Duration, multiplier float64, ceil time.Duration) (time.Duration, *big.Float) {
	if math.IsNaN(multiplier) || math.IsInf(multiplier, 0) {
		return ceil, nil
	}
	p := new(big.Float).SetPrec(200).Mul(new(big.Float).SetInt64(int64(cur)), new(big.Float).SetFloat64(multiplier))
	if p.Sign() <= 0 {
		return ceil, p
	}
	if p.Cmp(new(big.Float).SetInt64(int64(ceil))) > 0 {
		return ceil, p
	}
	i, _ := p.Int64()
	if i <= 0 {
		return ceil, p
	}
	return time.Duration(i), p
}
