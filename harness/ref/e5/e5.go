// Package e5 is an independent reference implementation of the SEMI E5 (SECS-II) item encoding,
// written from the standard: a logical value tree, an encoder and a decoder. It shares no code
// with the library under test and is the oracle for C01/C02/C03/C16/C17.
package e5

import (
	"errors"
	"fmt"
	"math"
)

// Format codes (SEMI E5 table 1), octal as in the standard.
const (
	List    = 0o00
	Binary  = 0o10
	Boolean = 0o11
	ASCII   = 0o20
	JIS8    = 0o21
	Local   = 0o22 // 2-byte localized string: 2-byte header + text
	I8      = 0o30
	I1      = 0o31
	I2      = 0o32
	I4      = 0o34
	F8      = 0o40
	F4      = 0o44
	U8      = 0o50
	U1      = 0o51
	U2      = 0o52
	U4      = 0o54
)

// AllCodes lists the 16 defined format codes.
var AllCodes = []byte{List, Binary, Boolean, ASCII, JIS8, Local, I8, I1, I2, I4, F8, F4, U8, U1, U2, U4}

// MaxLen is the largest value of the 3-byte length field.
const MaxLen = 1<<24 - 1

// MaxDepth is the nesting limit the library documents (secs2.MaxListDepth).
const MaxDepth = 64

// Value is the logical value of one item. Exactly the field matching FC is meaningful.
// Empty (FC == 0xFF) is the library's "no body" sentinel: it encodes to zero bytes.
type Value struct {
	FC     byte
	List   []Value
	Bytes  []byte // Binary, ASCII, JIS8, Local (text part)
	LSH    uint16 // Local header
	Bools  []bool
	Ints   []int64
	Uints  []uint64
	Floats []float64 // F4 values are held as float64; the encoding rounds to float32
}

// Empty is the format code used for the "no item" value.
const Empty = 0xFF

// Width returns the element width in bytes of a numeric format code (0 otherwise).
func Width(fc byte) int {
	switch fc {
	case I1, U1:
		return 1
	case I2, U2:
		return 2
	case I4, U4, F4:
		return 4
	case I8, U8, F8:
		return 8
	}
	return 0
}

func IsInt(fc byte) bool   { return fc == I1 || fc == I2 || fc == I4 || fc == I8 }
func IsUint(fc byte) bool  { return fc == U1 || fc == U2 || fc == U4 || fc == U8 }
func IsFloat(fc byte) bool { return fc == F4 || fc == F8 }
func IsText(fc byte) bool  { return fc == ASCII || fc == JIS8 || fc == Local }

// Name returns the library's type string for a format code.
func Name(fc byte) string {
	switch fc {
	case List:
		return "list"
	case Binary:
		return "binary"
	case Boolean:
		return "boolean"
	case ASCII:
		return "ascii"
	case JIS8:
		return "jis8"
	case Local:
		return "localized_str"
	case I1:
		return "i1"
	case I2:
		return "i2"
	case I4:
		return "i4"
	case I8:
		return "i8"
	case U1:
		return "u1"
	case U2:
		return "u2"
	case U4:
		return "u4"
	case U8:
		return "u8"
	case F4:
		return "f4"
	case F8:
		return "f8"
	case Empty:
		return "empty"
	}
	return fmt.Sprintf("unknown(%d)", fc)
}

// Size is the element count the library reports: bytes for binary/text, values for numerics,
// children for lists.
func (v Value) Size() int {
	switch {
	case v.FC == List:
		return len(v.List)
	case v.FC == Local:
		return len(v.Bytes) + 2 // documented: the wire payload byte count, header included
	case v.FC == Binary || IsText(v.FC):
		return len(v.Bytes)
	case v.FC == Boolean:
		return len(v.Bools)
	case IsInt(v.FC):
		return len(v.Ints)
	case IsUint(v.FC):
		return len(v.Uints)
	case IsFloat(v.FC):
		return len(v.Floats)
	}
	return 0
}

// payloadLen is the value of the length field: payload bytes, or child count for lists.
func (v Value) payloadLen() int {
	switch {
	case v.FC == List:
		return len(v.List)
	case v.FC == Local:
		return len(v.Bytes) + 2
	case v.FC == Binary || v.FC == ASCII || v.FC == JIS8:
		return len(v.Bytes)
	case v.FC == Boolean:
		return len(v.Bools)
	default:
		return v.Size() * Width(v.FC)
	}
}

// Header returns the item header for a format code and length using the minimal number of
// length bytes (E5 9.2.2).
func Header(fc byte, length int) []byte {
	switch {
	case length <= 0xFF:
		return []byte{fc<<2 | 1, byte(length)}
	case length <= 0xFFFF:
		return []byte{fc<<2 | 2, byte(length >> 8), byte(length)}
	default:
		return []byte{fc<<2 | 3, byte(length >> 16), byte(length >> 8), byte(length)}
	}
}

// Encode returns the SEMI E5 encoding of v.
func Encode(v Value) []byte { return AppendEncode(nil, v) }

func AppendEncode(dst []byte, v Value) []byte {
	if v.FC == Empty {
		return dst
	}
	dst = append(dst, Header(v.FC, v.payloadLen())...)
	switch {
	case v.FC == List:
		for _, c := range v.List {
			dst = AppendEncode(dst, c)
		}
	case v.FC == Local:
		dst = append(dst, byte(v.LSH>>8), byte(v.LSH))
		dst = append(dst, v.Bytes...)
	case v.FC == Binary || v.FC == ASCII || v.FC == JIS8:
		dst = append(dst, v.Bytes...)
	case v.FC == Boolean:
		for _, b := range v.Bools {
			if b {
				dst = append(dst, 1)
			} else {
				dst = append(dst, 0)
			}
		}
	case IsInt(v.FC):
		w := Width(v.FC)
		for _, x := range v.Ints {
			dst = appendBE(dst, uint64(x), w)
		}
	case IsUint(v.FC):
		w := Width(v.FC)
		for _, x := range v.Uints {
			dst = appendBE(dst, x, w)
		}
	case v.FC == F4:
		for _, x := range v.Floats {
			dst = appendBE(dst, uint64(math.Float32bits(float32(x))), 4)
		}
	case v.FC == F8:
		for _, x := range v.Floats {
			dst = appendBE(dst, math.Float64bits(x), 8)
		}
	}
	return dst
}

func appendBE(dst []byte, x uint64, w int) []byte {
	for i := w - 1; i >= 0; i-- {
		dst = append(dst, byte(x>>(8*uint(i))))
	}
	return dst
}

func readBE(b []byte) uint64 {
	var x uint64
	for _, c := range b {
		x = x<<8 | uint64(c)
	}
	return x
}

// Reject reasons.
var (
	ErrTruncatedHeader = errors.New("e5: truncated header")
	ErrZeroLenBytes    = errors.New("e5: zero length-byte count")
	ErrUnknownFormat   = errors.New("e5: unknown format code")
	ErrTruncated       = errors.New("e5: truncated payload")
	ErrNotMultiple     = errors.New("e5: payload not a multiple of the element width")
	ErrShortLocal      = errors.New("e5: localized string shorter than its header")
	ErrTooDeep         = errors.New("e5: nesting deeper than the limit")
)

func defined(fc byte) bool {
	for _, c := range AllCodes {
		if c == fc {
			return true
		}
	}
	return false
}

// Decode parses one item from b (the grammar of E5 9.2/9.3) and returns its value and the number
// of bytes consumed. Non-canonical (longer than necessary) length fields are accepted, as the
// standard allows. Empty input is the Empty value (library convention for a header-only message).
func Decode(b []byte) (Value, int, error) {
	if len(b) == 0 {
		return Value{FC: Empty}, 0, nil
	}
	return decode(b, 0, 0)
}

func decode(b []byte, pos, depth int) (Value, int, error) {
	if pos >= len(b) {
		return Value{}, pos, ErrTruncatedHeader
	}
	fb := b[pos]
	fc := fb >> 2
	nlen := int(fb & 3)
	if nlen == 0 {
		return Value{}, pos, ErrZeroLenBytes
	}
	if pos+1+nlen > len(b) {
		return Value{}, pos, ErrTruncatedHeader
	}
	length := int(readBE(b[pos+1 : pos+1+nlen]))
	pos += 1 + nlen
	if !defined(fc) {
		return Value{}, pos, ErrUnknownFormat
	}
	v := Value{FC: fc}
	if fc == List {
		if depth+1 > MaxDepth {
			return Value{}, pos, ErrTooDeep
		}
		// every child needs at least 2 bytes; reject early so that the reference itself
		// never allocates from an attacker-chosen count
		if length*2 > len(b)-pos {
			return Value{}, pos, ErrTruncated
		}
		v.List = make([]Value, 0, length)
		for i := 0; i < length; i++ {
			c, np, err := decode(b, pos, depth+1)
			if err != nil {
				return Value{}, np, err
			}
			v.List = append(v.List, c)
			pos = np
		}
		return v, pos, nil
	}
	if w := Width(fc); w > 1 && length%w != 0 {
		return Value{}, pos, ErrNotMultiple
	}
	if fc == Local && length < 2 {
		return Value{}, pos, ErrShortLocal
	}
	if pos+length > len(b) {
		return Value{}, pos, ErrTruncated
	}
	p := b[pos : pos+length]
	pos += length
	switch {
	case fc == Local:
		v.LSH = uint16(p[0])<<8 | uint16(p[1])
		v.Bytes = append([]byte{}, p[2:]...)
	case fc == Binary || fc == ASCII || fc == JIS8:
		v.Bytes = append([]byte{}, p...)
	case fc == Boolean:
		v.Bools = make([]bool, len(p))
		for i, c := range p {
			v.Bools[i] = c != 0
		}
	case IsInt(fc):
		w := Width(fc)
		v.Ints = make([]int64, len(p)/w)
		for i := range v.Ints {
			u := readBE(p[i*w : (i+1)*w])
			shift := uint(64 - 8*w)
			v.Ints[i] = int64(u<<shift) >> shift // sign-extend
		}
	case IsUint(fc):
		w := Width(fc)
		v.Uints = make([]uint64, len(p)/w)
		for i := range v.Uints {
			v.Uints[i] = readBE(p[i*w : (i+1)*w])
		}
	case fc == F4:
		v.Floats = make([]float64, len(p)/4)
		for i := range v.Floats {
			v.Floats[i] = float64(math.Float32frombits(uint32(readBE(p[i*4 : i*4+4]))))
		}
	case fc == F8:
		v.Floats = make([]float64, len(p)/8)
		for i := range v.Floats {
			v.Floats[i] = math.Float64frombits(readBE(p[i*8 : i*8+8]))
		}
	}
	return v, pos, nil
}

// Depth returns the list nesting depth of v (0 for a leaf, 1 for a flat list).
func (v Value) Depth() int {
	if v.FC != List {
		return 0
	}
	d := 0
	for _, c := range v.List {
		if cd := c.Depth(); cd > d {
			d = cd
		}
	}
	return d + 1
}

// Count returns the number of items in the tree (including v).
func (v Value) Count() int {
	n := 1
	for _, c := range v.List {
		n += c.Count()
	}
	return n
}

// String renders a compact description (for samples and failure messages).
func (v Value) String() string {
	switch {
	case v.FC == Empty:
		return "<empty>"
	case v.FC == List:
		if len(v.List) > 8 {
			return fmt.Sprintf("L[%d]{%s,...}", len(v.List), v.List[0].String())
		}
		s := fmt.Sprintf("L[%d]{", len(v.List))
		for i, c := range v.List {
			if i > 0 {
				s += ","
			}
			s += c.String()
		}
		return s + "}"
	case v.FC == Local:
		return fmt.Sprintf("W(%d,%s)", v.LSH, trunc(fmt.Sprintf("%q", v.Bytes)))
	case v.FC == Binary || IsText(v.FC):
		return fmt.Sprintf("%s(%s)", Name(v.FC), trunc(fmt.Sprintf("%q", v.Bytes)))
	case v.FC == Boolean:
		return fmt.Sprintf("bool%s", trunc(fmt.Sprint(v.Bools)))
	case IsInt(v.FC):
		return fmt.Sprintf("%s%s", Name(v.FC), trunc(fmt.Sprint(v.Ints)))
	case IsUint(v.FC):
		return fmt.Sprintf("%s%s", Name(v.FC), trunc(fmt.Sprint(v.Uints)))
	default:
		return fmt.Sprintf("%s%s", Name(v.FC), trunc(fmt.Sprint(v.Floats)))
	}
}

func trunc(s string) string {
	if len(s) > 60 {
		return s[:57] + "..."
	}
	return s
}

// SameFloat reports whether two float values are the same for round-trip purposes: equal bits,
// or both NaN (NaN payload bits are not part of the logical value).
func SameFloat(a, b float64, f4 bool) bool {
	if math.IsNaN(a) || math.IsNaN(b) {
		return math.IsNaN(a) && math.IsNaN(b)
	}
	if f4 {
		return math.Float32bits(float32(a)) == math.Float32bits(float32(b))
	}
	return math.Float64bits(a) == math.Float64bits(b)
}

// Same reports logical equality of two values (NaN equals NaN; F4 compared at float32 precision).
func Same(a, b Value) bool {
	if a.FC != b.FC || a.Size() != b.Size() {
		return false
	}
	switch {
	case a.FC == List:
		for i := range a.List {
			if !Same(a.List[i], b.List[i]) {
				return false
			}
		}
	case a.FC == Local:
		return a.LSH == b.LSH && string(a.Bytes) == string(b.Bytes)
	case a.FC == Binary || IsText(a.FC):
		return string(a.Bytes) == string(b.Bytes)
	case a.FC == Boolean:
		for i := range a.Bools {
			if a.Bools[i] != b.Bools[i] {
				return false
			}
		}
	case IsInt(a.FC):
		for i := range a.Ints {
			if a.Ints[i] != b.Ints[i] {
				return false
			}
		}
	case IsUint(a.FC):
		for i := range a.Uints {
			if a.Uints[i] != b.Uints[i] {
				return false
			}
		}
	case IsFloat(a.FC):
		for i := range a.Floats {
			if !SameFloat(a.Floats[i], b.Floats[i], a.FC == F4) {
				return false
			}
		}
	}
	return true
}

// HeaderOffsets walks a valid encoding and returns the offset of every item header.
func HeaderOffsets(b []byte) []int {
	var offs []int
	var walk func(pos int) int
	walk = func(pos int) int {
		if pos >= len(b) {
			return -1
		}
		offs = append(offs, pos)
		fc := b[pos] >> 2
		nlen := int(b[pos] & 3)
		if nlen == 0 || pos+1+nlen > len(b) {
			return -1
		}
		length := int(readBE(b[pos+1 : pos+1+nlen]))
		pos += 1 + nlen
		if fc == List {
			for i := 0; i < length; i++ {
				pos = walk(pos)
				if pos < 0 {
					return -1
				}
			}
			return pos
		}
		return pos + length
	}
	if len(b) > 0 {
		walk(0)
	}
	return offs
}

// EncodeWith encodes v choosing the number of length bytes per item through pick (which receives
// the minimal count 1..3 and returns a count >= minimal and <= 3): non-canonical but valid E5.
func EncodeWith(dst []byte, v Value, pick func(minimal int) int) []byte {
	if v.FC == Empty {
		return dst
	}
	length := v.payloadLen()
	minimal := len(Header(v.FC, length)) - 1
	n := pick(minimal)
	if n < minimal {
		n = minimal
	}
	if n > 3 {
		n = 3
	}
	dst = append(dst, v.FC<<2|byte(n))
	for i := n - 1; i >= 0; i-- {
		dst = append(dst, byte(length>>(8*uint(i))))
	}
	if v.FC == List {
		for _, c := range v.List {
			dst = EncodeWith(dst, c, pick)
		}
		return dst
	}
	body := AppendEncode(nil, v)
	return append(dst, body[minimal+1:]...)
}
