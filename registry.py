"""Which Go tests decide which property. One process per (test, shard)."""

REGISTRY = {
    "C01": {
        "level": "exploration",
        "tests": [
            {"name": "TestC01Encode", "shards": 8, "shards_thorough": 16},
        ],
        "require": {"depth:64": 5, "slab:>213": 5, "lenbytes:3": 5, "lenbytes:2": 20},
    },
}
