"""Which Go tests decide which property. One process per (test, shard)."""

REGISTRY = {
    "C01": {
        "level": "exploration",
        "claim": 'Generated item trees over every format code, boundary counts, nesting to 64 and every constructor shape, compared byte-for-byte with an independent SEMI E5 reference encoder and round-tripped through Decode with all accessor families.',
        "trust": "Trusts the reference codec harness/ref/e5 (written from the standard) and Go's float32 conversion.",
        "technique": 'property-based testing (rapid): differential vs reference encoder + round trip',
        "tests": [
            {"name": "TestC01Encode", "shards": 8, "shards_thorough": 16},
        ],
        "require": {"depth:64": 5, "slab:>213": 5, "lenbytes:3": 5, "lenbytes:2": 20},
    },
    "C02": {
        "level": "exploration",
        "claim": 'Structured mutations of valid encodings (byte flips, truncations, length rewrites, non-canonical headers, depth 63/64/65) and hostile constants decoded by both entry points; accept/reject and value compared with an independent E5 reference decoder, re-encoding compared with the consumed prefix, allocation metered against a linear bound; coverage-guided native fuzzing in the thorough tier.',
        "trust": 'Trusts harness/ref/e5.Decode as the grammar; the allocation bound (128x input + 256 KiB) is a calibrated constant.',
        "technique": 'property-based testing (rapid) + native go fuzzing: differential vs reference decoder, allocation meter',
        "tests": [
            {"name": "TestC02Decode", "shards": 8, "shards_thorough": 16},
            {"name": "TestC02Hostile", "shards": 1},
            {"name": "FuzzC02Decode", "shards": 1, "fuzz": True, "tier": "thorough", "fuzztime": "180s"},
        ],
        "require": {"mut:noncanonical:accepted": 20, "mut:wrapdepth:accepted": 5, "mut:wrapdepth:rejected": 5,
                    "mut:lengthfield:rejected": 20, "mut:hostile:rejected": 20},
    },
    "C03": {
        "level": "exploration",
        "claim": "Generated (stream, function, W, session, system bytes, body) tuples through every constructor, re-stamp and derive path plus all nine control factories with every status/reason byte, compared byte for byte with independent E37/E5 reference encoders and round-tripped through the three decode entry points; on a real Selected connection (both roles) the bytes a raw peer reads for every send entry point are compared with the message's serialization.",
        "trust": "Trusts ref/e37 and ref/e5 (written from the standards) and the in-memory network handed to WithDialer/WithListener.",
        "technique": "property-based testing (rapid): differential vs reference encoders, round trip, wire == ToBytes on scripted connections in testing/synctest",
        "tests": [
            {"name": "TestC03Frames", "shards": 8, "shards_thorough": 16},
            {"name": "TestC03Wire", "shards": 4, "shards_thorough": 16},
        ],
        "require": {"c03:control:0": 274, "c03:control:1": 274, "c03:control:2": 185, "c03:control:3": 184, "c03:control:4": 142, "c03:control:5": 127, "c03:control:6": 139, "c03:control:7": 130, "c03:control:8": 124, "c03:control:9": 164, "c03:data": 2724, "c03:rejected": 3029, "c03:restamps:1": 747, "c03:restamps:2": 742, "c03:restamps:3": 581, "c03:restamps:4": 652, "c03:wire:Forward": 1327, "c03:wire:ForwardAsync": 1313, "c03:wire:Reply": 1007, "c03:wire:Send": 987, "c03:wire:SendAsync": 991, "c03:wire:SendSECS2": 816, "c03:wire:active": 3208, "c03:wire:passive": 3235},
    },
    "C04": {
        "level": "exploration",
        "claim": "Mutated and random byte strings through the three frame-decode entry points against an independent well-formedness predicate (incl. same body error for every holder, copy and goroutine); generated frame streams under arbitrary segmentation and inter-segment delay classes fed by a raw peer to real connections in virtual time: segmentation invariance against the responder model, idle gaps survive, a stall inside a frame drops the link exactly T8 after its last byte, an out-of-range length drops it at once without allocating the claimed size; native fuzzing of the decode entry points in the thorough tier.",
        "trust": "Trusts ref/e37.ParseWhole and ref/fsm.Responder; virtual time (testing/synctest) makes T8 exact; the allocation meter is process-wide TotalAlloc with a 4 MiB threshold against >= 16 MiB claimed.",
        "technique": "property-based testing (rapid): acceptance-predicate differential + metamorphic segmentation invariance on scripted connections in testing/synctest; native go fuzzing (thorough)",
        "tests": [
            {"name": "TestC04Decode", "shards": 8, "shards_thorough": 16},
            {"name": "TestC04Stream", "shards": 8, "shards_thorough": 16},
            {"name": "FuzzC04Frame", "shards": 1, "fuzz": True, "tier": "thorough", "fuzztime": "120s"},
        ],
        "require": {"c04:accepted": 1649, "c04:accepted-bad-body": 543, "c04:mut:extend": 712, "c04:mut:flip": 710, "c04:mut:len": 1308, "c04:mut:none": 1335, "c04:mut:ptype": 902, "c04:mut:random": 902, "c04:mut:stype": 905, "c04:mut:truncate": 724, "c04:rejected": 5307, "c04s:bad-length-huge": 385, "c04s:bad-length-small": 326, "c04s:boundaries": 959, "c04s:delay:idle-long": 502, "c04s:delay:none": 3645, "c04s:delay:short": 2421, "c04s:delay:stall": 1369, "c04s:drip-head": 860, "c04s:few": 1089, "c04s:many": 1091, "c04s:role:active": 1983, "c04s:role:passive": 2016},
    },
    "C06": {
        "level": "exploration",
        "claim": "1-12 concurrent reply-expected sends against a raw peer whose reply-side behaviour is a generated policy per transaction (permuted/delayed/duplicate/missing/late replies, rejects with every reason, SxF0 aborts, peer primaries and control responses reusing in-flight system bytes, unsolicited secondaries, link drops, caller deadlines/cancels); in virtual time every call has a single predicted outcome and instant, checked together with reply identity, T3 lower bound, never (nil,nil), a delivery ledger (each inbound data frame reaches exactly one recipient, handlers in arrival order) and pairwise distinct system bytes.",
        "trust": "Delays are drawn from a lattice on which no two causes coincide (inherent ties are not generated); the Go scheduler inside the library is sampled; peer data secondaries that reuse a library CONTROL transaction's system bytes are not generated (the statement leaves them open).",
        "technique": "property-based testing (rapid): concurrent histories in testing/synctest against a routing model + per-call ledger",
        "tests": [
            {"name": "TestC06Replies", "shards": 8, "shards_thorough": 16},
        ],
        "require": {"c06:drop:early": 189, "c06:drop:mid": 179, "c06:drop:none": 631, "c06:outcome:closed": 129, "c06:outcome:ctx": 242, "c06:outcome:reject": 360, "c06:outcome:reply": 955, "c06:outcome:t3": 175, "c06:policy:abort": 250, "c06:policy:collide-control": 472, "c06:policy:collide-primary": 244, "c06:policy:dup": 364, "c06:policy:dup-late": 282, "c06:policy:late": 296, "c06:policy:none": 284, "c06:policy:reject": 290, "c06:policy:reply": 802, "c06:policy:unsolicited": 238},
    },
    "C07": {
        "level": "exploration",
        "claim": "Real connections (both roles) driven into each way of being not-selected (never opened, closed, connecting, connected-not-selected, deselected, between reconnect generations, select rejected); every data-sending entry point is checked for error identity, exactly one counted drop and zero data bytes at the raw peer; inbound data while not selected must be answered by Reject reason 4 echoing session id and system bytes with no handler call and the link up; data pipelined behind the establishing Select under drawn segmentations must be delivered in order.",
        "trust": "Trusts the in-memory network and virtual-time quiescence (synctest.Wait) as the point at which 'nothing was written' is decided.",
        "technique": "property-based testing (rapid) over scripted connection histories in testing/synctest with byte-level peer observation",
        "tests": [
            {"name": "TestC07Gate", "shards": 8, "shards_thorough": 16},
        ],
        "require": {"c07:between-generations": 568, "c07:closed": 1029, "c07:connected-not-selected": 1502, "c07:connecting": 364, "c07:deselected": 582, "c07:never-opened": 1048, "c07:pipeline:cuts": 551, "c07:pipeline:cuts-settle": 487, "c07:pipeline:drip": 441, "c07:pipeline:one-write": 544, "c07:role:active": 3739, "c07:role:passive": 3760, "c07:select-rejected": 380},
    },
    "C05": {
        "level": "exploration",
        "claim": "Rapid state machine over the real supervisor with the schedule owned by the harness (commits placed inside the supervisor's load->store window, stale T7 / stale generation events, commits after Close, undrained notifications) checked after every action against a reference E37 model plus the notification chain / no-self / final-state invariants; end-to-end peer scripts (pipelined Select+Deselect, T7, separate, drops, connect racing Close) on real connections inside a virtual-time bubble with State() read at synchronisation points.",
        "trust": "Assumption A1 (generations are separated in real time); the Go scheduler inside the library is sampled, not enumerated; hook hsms/export_verif.go only aliases unexported code.",
        "technique": "property-based testing (rapid stateful / model-based) on a step-driven supervisor + scripted-peer histories in testing/synctest",
        "tests": [
            {"name": "TestC05Supervisor", "shards": 8, "shards_thorough": 16},
            {"name": "TestC05Table", "shards": 1},
            {"name": "TestC05KnownF6", "shards": 1},
            {"name": "TestC05Scripts", "shards": 8, "shards_thorough": 16},
        ],
        "require": {"in-window-commit": 2000, "stale-event": 1000, "late-commit": 300, "generation-after-close": 200, "coalesced": 5, "multi-generation": 500, "c05b:coalesced": 100, "c05b:connect-racing-close": 50, "c05b:deselect": 300, "c05b:dwell-expired": 50, "c05b:role:active": 250, "c05b:role:passive": 250},
    },
    "C08": {
        "level": "exploration",
        "claim": "Generated peer frame sequences (all STypes/PTypes, with/without body, arbitrary header bytes, grouped 1-4 per TCP write, both roles, equipment/host, session validation on/off, a second TCP connection) against real connections in a virtual-time bubble; every frame the library sends back is compared field by field with an executable E37 responder model, plus handler deliveries, connection survival and State() at the quiescent end.",
        "trust": "Trusts ref/fsm.Responder (written from the statement) and the in-memory network; shapes E37 leaves open (refusal of the library's own Select after the peer's Select succeeded; responses to a transaction answered in the same TCP write) are not generated.",
        "technique": "property-based testing (rapid) with a model-based oracle over scripted-peer histories in testing/synctest",
        "tests": [
            {"name": "TestC08Responder", "shards": 8, "shards_thorough": 16},
        ],
        "require": {"c08:role:active": 2000, "c08:role:passive": 2000, "c08:select-first": 1000, "c08:select-duplicate": 500, "c08:deselect-selected": 500,
                    "c08:deselect-not-selected": 500, "c08:reject-ptype": 500, "c08:reject-stype": 500, "c08:reject-control-with-body": 500,
                    "c08:orphan-response": 500, "c08:separate-selected": 300, "c08:separate-ignored": 300, "c08:second-connection": 200,
                    "c08:own-select-accepted": 300, "c08:own-select-refused": 50, "c08:data-not-selected": 500, "c08:data-delivered": 300},
    },
    "C09": {
        "level": "fault_enumeration",
        "claim": "Send programs (sync W / no-W, async, reply, forward; unique tokens; concurrent goroutines) on 1-3 consecutive TCP generations of one open connection, each generation ended by a fault drawn from: peer close, reset, reply-then-close in one instant, stalled reader with a full async queue then reset, reset after a drawn byte count (mid-frame), T8 stall, dead linktest, Separate.req, write timeout, Close(); the raw peer records the generation of every frame and replays stale replies on the next generation. Checked: no token crosses generations, no reply completes a send of another generation, pending calls return at the instant the generation ends with the connection-closed error, queued async frames are never flushed later.",
        "trust": "The fault menu above is HSMS-SS; SECS-I generations are covered by TestC09Secs1 (a send in flight while the line dies at a drawn protocol point). While the peer's window is closed the program is restricted to one writing goroutine (testing/synctest cannot advance time while a goroutine waits on the write mutex).",
        "technique": "property-based testing (rapid): generated fault plans x send programs on scripted connections in testing/synctest, generation-window invariant over the wire history",
        "tests": [
            {"name": "TestC09Generations", "shards": 8, "shards_thorough": 16},
            {"name": "TestC09Secs1", "shards": 4, "shards_thorough": 16, "crash_is_violation": True},
        ],
        "require": {"c09:fault:close": 1023, "c09:fault:cut-mid-frame": 428, "c09:fault:linktest-dead": 419, "c09:fault:peer-close": 819, "c09:fault:peer-reset": 798, "c09:fault:reply-then-close": 568, "c09:fault:separate": 412, "c09:fault:stall-queue-reset": 559, "c09:fault:t8-stall": 415, "c09:fault:write-timeout": 489, "c09:gens:1": 1024, "c09:gens:2": 1017, "c09:gens:3": 958, "c09:pending-at-fault": 3988, "c09:role:active": 1484, "c09:role:passive": 1515, "c09:stale-replies-played": 999},
    },
    "C10": {
        "level": "exploration",
        "claim": "Concurrent API programs (Open blocking/background, Close, sends, UpdateConfigOptions valid/invalid, State, Metrics) from 1-5 goroutines at drawn offsets over 1-3 open/close cycles against peers that are absent, cooperative, silent, drop or flap, on HSMS-SS and SECS-I connections in both roles, in real time with small timers; every call is bounded, Close is bounded and idempotent, after Close no goroutine runs library code, every socket/listener handed to the library is closed, no dial/listen follows, State() is NotConnected; a re-Open reaches Selected, a second Open is refused with ErrAlreadyOpen without side effects (also while a reconnect is pending, which must still complete), and a round trip works.",
        "trust": "Real time: bounds are upper bounds with seconds of slack and leak detectors poll for 2 s; handlers return (as the statement assumes).",
        "technique": "property-based testing (rapid): generated concurrent API programs x peer behaviours with leak detectors (goroutine dump, socket registry, dial log)",
        "tests": [
            {"name": "TestC10Lifecycle", "shards": 8, "shards_thorough": 16, "crash_is_violation": True},
        ],
        "require": {"c10:cycles:1": 5, "c10:cycles:2": 8, "c10:cycles:3": 5, "c10:peer:absent": 8, "c10:peer:drop": 4, "c10:peer:flap": 6, "c10:peer:select": 30, "c10:peer:silent": 6, "c10:reopened": 58, "c10:role:active": 9, "c10:role:passive": 20, "c10:transport:hsmsss": 23, "c10:transport:secs1": 8},
    },
    "C11": {
        "level": "fault_enumeration",
        "claim": "Every byte offset in both directions of the connect/select/first-data/linktest exchange is cut, for both roles (enumerated exhaustively), plus generated plans over peer close, T6/T7/T8/write-timeout/linktest stalls, Select.rsp refusals 2..255, 0-8 refused dials or failed listens and drawn backoff configurations; in virtual time every gap between reconnect attempts is compared exactly with the reference backoff sequence (start at initial, never decreasing, <= T5), the link must come back Selected with a working round trip and linktest, the reconnect counter must grow by one per successful re-dial, and nothing may be dialled or listened after Close. The pure backoff step is compared with the reference over (delay, multiplier incl. NaN/Inf, T5) triples.",
        "trust": "HSMS-SS only (SECS-I recovery is exercised by C18's retry-limit cases). Durations up to 2^53 ns in the pure part (float64-exact range). ref/fsm.Backoff is written from the WithReconnectBackoff documentation.",
        "technique": "property-based testing (rapid) + exhaustive fault-position enumeration on scripted connections in testing/synctest; model-based backoff oracle",
        "tests": [
            {"name": "TestC11Backoff", "shards": 4, "shards_thorough": 16},
            {"name": "TestC11Recovery", "shards": 8, "shards_thorough": 16},
            {"name": "TestC11CutEnumeration", "shards": 1},
        ],
        "require": {"backoff": 25000, "backoff:flat": 4871, "backoff:nonfinite": 5405, "backoff:reaches-T5": 4570, "c11:cut-beyond-exchange": 126, "c11:enumerated": 50, "c11:fault:cut-in": 275, "c11:fault:cut-out": 191, "c11:fault:linktest": 81, "c11:fault:peer-close": 73, "c11:fault:select-rejected": 45, "c11:fault:t6": 38, "c11:fault:t7": 46, "c11:fault:t8": 84, "c11:fault:write-timeout": 87, "c11:refusals:0": 339, "c11:refusals:1": 137, "c11:refusals:2": 129, "c11:refusals:3": 317, "c11:role:active": 466, "c11:role:passive": 458},
    },
    "C17": {
        "level": "exploration",
        "claim": "The real message splitter and block parser are compared image by image with an independent E4 reference over generated messages (all header field values, body lengths 0..8 KiB biased to the 243/244/245, 488/489, 732/733 boundaries) and mutated block images; generated inbound block sequences over the statement's alphabet (valid next, duplicate, skipped number, changed header field, wrong device, wrong direction, block 0, T4 gap, interleaved new message) are fed with an injected clock to the REAL assembler and compared with a reference E4 section 9.4 assembler; end to end, a real secs1 connection (host/equipment x active/passive) talks to a reference character-level line peer in virtual time in both directions, incl. NAK-ed retransmissions outbound and corrupt block images inbound, with ACK/NAK per block, exact deliveries, link survival and a final probe.",
        "trust": "Trusts ref/e4 (block layout, Split, the section 9.4 assembler as summarised in the statement, the line peer); hook secs1/export_verif.go only wraps unexported code; virtual time (testing/synctest) for T1/T2/T4.",
        "technique": "property-based testing (rapid): differential vs reference codec and assembler (hook-driven and end to end in testing/synctest)",
        "tests": [
            {"name": "TestC17Blocks", "shards": 4, "shards_thorough": 16},
            {"name": "TestC17Assembler", "shards": 4, "shards_thorough": 16},
            {"name": "TestC17Line", "shards": 8, "shards_thorough": 16},
        ],
        "require": {"c17:blocks:1": 2607, "c17:blocks:2": 747, "c17:blocks:3": 614, "c17:blocks:4": 1031, "c17:parse:extend": 874, "c17:parse:flip": 1179, "c17:parse:length": 900, "c17:parse:none": 1164, "c17:parse:truncate": 880, "c17a:block-0": 758, "c17a:block-0-lone": 769, "c17a:changed-header": 1365, "c17a:duplicate": 1231, "c17a:new-message": 1202, "c17a:next": 4804, "c17a:next-after-T4": 1339, "c17a:skipped-number": 896, "c17a:wrong-device": 1348, "c17a:wrong-direction": 1366, "c17l:in:bad-checksum": 230, "c17l:in:bad-length": 218, "c17l:in:block-0": 132, "c17l:in:block-0-lone": 134, "c17l:in:changed-header": 253, "c17l:in:duplicate": 217, "c17l:in:new-message": 221, "c17l:in:next": 5065, "c17l:in:next-after-T4": 233, "c17l:in:skipped-number": 165, "c17l:in:wrong-device": 259, "c17l:in:wrong-direction": 245, "c17l:inbound": 754, "c17l:out:blocks:1": 748, "c17l:out:blocks:2": 216, "c17l:out:blocks:3": 179, "c17l:out:blocks:4": 297, "c17l:out:forward": 735, "c17l:out:nak-retry": 496, "c17l:out:send": 706, "c17l:outbound": 745, "c17l:role:equipment": 743, "c17l:role:host": 757},
    },
    "C18": {
        "level": "fault_enumeration",
        "claim": "Two real secs1 connections (equipment + host) joined by a character-level middlebox that follows the E4 grammar in both directions and applies generated fault plans (one flipped character in a block's header/body/checksum, truncated or dropped blocks, dropped ENQ/EOT/ACK/NAK, ACK replaced by NAK, EOT/ACK delayed beyond T2) while both sides send multi-block messages concurrently (contention), retry limits 0..3; a token ledger checks that every send that returned success was delivered exactly once and intact, per-direction order, no duplicate or altered delivery whatever the send returned, at most retry-limit+1 line requests per block (per contention yield for the host), bounded completion, and recovery to a working line after a failed send.",
        "trust": "Real time with T1 50 ms / T2 150 ms: only content, order, counts and generous upper bounds are asserted, so scheduling jitter can add retries but not false alarms. The length byte is never corrupted (E4 does not guarantee detection there).",
        "technique": "property-based testing (rapid): generated fault plans x concurrent send programs through an E4-aware fault-injecting proxy; exactly-once ledger oracle",
        "tests": [
            {"name": "TestC18ExactlyOnce", "shards": 8, "shards_thorough": 16, "crash_is_violation": True},
        ],
        "require": {"c18:contention": 88, "c18:fault:ACK:delay": 5, "c18:fault:ACK:drop": 8, "c18:fault:ACK:replace-nak": 5, "c18:fault:ENQ:drop": 14, "c18:fault:EOT:drop": 14, "c18:fault:NAK:drop": 5, "c18:fault:block:drop": 14, "c18:fault:block:flip": 30, "c18:fault:block:truncate": 11, "c18:faults-hit:0": 37, "c18:faults-hit:1": 34, "c18:faults-hit:2": 17, "c18:faults-hit:3": 11, "c18:rty:0": 25, "c18:rty:1": 27, "c18:rty:2": 20, "c18:rty:3": 27, "c18:send-failed": 17},
    },
    "C19": {
        "level": "exploration",
        "claim": "Generated observation histories (probe outcome, receive stamps before/at/after the probe, in-flight counts at evaluation and re-check, thresholds 1-6, suppression on/off) folded through the library's real failure-accounting reducers exactly as the probe loop folds them and compared step by step with a reference model plus windowed history invariants; end to end, seven peer personalities against real connections in virtual time, where the number and instants of probes and the instant of the drop are compared exactly with what the suppression rules prescribe.",
        "trust": "ref/fsm.Linktest is written from docs/guides/linktest-suppression.md; the fold replicates runLinktest's use of the two reducers (hook aliases in hsmsss/export_verif.go); end-to-end timing is exact only because time is virtual.",
        "technique": "property-based testing (rapid): model-based differential on reducer histories + scripted peer personalities in testing/synctest",
        "tests": [
            {"name": "TestC19Reducers", "shards": 8, "shards_thorough": 16},
            {"name": "TestC19Linktest", "shards": 8, "shards_thorough": 16},
        ],
        "require": {"c19b:alive-after-probe": 53, "c19b:answers": 62, "c19b:answers-then-silent": 55, "c19b:inbound-chatty": 45, "c19b:outbound-chatty": 42, "c19b:reply-outstanding": 39, "c19b:role:active": 184, "c19b:role:passive": 191, "c19b:silent": 77, "c19b:suppress:false": 188, "c19b:suppress:true": 187, "c19b:threshold:1": 100, "c19b:threshold:2": 101, "c19b:threshold:3": 83, "c19b:threshold:4": 91, "credited": 9119, "restart": 10356, "suppress:false": 12484, "suppress:true": 12515, "threshold:1": 5227, "threshold:2": 5148, "threshold:3": 3785, "threshold:4": 3787, "threshold:5": 3226, "threshold:6": 3824},
    },
    "C20": {
        "level": "exploration",
        "claim": "Histories of 2-8 phases on one connection (bursts of concurrent reply-expected sends ending in reply / reject / T3 / cancel / late reply, fire-and-forget sends of every kind, inbound traffic, refused sends while deselected, sends racing a deselect or a drop, drops with pending senders and refused re-dials, write timeouts, close/reopen, cold open) with a quiescent point after every phase, where every counter and gauge is compared with a ledger kept by the raw peers (data frames actually received / sent while Selected) and by the harness (outcome of every call); gauges are also sampled for negativity at every call return and peer frame.",
        "trust": "HSMS-SS only. Quiescence is synctest.Wait in virtual time. The reconnecting gauge is sampled while the harness refuses dials, not continuously.",
        "technique": "property-based testing (rapid): generated histories in testing/synctest against a conservation ledger",
        "tests": [
            {"name": "TestC20Metrics", "shards": 8, "shards_thorough": 16},
        ],
        "require": {"c20:cold-open": 502, "c20:outcome:cancel": 777, "c20:outcome:disconnect": 597, "c20:outcome:ok": 1592, "c20:outcome:refused": 1326, "c20:outcome:reject": 869, "c20:outcome:t3": 1220, "c20:outcome:write-error": 549, "c20:role:active": 995, "c20:role:passive": 1004},
    },
    "C12": {
        "level": "exploration",
        "claim": "Items and messages of every provenance (constructed from retained caller slices incl. typed slices and a retained []Item, Decode / DecodeHSMSMessage / DecodeHSMSPayload of a caller buffer, re-stamped and derived copies) are snapshotted over every public accessor, serializer, iterator and the SML text by 8 goroutines at once (first use of all lazy paths) and again after the caller scribbles over every retained input and every slice any accessor, serializer or append helper returned (incl. spare capacity); all snapshots must be equal, the race detector must stay silent, Item() must hand one instance to every holder and copy, and a counting Item wrapper must be serialized at most once per message.",
        "trust": "Binary built with -race (a report fails the run); DecodeOwned / DecodeOwnedHSMSPayload transfer ownership and are deliberately not scribbled (documented contract).",
        "technique": "property-based testing (rapid) under the race detector: observation-snapshot metamorphic check over caller-side mutations",
        "tests": [
            {"name": "TestC12Immutable", "shards": 8, "shards_thorough": 16, "race": True, "crash_is_violation": True},
        ],
        "require": {"c12:constructed": 176, "c12:counted:false": 120, "c12:counted:true": 136, "c12:decoded": 81},
    },
    "C13": {
        "level": "exploration",
        "claim": 'Generated messages over the stated item grammar x all encoder options round-tripped through the strict encoder and strict parser; parser-accepted texts produced by a grammar-directed text generator re-encoded and re-parsed.',
        "trust": 'Trusts secs2.Equal-independent comparison through harness/ref/e5 values read back by obs.',
        "technique": 'property-based testing (rapid): round trip both directions',
        "tests": [
            {"name": "TestC13EncodeParse", "shards": 8, "shards_thorough": 16},
            {"name": "TestC13ParseEncode", "shards": 8, "shards_thorough": 16},
        ],
        "require": {"ascii-special": 200, "ascii-gt": 50, "float-extreme": 100, "accepted": 1000, "loose": 500, "multi": 200},
    },
    "C15": {
        "level": "exploration",
        "claim": 'Generated item trees (all types, EmptyItem children, extreme numerics) rendered by both renderers and compared byte for byte; numeric/boolean/binary leaves read back by the library parser and compared with the reference values.',
        "trust": "The differential is between the library's two renderers (that agreement IS the property); read-back trusts harness/ref/e5 values.",
        "technique": 'property-based testing (rapid): differential between renderers + parse read-back',
        "tests": [{"name": "TestC15Renderers", "shards": 8, "shards_thorough": 16}],
        "require": {"empty-child": 100, "extreme-numeric": 100, "readback": 500},
    },
    "C16": {
        "level": "exploration",
        "claim": "Generated constructor argument lists over all Go scalar/slice/string/other types, all byte sizes and values at/beyond each width's bounds, compared with a table-driven model of the documented clamp/refuse contract; errored items (direct and nested) checked against Equal, message constructors and builders.",
        "trust": 'Trusts the contract model in props/c16_test.go (written from the constructor docs).',
        "technique": 'property-based testing (rapid): model-based oracle',
        "tests": [{"name": "TestC16Constructors", "shards": 4, "shards_thorough": 16}],
        "require": {"c16:clamped": 500, "c16:refused": 1000, "c16:value": 1000},
    },
    "C14": {
        "level": "exploration",
        "claim": 'Grammar-directed mutations of valid SML and random strings through every parse entry point in both modes (no panic, valid-or-error, independently recomputed error positions); parametric resource shapes (nesting to 4M, 2^31-1 size hints, long tokens) parsed in a child process under an address-space limit; concurrent parser/encoder pairs under the race detector.',
        "trust": 'Crash containment relies on the child-process exit status; time bound is a generous budget (30 s for <= 1 MiB).',
        "technique": 'property-based testing (rapid) + resource-shape families in a sandboxed child + native go fuzzing (thorough)',
        "tests": [
            {"name": "TestC14Total", "shards": 8, "shards_thorough": 16, "crash_is_violation": True},
            {"name": "TestC14Resources", "shards": 1, "crash_is_violation": True},
            {"name": "TestC14Concurrent", "shards": 4, "shards_thorough": 8, "race": True, "crash_is_violation": True},
            {"name": "FuzzC14SML", "shards": 1, "fuzz": True, "tier": "thorough", "fuzztime": "180s", "crash_is_violation": True},
        ],
        "require": {"c14:some-rejected": 2000, "c14:all-accepted": 500, "shape:hint": 50, "shape:nest": 9, "c14conc": 100},
    },
}

# property id -> reason, for properties that are not claimed (kept current)
NOT_APPLICABLE = {}

# commits in /repo that add the build-tag-guarded hooks
HOOK_COMMITS = ["a962bf2", "d5ef0b2", "786be1f", "8e3f6d1"]
