"""Which Go tests decide which property. One process per (test, shard)."""

REGISTRY = {
    "C01": {
        "level": "exploration",
        "claim": 'Generated item trees over every format code, boundary counts, nesting to 64 and every constructor shape, compared byte-for-byte with an independent SEMI E5 reference encoder and round-tripped through Decode with all accessor families. Constructor arguments include nil children that carry the argument count across the 255/256 length-field boundary; AppendTo is given spare capacity holding stale non-zero bytes.',
        "trust": "Trusts the reference codec harness/ref/e5 (written from the standard) and Go's float32 conversion.",
        "technique": 'property-based testing (rapid): differential vs reference encoder + round trip',
        "tests": [
            {"name": "TestC01Encode", "shards": 8, "shards_thorough": 16},
        ],
        "require": {"c01": 4000, "ctor:bin-byte": 285, "ctor:bin-int": 283, "ctor:bin-slice": 792, "ctor:bin-string": 271, "ctor:bool-scalar": 419, "ctor:bool-slice": 781, "ctor:float-f4-unrounded": 183, "ctor:float-scalar-float32": 152, "ctor:float-scalar-float64": 199, "ctor:float-scalar-int": 44, "ctor:float-scalar-int64": 47, "ctor:float-scalar-string": 193, "ctor:float-scalar-uint": 39, "ctor:float-slice-float32": 289, "ctor:float-slice-float64": 386, "ctor:float-slice-string": 327, "ctor:int-scalar-int": 284, "ctor:int-scalar-int16": 256, "ctor:int-scalar-int32": 275, "ctor:int-scalar-int64": 300, "ctor:int-scalar-int8": 211, "ctor:int-scalar-string": 282, "ctor:int-scalar-uint": 185, "ctor:int-scalar-uint16": 114, "ctor:int-scalar-uint32": 130, "ctor:int-scalar-uint64": 164, "ctor:int-scalar-uint8": 89, "ctor:int-slice-int": 402, "ctor:int-slice-int16": 414, "ctor:int-slice-int32": 388, "ctor:int-slice-int64": 444, "ctor:int-slice-int8": 360, "ctor:int-slice-string": 389, "ctor:int-slice-uint": 243, "ctor:int-slice-uint16": 190, "ctor:int-slice-uint32": 178, "ctor:int-slice-uint64": 190, "ctor:int-slice-uint8": 178, "ctor:list-nil-across-256": 45, "ctor:list-nil-skipped": 732, "ctor:uint-scalar-int": 235, "ctor:uint-scalar-int16": 171, "ctor:uint-scalar-int32": 179, "ctor:uint-scalar-int64": 212, "ctor:uint-scalar-int8": 143, "ctor:uint-scalar-string": 249, "ctor:uint-scalar-uint": 254, "ctor:uint-scalar-uint16": 250, "ctor:uint-scalar-uint32": 254, "ctor:uint-scalar-uint64": 271, "ctor:uint-scalar-uint8": 223, "ctor:uint-slice-int": 317, "ctor:uint-slice-int16": 221, "ctor:uint-slice-int32": 230, "ctor:uint-slice-int64": 264, "ctor:uint-slice-int8": 184, "ctor:uint-slice-string": 319, "ctor:uint-slice-uint": 334, "ctor:uint-slice-uint16": 381, "ctor:uint-slice-uint32": 360, "ctor:uint-slice-uint64": 402, "ctor:uint-slice-uint8": 344, "depth:0": 2506, "depth:1-2": 984, "depth:3-8": 395, "depth:64": 5, "depth:9-62": 64, "fc:ascii:0": 414, "fc:ascii:1": 243, "fc:ascii:2": 160, "fc:ascii:>2": 232, "fc:binary:0": 617, "fc:binary:1": 343, "fc:binary:2": 234, "fc:binary:>2": 362, "fc:boolean:0": 588, "fc:boolean:1": 355, "fc:boolean:2": 204, "fc:boolean:>2": 333, "fc:f4:0": 269, "fc:f4:1": 154, "fc:f4:2": 92, "fc:f4:>2": 126, "fc:f8:0": 272, "fc:f8:1": 154, "fc:f8:2": 91, "fc:f8:>2": 134, "fc:i1:0": 326, "fc:i1:1": 191, "fc:i1:2": 108, "fc:i1:>2": 158, "fc:i2:0": 318, "fc:i2:1": 193, "fc:i2:2": 110, "fc:i2:>2": 149, "fc:i4:0": 273, "fc:i4:1": 159, "fc:i4:2": 94, "fc:i4:>2": 130, "fc:i8:0": 313, "fc:i8:1": 187, "fc:i8:2": 113, "fc:i8:>2": 154, "fc:jis8:0": 435, "fc:jis8:1": 246, "fc:jis8:2": 154, "fc:jis8:>2": 235, "fc:list:0": 531, "fc:list:1": 578, "fc:list:2": 579, "fc:list:>2": 1058, "fc:localized_str:2": 336, "fc:localized_str:>2": 390, "fc:u1:0": 266, "fc:u1:1": 158, "fc:u1:2": 95, "fc:u1:>2": 129, "fc:u2:0": 268, "fc:u2:1": 155, "fc:u2:2": 93, "fc:u2:>2": 127, "fc:u4:0": 382, "fc:u4:1": 227, "fc:u4:2": 136, "fc:u4:>2": 196, "fc:u8:0": 271, "fc:u8:1": 163, "fc:u8:2": 94, "fc:u8:>2": 129, "lenbytes:1": 3809, "lenbytes:2": 536, "lenbytes:3": 95, "slab:22-85": 54, "slab:6-21": 177, "slab:86-213": 54, "slab:>213": 69},
    },
    "C02": {
        "level": "exploration",
        "claim": 'Structured mutations of valid encodings (byte flips, truncations, length rewrites, non-canonical headers, depth 63/64/65) and hostile constants decoded by both entry points; accept/reject and value compared with an independent E5 reference decoder, re-encoding compared with the consumed prefix, allocation metered against a linear bound; coverage-guided native fuzzing in the thorough tier. Items of earlier inputs, kept by the caller (ring of 24), are re-read after every later accepted or rejected input; an enumerated family of 1-65 nested lists each claiming as many children as the remaining bytes allow (64 B - 65 kB).',
        "trust": 'Trusts harness/ref/e5.Decode as the grammar; the allocation bound (128x input + 256 KiB) is a calibrated constant.',
        "technique": 'property-based testing (rapid) + native go fuzzing: differential vs reference decoder, allocation meter',
        "tests": [
            {"name": "TestC02Decode", "shards": 8, "shards_thorough": 16},
            {"name": "TestC02Hostile", "shards": 1},
            {"name": "FuzzC02Decode", "shards": 1, "fuzz": True, "tier": "thorough", "fuzztime": "180s"},
        ],
        "require": {"accepted": 4951, "hostile:accepted": 123, "hostile:rejected": 4177, "hostile:variant0": 1433, "hostile:variant1": 1433, "hostile:variant2": 1433, "mut:byteflip": 1402, "mut:byteflip:accepted": 504, "mut:byteflip:rejected": 892, "mut:formatbyte": 831, "mut:formatbyte:accepted": 62, "mut:formatbyte:rejected": 769, "mut:hostile": 468, "mut:hostile:rejected": 449, "mut:lenbytecount": 593, "mut:lenbytecount:accepted": 158, "mut:lenbytecount:rejected": 435, "mut:lengthfield": 1176, "mut:lengthfield:accepted": 476, "mut:lengthfield:rejected": 700, "mut:nestedlists": 475, "mut:nestedlists:rejected": 475, "mut:noncanonical": 596, "mut:noncanonical:accepted": 596, "mut:random": 473, "mut:random:accepted": 58, "mut:random:rejected": 410, "mut:splice": 740, "mut:splice:accepted": 740, "mut:trailing": 474, "mut:trailing:accepted": 474, "mut:truncate": 837, "mut:truncate:accepted": 197, "mut:truncate:rejected": 630, "mut:valid": 1377, "mut:valid:accepted": 1377, "mut:wrapdepth": 462, "mut:wrapdepth:accepted": 256, "mut:wrapdepth:rejected": 206, "rejected": 4998},
    },
    "C03": {
        "level": "exploration",
        "claim": "Generated (stream, function, W, session, system bytes, body) tuples through every constructor, re-stamp and derive path plus all nine control factories with every status/reason byte, compared byte for byte with independent E37/E5 reference encoders and round-tripped through the three decode entry points; on a real Selected connection (both roles) the bytes a raw peer reads for every send entry point are compared with the message's serialization. Also: frames forwarded after re-stamping from built / wire-decoded sources, 2-5 re-stamped copies forwarded concurrently, concurrent first serialization under the race detector, every message length from 2^24-1-8 to 2^24-1+12 built and decoded, and messages with undecodable bodies through 0-3 derivation steps (self-consistency of frame, body and reported item).",
        "trust": "Trusts ref/e37 and ref/e5 (written from the standards) and the in-memory network handed to WithDialer/WithListener.",
        "technique": "property-based testing (rapid): differential vs reference encoders, round trip, wire == ToBytes on scripted connections in testing/synctest",
        "tests": [
            {"name": "TestC03UndecodableBody", "shards": 2, "shards_thorough": 8},
            {"name": "TestC03Frames", "shards": 8, "shards_thorough": 16},
            {"name": "TestC03Wire", "shards": 4, "shards_thorough": 16},
            {"name": "TestC03Concurrent", "shards": 4, "shards_thorough": 16, "race": True, "crash_is_violation": True},
            {"name": "TestC03SizeCap", "shards": 1, "crash_is_violation": True},
        ],
        "require": {"c03:concurrent:goroutines>=4:false": 119, "c03:concurrent:goroutines>=4:true": 179, "c03:control:0": 210, "c03:control:1": 219, "c03:control:2": 141, "c03:control:3": 133, "c03:control:4": 111, "c03:control:5": 102, "c03:control:6": 111, "c03:control:7": 104, "c03:control:8": 93, "c03:control:9": 122, "c03:data": 2159, "c03:rejected": 2422, "c03:restamps:1": 600, "c03:restamps:2": 574, "c03:restamps:3": 464, "c03:restamps:4": 512, "c03:undecodable": 800, "c03:wire-entry:Forward/built": 510, "c03:wire-entry:Forward/decoded": 185, "c03:wire-entry:Forward/decoded-restamped": 187, "c03:wire-entry:Forward/restamped": 195, "c03:wire-entry:ForwardAsync/built": 489, "c03:wire-entry:ForwardAsync/decoded": 187, "c03:wire-entry:ForwardAsync/decoded-restamped": 184, "c03:wire-entry:ForwardAsync/restamped": 197, "c03:wire-entry:Reply": 773, "c03:wire-entry:Send": 770, "c03:wire-entry:SendAsync": 798, "c03:wire-entry:SendSECS2": 665, "c03:wire:Forward": 1061, "c03:wire:ForwardAsync": 1060, "c03:wire:Reply": 773, "c03:wire:Send": 770, "c03:wire:SendAsync": 798, "c03:wire:SendSECS2": 665, "c03:wire:active": 2566, "c03:wire:fanout": 803, "c03:wire:passive": 2588},
    },
    "C04": {
        "level": "exploration",
        "claim": "Mutated and random byte strings through the three frame-decode entry points against an independent well-formedness predicate (incl. same body error for every holder, copy and goroutine); generated frame streams under arbitrary segmentation and inter-segment delay classes fed by a raw peer to real connections in virtual time: segmentation invariance against the responder model, idle gaps survive, a stall inside a frame drops the link exactly T8 after its last byte, an out-of-range length drops it at once without allocating the claimed size; native fuzzing of the decode entry points in the thorough tier. Also: every message length from 2^24-1-8 to 2^24-1+12 through the three decode entry points, and frames of cap-1 .. cap+2 bytes written to a Selected connection in both roles.",
        "trust": "Trusts ref/e37.ParseWhole and ref/fsm.Responder; virtual time (testing/synctest) makes T8 exact; the allocation meter is process-wide TotalAlloc with a 4 MiB threshold against >= 16 MiB claimed.",
        "technique": "property-based testing (rapid): acceptance-predicate differential + metamorphic segmentation invariance on scripted connections in testing/synctest; native go fuzzing (thorough)",
        "tests": [
            {"name": "TestC04WireCap", "shards": 1, "crash_is_violation": True},
            {"name": "TestC03SizeCap", "shards": 1, "crash_is_violation": True},
            {"name": "TestC04Decode", "shards": 8, "shards_thorough": 16},
            {"name": "TestC04Stream", "shards": 8, "shards_thorough": 16},
            {"name": "FuzzC04Frame", "shards": 1, "fuzz": True, "tier": "thorough", "fuzztime": "120s"},
        ],
        "require": {"c04:accepted": 1319, "c04:accepted-bad-body": 429, "c04:mut:extend": 566, "c04:mut:flip": 566, "c04:mut:len": 1045, "c04:mut:none": 1071, "c04:mut:ptype": 710, "c04:mut:random": 721, "c04:mut:stype": 722, "c04:mut:truncate": 562, "c04:rejected": 4231, "c04s:bad-length-huge": 308, "c04s:bad-length-small": 248, "c04s:boundaries": 763, "c04s:delay:idle-long": 390, "c04s:delay:none": 2909, "c04s:delay:short": 1929, "c04s:delay:stall": 1095, "c04s:drip-head": 688, "c04s:few": 853, "c04s:many": 873, "c04s:role:active": 1586, "c04s:role:passive": 1597},
    },
    "C06": {
        "level": "exploration",
        "claim": "1-12 concurrent reply-expected sends against a raw peer whose reply-side behaviour is a generated policy per transaction (permuted/delayed/duplicate/missing/late replies, rejects with every reason, SxF0 aborts, peer primaries and control responses reusing in-flight system bytes, unsolicited secondaries, link drops, caller deadlines/cancels); in virtual time every call has a single predicted outcome and instant, checked together with reply identity, T3 lower bound, never (nil,nil), a delivery ledger (each inbound data frame reaches exactly one recipient, handlers in arrival order) and pairwise distinct system bytes. Also: replies and duplicates timed to coincide exactly with T3 / the caller's deadline (the racing call may end either way; later rounds must get their own replies), and T3 expiring while the fire-and-forget queue is full followed by overlapping waits with exact reply / T3 instants.",
        "trust": "Delays are drawn from a lattice on which no two causes coincide (inherent ties are not generated); the Go scheduler inside the library is sampled; peer data secondaries that reuse a library CONTROL transaction's system bytes are not generated (the statement leaves them open).",
        "technique": "property-based testing (rapid): concurrent histories in testing/synctest against a routing model + per-call ledger",
        "tests": [
            {"name": "TestC06Replies", "shards": 8, "shards_thorough": 16},
            {"name": "TestC06Coincidences", "shards": 8, "shards_thorough": 16, "crash_is_violation": True},
            {"name": "TestC06QueueFullT3", "shards": 4, "shards_thorough": 16, "crash_is_violation": True},
        ],
        "require": {"c06:drop:early": 107, "c06:drop:mid": 115, "c06:drop:none": 564, "c06:outcome:closed": 71, "c06:outcome:ctx": 156, "c06:outcome:reject": 230, "c06:outcome:reply": 745, "c06:outcome:t3": 129, "c06:policy:abort": 160, "c06:policy:collide-control": 330, "c06:policy:collide-primary": 165, "c06:policy:dup": 234, "c06:policy:dup-late": 183, "c06:policy:late": 187, "c06:policy:none": 187, "c06:policy:reject": 188, "c06:policy:reply": 567, "c06:policy:unsolicited": 154, "c06:slow-write": 150, "c06:sysbytes-near-wrap": 210, "c06c:role:active": 794, "c06c:role:passive": 805, "c06q:role:equipment": 220, "c06q:role:host": 79},
    },
    "C07": {
        "level": "exploration",
        "claim": "Real connections (both roles) driven into each way of being not-selected (never opened, closed, connecting, connected-not-selected, deselected, between reconnect generations, select rejected); every data-sending entry point is checked for error identity, exactly one counted drop and zero data bytes at the raw peer; inbound data while not selected must be answered by Reject reason 4 echoing session id and system bytes with no handler call and the link up; data pipelined behind the establishing Select under drawn segmentations must be delivered in order. Also: Select+Deselect in one write as a way of being not selected, and (real time) data written by the peer while Close is stuck in its farewell write.",
        "trust": "Trusts the in-memory network and virtual-time quiescence (synctest.Wait) as the point at which 'nothing was written' is decided.",
        "technique": "property-based testing (rapid) over scripted connection histories in testing/synctest with byte-level peer observation",
        "tests": [
            {"name": "TestC07Gate", "shards": 8, "shards_thorough": 16},
            {"name": "TestC07ClosingStuck", "shards": 4, "shards_thorough": 8, "crash_is_violation": True},
        ],
        "require": {"c07:between-generations": 398, "c07:closed": 760, "c07:connected-not-selected": 1024, "c07:connecting": 262, "c07:deselected": 412, "c07:deselected-pipelined": 527, "c07:never-opened": 780, "c07:pipeline:cuts": 437, "c07:pipeline:cuts-settle": 379, "c07:pipeline:drip": 353, "c07:pipeline:one-write": 435, "c07:role:active": 2991, "c07:role:passive": 2983, "c07:select-rejected": 214},
    },
    "C05": {
        "level": "exploration",
        "claim": "Rapid state machine over the real supervisor with the schedule owned by the harness (commits placed inside the supervisor's load->store window, stale T7 / stale generation events, commits after Close, undrained notifications) checked after every action against a reference E37 model plus the notification chain / no-self / final-state invariants; end-to-end peer scripts (pipelined Select+Deselect, T7, separate, drops, connect racing Close) on real connections inside a virtual-time bubble with State() read at synchronisation points. Scripts include dwell steps of T7/4 and T7/2, a composite step that separates every T7 arming instant of a generation, orphan control responses, and a write of a dead generation that reports its failure only after the next generation is selected.",
        "trust": "Assumption A1 (generations are separated in real time); the Go scheduler inside the library is sampled, not enumerated; hook hsms/export_verif.go only aliases unexported code.",
        "technique": "property-based testing (rapid stateful / model-based) on a step-driven supervisor + scripted-peer histories in testing/synctest",
        "tests": [
            {"name": "TestC05Supervisor", "shards": 8, "shards_thorough": 16},
            {"name": "TestC05Table", "shards": 1},
            {"name": "TestC05KnownF6", "shards": 1},
            {"name": "TestC05Scripts", "shards": 8, "shards_thorough": 16},
        ],
        "require": {"c05b:coalesced": 141, "c05b:connect-racing-close": 121, "c05b:deselect": 508, "c05b:dwell-expired": 49, "c05b:role:active": 400, "c05b:role:passive": 398, "close": 2940, "coalesced": 1061, "generation-after-close": 2209, "in-window-commit": 2569, "late-commit": 2385, "multi-generation": 1240, "stale-event": 2872},
    },
    "C08": {
        "level": "exploration",
        "claim": "Generated peer frame sequences (all STypes/PTypes, with/without body, arbitrary header bytes, grouped 1-4 per TCP write, both roles, equipment/host, session validation on/off, a second TCP connection) against real connections in a virtual-time bubble; every frame the library sends back is compared field by field with an executable E37 responder model, plus handler deliveries, connection survival and State() at the quiescent end. Groups may carry 1-3 frames pipelined behind a Separate.req in the same write (nothing answered, nothing delivered).",
        "trust": "Trusts ref/fsm.Responder (written from the statement) and the in-memory network; shapes E37 leaves open (refusal of the library's own Select after the peer's Select succeeded; responses to a transaction answered in the same TCP write) are not generated.",
        "technique": "property-based testing (rapid) with a model-based oracle over scripted-peer histories in testing/synctest",
        "tests": [
            {"name": "TestC08Responder", "shards": 8, "shards_thorough": 16},
        ],
        "require": {"c08:data-delivered": 1088, "c08:data-not-selected": 1593, "c08:data-session-mismatch": 568, "c08:deselect-not-selected": 1681, "c08:deselect-selected": 1794, "c08:late-response-after-timeout": 273, "c08:linktest": 1332, "c08:orphan-reject-ignored": 1091, "c08:orphan-response": 1762, "c08:own-select-accepted": 642, "c08:own-select-already-active": 192, "c08:own-select-refused": 97, "c08:own-select-rejected": 330, "c08:pipelined-behind-the-end": 476, "c08:reject-control-with-body": 1707, "c08:reject-ptype": 2050, "c08:reject-stype": 1818, "c08:responses-cut-by-disconnect": 459, "c08:role:active": 1983, "c08:role:passive": 1999, "c08:second-connection": 966, "c08:select-duplicate": 2022, "c08:select-first": 3075, "c08:separate-ignored": 741, "c08:separate-selected": 936},
    },
    "C09": {
        "level": "fault_enumeration",
        "claim": "Send programs (sync W / no-W, async, reply, forward; unique tokens; concurrent goroutines) on 1-3 consecutive TCP generations of one open connection, each generation ended by a fault drawn from: peer close, reset, reply-then-close in one instant, stalled reader with a full async queue then reset, reset after a drawn byte count (mid-frame), T8 stall, dead linktest, Separate.req, write timeout, Close(); the raw peer records the generation of every frame and replays stale replies on the next generation. Checked: no token crosses generations, no reply completes a send of another generation, pending calls return at the instant the generation ends with the connection-closed error, queued async frames are never flushed later. Also: (real time) a generation ended by Close / peer close / peer reset while one write is stalled and 0-3 senders queue behind it; a connection accepted (passive) or a re-dial returned (active) only after Close, with the old peer talking into 0-2 later generations; Close at the instant a reconnect attempt is due (real-time phase jitter); generation end while the data handler is busy.",
        "trust": "The fault menu above is HSMS-SS; SECS-I generations are covered by TestC09Secs1 (a send in flight while the line dies at a drawn protocol point). While the peer's window is closed the program is restricted to one writing goroutine (testing/synctest cannot advance time while a goroutine waits on the write mutex).",
        "technique": "property-based testing (rapid): generated fault plans x send programs on scripted connections in testing/synctest, generation-window invariant over the wire history",
        "tests": [
            {"name": "TestC09BusyHandlerEnd", "shards": 2, "shards_thorough": 8, "crash_is_violation": True},
            {"name": "TestC09CloseAtRetry", "shards": 8, "shards_thorough": 16, "crash_is_violation": True},
            {"name": "TestC09StalledWriteEnd", "shards": 4, "shards_thorough": 8, "crash_is_violation": True},
            {"name": "TestC09LateAccept", "shards": 2, "shards_thorough": 8, "crash_is_violation": True},
            {"name": "TestC09Generations", "shards": 8, "shards_thorough": 16},
            {"name": "TestC09Secs1", "shards": 4, "shards_thorough": 16, "crash_is_violation": True},
        ],
        "require": {"c09:fault:close": 825, "c09:fault:cut-mid-frame": 296, "c09:fault:linktest-dead": 300, "c09:fault:peer-close": 630, "c09:fault:peer-reset": 616, "c09:fault:reply-then-close": 798, "c09:fault:separate": 264, "c09:fault:stall-queue-reset": 300, "c09:fault:t8-stall": 300, "c09:fault:write-timeout": 366, "c09:gens:1": 811, "c09:gens:2": 813, "c09:gens:3": 753, "c09:pending-at-fault": 3189, "c09:role:active": 1187, "c09:role:passive": 1201, "c09:stale-replies-played": 850, "c09h:end:peer-close": 42, "c09r:offset:-1ms": 850, "c09r:offset:0s": 3121, "c09r:offset:1ms": 829, "c09r:role:active": 2388, "c09r:role:passive": 2412, "c09s1:gens:1": 272, "c09s1:gens:2": 268, "c09s1:gens:3": 245, "c09s1:role:equipment": 393, "c09s1:role:host": 404},
    },
    "C10": {
        "level": "exploration",
        "claim": "Concurrent API programs (Open blocking/background, Close, sends, UpdateConfigOptions valid/invalid, State, Metrics) from 1-5 goroutines at drawn offsets over 1-3 open/close cycles against peers that are absent, cooperative, silent, drop or flap, on HSMS-SS and SECS-I connections in both roles, in real time with small timers; every call is bounded, Close is bounded and idempotent, after Close no goroutine runs library code, every socket/listener handed to the library is closed, no dial/listen follows, State() is NotConnected; a re-Open reaches Selected, a second Open is refused with ErrAlreadyOpen without side effects (also while a reconnect is pending, which must still complete), and a round trip works. In virtual time: Close against a peer that stopped reading (window 0-13 bytes, optionally one sender blocked in its write, write timeout default 30 s / 5 s / 300 ms) returns within close timeout + the 500 ms farewell bound, exactly. Also (virtual time): Close at the instant a reconnect attempt is due; late accept / late dial; SECS-I: 2-4 line generations (Close + re-Open or peer drop) on each of which a restarted peer repeats its first primary, re-sends an unfinished message from its first block or sends a stale continuation block. Dial/listen seams return 0-40 ms late; leak checks run with the peer still up.",
        "trust": "Real time: bounds are upper bounds with seconds of slack and leak detectors poll for 2 s; handlers return (as the statement assumes).",
        "technique": "property-based testing (rapid): generated concurrent API programs x peer behaviours with leak detectors (goroutine dump, socket registry, dial log)",
        "tests": [
            {"name": "TestC09CloseAtRetry", "shards": 8, "shards_thorough": 16, "crash_is_violation": True},
            {"name": "TestC09LateAccept", "shards": 2, "shards_thorough": 8, "crash_is_violation": True},
            {"name": "TestC10Lifecycle", "shards": 8, "shards_thorough": 8, "crash_is_violation": True},
            {"name": "TestC10StuckPeer", "shards": 4, "shards_thorough": 16, "crash_is_violation": True},
            {"name": "TestC10Secs1Fresh", "shards": 4, "shards_thorough": 16, "crash_is_violation": True},
        ],
        "require": {"c09r:offset:-1ms": 850, "c09r:offset:0s": 3121, "c09r:offset:1ms": 829, "c09r:role:active": 2388, "c09r:role:passive": 2412, "c10:reopened": 45, "c10b:selected": 59, "c10b:wt:5s": 43, "c10c:role:equipment": 148, "c10c:role:host": 151},
    },
    "C11": {
        "level": "fault_enumeration",
        "claim": "Every byte offset in both directions of the connect/select/first-data/linktest exchange is cut, for both roles (enumerated exhaustively), plus generated plans over peer close, T6/T7/T8/write-timeout/linktest stalls, Select.rsp refusals 2..255, 0-8 refused dials or failed listens and drawn backoff configurations; in virtual time every gap between reconnect attempts is compared exactly with the reference backoff sequence (start at initial, never decreasing, <= T5), the link must come back Selected with a working round trip and linktest, the reconnect counter must grow by one per successful re-dial, and nothing may be dialled or listened after Close. The pure backoff step is compared with the reference over (delay, multiplier incl. NaN/Inf, T5) triples. Also: refused dials before the very first connection (cold start), T5 changed at runtime in the middle of an outage, a follow-up in which the recovered session's peer falls silent and the linktest must drop it, and the SECS-I transport (line lost by peer close / reset / after ENQ / retry limit exhausted / unacknowledged block) with the same exact backoff oracle from the instant the library closed its end.",
        "trust": "Byte-offset enumeration on HSMS-SS; SECS-I recovery by fault kinds (TestC11Secs1: peer close/reset, line lost after ENQ, retry limit exhausted, unacknowledged block) with the same exact backoff oracle. Durations up to 2^53 ns in the pure part (float64-exact range). ref/fsm.Backoff is written from the WithReconnectBackoff documentation.",
        "technique": "property-based testing (rapid) + exhaustive fault-position enumeration on scripted connections in testing/synctest; model-based backoff oracle",
        "tests": [
            {"name": "TestC11Secs1", "shards": 4, "shards_thorough": 16, "crash_is_violation": True},
            {"name": "TestC11Backoff", "shards": 4, "shards_thorough": 16},
            {"name": "TestC11Recovery", "shards": 8, "shards_thorough": 16},
            {"name": "TestC11CutEnumeration", "shards": 1},
        ],
        "require": {"backoff": 20000, "backoff:flat": 3897, "backoff:nonfinite": 4308, "backoff:reaches-T5": 3656, "c11:cold-start": 217, "c11:cut-beyond-exchange": 100, "c11:enumerated": 40, "c11:fault:cut-in": 220, "c11:fault:cut-out": 149, "c11:fault:linktest": 64, "c11:fault:peer-close": 59, "c11:fault:t7": 37, "c11:fault:t8": 59, "c11:fault:write-timeout": 63, "c11:redundant-open": 283, "c11:refusals:0": 271, "c11:refusals:1": 102, "c11:refusals:2": 103, "c11:refusals:3": 253, "c11:role:active": 371, "c11:role:passive": 366, "c11:t5-changed-at-runtime": 90, "c11:then-dead": 52, "c11s:cold-start": 136, "c11s:fault:no-ack": 108, "c11s:fault:peer-close-after-enq": 114, "c11s:fault:peer-close-idle": 140, "c11s:fault:peer-reset-idle": 133, "c11s:fault:retry-exhausted": 103, "c11s:refusals:0": 247, "c11s:refusals:1": 90, "c11s:refusals:2": 93, "c11s:refusals:3": 168, "c11s:role:active": 298, "c11s:role:passive": 301},
    },
    "C17": {
        "level": "exploration",
        "claim": "The real message splitter and block parser are compared image by image with an independent E4 reference over generated messages (all header field values, body lengths 0..8 KiB biased to the 243/244/245, 488/489, 732/733 boundaries) and mutated block images; generated inbound block sequences over the statement's alphabet (valid next, duplicate, skipped number, changed header field, wrong device, wrong direction, block 0, T4 gap, interleaved new message) are fed with an injected clock to the REAL assembler and compared with a reference E4 section 9.4 assembler; end to end, a real secs1 connection (host/equipment x active/passive) talks to a reference character-level line peer in virtual time in both directions, incl. NAK-ed retransmissions outbound and corrupt block images inbound, with ACK/NAK per block, exact deliveries, link survival and a final probe. Also on the real line: T4 changed at runtime, a length character lowered so that ENQ and a ghost block image are left over, inbound blocks taken inside the host's yielded send (duplex), and 2-4 line generations with a restarted peer (freshness).",
        "trust": "Trusts ref/e4 (block layout, Split, the section 9.4 assembler as summarised in the statement, the line peer); hook secs1/export_verif.go only wraps unexported code; virtual time (testing/synctest) for T1/T2/T4.",
        "technique": "property-based testing (rapid): differential vs reference codec and assembler (hook-driven and end to end in testing/synctest)",
        "tests": [
            {"name": "TestC10Secs1Fresh", "shards": 4, "shards_thorough": 16, "crash_is_violation": True},
            {"name": "TestC17Blocks", "shards": 4, "shards_thorough": 16},
            {"name": "TestC17Assembler", "shards": 4, "shards_thorough": 16},
            {"name": "TestC17Line", "shards": 8, "shards_thorough": 16},
        ],
        "require": {"c10c:role:equipment": 148, "c10c:role:host": 151, "c17:blocks:1": 2086, "c17:blocks:2": 590, "c17:blocks:3": 481, "c17:blocks:4": 824, "c17:parse:extend": 699, "c17:parse:flip": 928, "c17:parse:length": 715, "c17:parse:none": 931, "c17:parse:truncate": 695, "c17a:block-0": 546, "c17a:block-0+just-past-T4": 75, "c17a:block-0-lone": 544, "c17a:block-0-lone+just-past-T4": 65, "c17a:changed-header": 995, "c17a:changed-header+just-past-T4": 144, "c17a:duplicate": 898, "c17a:duplicate+just-past-T4": 122, "c17a:new-message": 879, "c17a:new-message+just-past-T4": 121, "c17a:next": 3768, "c17a:next+just-past-T4": 1851, "c17a:next-after-T4": 1061, "c17a:skipped-number": 658, "c17a:skipped-number+just-past-T4": 85, "c17a:wrong-device": 987, "c17a:wrong-device+just-past-T4": 140, "c17a:wrong-direction": 982, "c17a:wrong-direction+just-past-T4": 144, "c17l:duplex": 188, "c17l:duplex:inbound-blocks:2": 66, "c17l:duplex:inbound-blocks:3": 62, "c17l:duplex:inbound-blocks:4": 59, "c17l:in:bad-checksum": 149, "c17l:in:bad-length": 77, "c17l:in:block-0": 87, "c17l:in:block-0-lone": 81, "c17l:in:changed-header": 167, "c17l:in:duplicate": 155, "c17l:in:new-message": 151, "c17l:in:next": 3413, "c17l:in:next-after-T4": 165, "c17l:in:short-length-with-ghost": 83, "c17l:in:skipped-number": 112, "c17l:in:wrong-device": 177, "c17l:in:wrong-direction": 161, "c17l:inbound": 508, "c17l:out:blocks:1": 506, "c17l:out:blocks:2": 146, "c17l:out:blocks:3": 121, "c17l:out:blocks:4": 198, "c17l:out:forward": 502, "c17l:out:nak-retry": 341, "c17l:out:send": 470, "c17l:outbound": 503, "c17l:role:equipment": 594, "c17l:role:host": 604, "c17l:t4-changed-at-runtime": 171},
    },
    "C18": {
        "level": "fault_enumeration",
        "claim": "Two real secs1 connections (equipment + host) joined by a character-level middlebox that follows the E4 grammar in both directions and applies generated fault plans (one flipped character in a block's header/body/checksum, truncated or dropped blocks, dropped ENQ/EOT/ACK/NAK, ACK replaced by NAK, EOT/ACK delayed beyond T2) while both sides send multi-block messages concurrently (contention), retry limits 0..3; a token ledger checks that every send that returned success was delivered exactly once and intact, per-direction order, no duplicate or altered delivery whatever the send returned, at most retry-limit+1 line requests per block (per contention yield for the host), bounded completion, and recovery to a working line after a failed send. Faults include a lowered / raised length character; message text is plain, made of the line's control characters, or of ghost block images; the receive half is compared with the reference assembler under gaps that add up to more than T4.",
        "trust": "Real time with T1 50 ms / T2 150 ms: only content, order, counts and generous upper bounds are asserted, so scheduling jitter can add retries but not false alarms; a failing case during which this process was scheduled more than 30 ms late is discarded as inconclusive (counted). A lowered length character whose short read happens to carry a valid checksum (2^-16) is outside what E4 detects: detected by the proxy and discarded (counted). The receive half (inter-block T4 counted from the previous block, duplicates, header changes) is additionally compared with the reference assembler under an injected clock (TestC17Assembler).",
        "technique": "property-based testing (rapid): generated fault plans x concurrent send programs through an E4-aware fault-injecting proxy; exactly-once ledger oracle",
        "tests": [
            {"name": "TestC17Assembler", "shards": 2, "shards_thorough": 8},
            {"name": "TestC18ExactlyOnce", "shards": 8, "shards_thorough": 8, "crash_is_violation": True},
        ],
        "require": {"c17a:block-0": 550, "c17a:block-0+just-past-T4": 71, "c17a:block-0-lone": 563, "c17a:block-0-lone+just-past-T4": 66, "c17a:changed-header": 987, "c17a:changed-header+just-past-T4": 138, "c17a:duplicate": 897, "c17a:duplicate+just-past-T4": 122, "c17a:new-message": 865, "c17a:new-message+just-past-T4": 123, "c17a:next": 3779, "c17a:next+just-past-T4": 1834, "c17a:next-after-T4": 1068, "c17a:skipped-number": 663, "c17a:skipped-number+just-past-T4": 83, "c17a:wrong-device": 991, "c17a:wrong-device+just-past-T4": 145, "c17a:wrong-direction": 990, "c17a:wrong-direction+just-past-T4": 138, "c18:contention": 70},
    },
    "C19": {
        "level": "exploration",
        "claim": "Generated observation histories (probe outcome, receive stamps before/at/after the probe, in-flight counts at evaluation and re-check, thresholds 1-6, suppression on/off) folded through the library's real failure-accounting reducers exactly as the probe loop folds them and compared step by step with a reference model plus windowed history invariants; end to end, seven peer personalities against real connections in virtual time, where the number and instants of probes and the instant of the drop are compared exactly with what the suppression rules prescribe. Also: personalities with a slow inline handler, with life frames the library answers, with a send started at exactly the threshold-th timeout; and dead-link detection on the generation after sends that ended in write error / reset / T3 / cancel / reject (fresh-connection schedule, exact).",
        "trust": "ref/fsm.Linktest is written from docs/guides/linktest-suppression.md; the fold replicates runLinktest's use of the two reducers (hook aliases in hsmsss/export_verif.go); end-to-end timing is exact only because time is virtual.",
        "technique": "property-based testing (rapid): model-based differential on reducer histories + scripted peer personalities in testing/synctest",
        "tests": [
            {"name": "TestC19Reducers", "shards": 8, "shards_thorough": 16},
            {"name": "TestC19Linktest", "shards": 8, "shards_thorough": 16},
            {"name": "TestC19AfterFailedSends", "shards": 4, "shards_thorough": 16},
        ],
        "require": {"c19b:answers": 38, "c19b:role:active": 147, "c19b:role:passive": 148, "c19b:silent": 47, "c19b:suppress:false": 150, "c19b:suppress:true": 147, "c19b:threshold:1": 74, "c19b:threshold:2": 80, "c19b:threshold:3": 66, "c19b:threshold:4": 71, "c19c:role:active": 78, "c19c:role:passive": 82, "c19c:suppression:false": 40, "c19c:suppression:true": 119, "credited": 7295, "restart": 8242, "suppress:false": 9975, "suppress:true": 10012, "threshold:1": 4121, "threshold:2": 4118, "threshold:3": 3028, "threshold:4": 3008, "threshold:5": 2537, "threshold:6": 3059},
    },
    "C20": {
        "level": "exploration",
        "claim": "Histories of 2-8 phases on one connection (bursts of concurrent reply-expected sends ending in reply / reject / T3 / cancel / late reply, fire-and-forget sends of every kind, inbound traffic, refused sends while deselected, sends racing a deselect or a drop, drops with pending senders and refused re-dials, write timeouts, close/reopen, cold open) with a quiescent point after every phase, where every counter and gauge is compared with a ledger kept by the raw peers (data frames actually received / sent while Selected) and by the harness (outcome of every call); gauges are also sampled for negativity at every call return and peer frame. Also: header-only and empty-list bodies, W-bit forwards, session-id validation with foreign session ids, Close at the instant a reconnect backoff expires, and the SECS-I transport against the line peer's ledger.",
        "trust": "HSMS-SS only. Quiescence is synctest.Wait in virtual time. The reconnecting gauge is sampled while the harness refuses dials, not continuously.",
        "technique": "property-based testing (rapid): generated histories in testing/synctest against a conservation ledger",
        "tests": [
            {"name": "TestC20Metrics", "shards": 8, "shards_thorough": 16},
            {"name": "TestC20Secs1", "shards": 4, "shards_thorough": 16, "crash_is_violation": True},
        ],
        "require": {"c20:cold-open": 399, "c20:outcome:cancel": 620, "c20:outcome:disconnect": 462, "c20:outcome:ok": 1249, "c20:outcome:refused": 1022, "c20:outcome:reject": 680, "c20:outcome:t3": 949, "c20:outcome:write-error": 398, "c20:role:active": 794, "c20:role:passive": 803, "c20s:outcome:close": 181, "c20s:outcome:drop": 161, "c20s:outcome:inbound": 159, "c20s:outcome:ok": 350, "c20s:outcome:refused": 161, "c20s:outcome:reply": 199, "c20s:outcome:t3": 200, "c20s:outcome:transmission-failed": 163, "c20s:role:active": 202, "c20s:role:passive": 197},
    },
    "C12": {
        "level": "exploration",
        "claim": "Items and messages of every provenance (constructed from retained caller slices incl. typed slices and a retained []Item, Decode / DecodeHSMSMessage / DecodeHSMSPayload of a caller buffer, re-stamped and derived copies) are snapshotted over every public accessor, serializer, iterator and the SML text by 8 goroutines at once (first use of all lazy paths) and again after the caller scribbles over every retained input and every slice any accessor, serializer or append helper returned (incl. spare capacity); all snapshots must be equal, the race detector must stay silent, Item() must hand one instance to every holder and copy, and a counting Item wrapper must be serialized at most once per message. Also: DataMessageCodec.UnmarshalBinary as a decode entry point, kept items re-read after later accepted and rejected decodes, and (virtual time, both transports) messages delivered by a connection kept past the handler and re-read after later, equal-or-smaller messages.",
        "trust": "Binary built with -race (a report fails the run); DecodeOwned / DecodeOwnedHSMSPayload transfer ownership and are deliberately not scribbled (documented contract).",
        "technique": "property-based testing (rapid) under the race detector: observation-snapshot metamorphic check over caller-side mutations",
        "tests": [
            {"name": "TestC12Delivered", "shards": 4, "shards_thorough": 16, "crash_is_violation": True},
            {"name": "TestC12Immutable", "shards": 8, "shards_thorough": 16, "race": True, "crash_is_violation": True, "timeout_thorough": 7200},
        ],
        "require": {"c12:constructed": 217, "c12:counted:false": 154, "c12:counted:true": 155, "c12:decoded": 97, "c12d:hsms-ss": 197, "c12d:secs1": 202},
    },
    "C13": {
        "level": "exploration",
        "claim": 'Generated messages over the stated item grammar x all encoder options round-tripped through the strict encoder and strict parser; parser-accepted texts produced by a grammar-directed text generator re-encoded and re-parsed. Long-lived encoders (one per option combination) and a long-lived strict parser must agree with fresh ones on every message of the process; F4 arguments sit next to float32 midpoints.',
        "trust": 'Trusts secs2.Equal-independent comparison through harness/ref/e5 values read back by obs.',
        "technique": 'property-based testing (rapid): round trip both directions',
        "tests": [
            {"name": "TestC13EncodeParse", "shards": 8, "shards_thorough": 16},
            {"name": "TestC13ParseEncode", "shards": 8, "shards_thorough": 16},
        ],
        "require": {"accepted": 2786, "ascii-gt": 96, "ascii-special": 487, "c13enc": 4000, "c13parse": 3000, "comments": 1500, "empty-body": 503, "float-extreme": 496, "loose": 2164, "multi": 1053, "rejected": 200},
    },
    "C15": {
        "level": "exploration",
        "claim": 'Generated item trees (all types, EmptyItem children, extreme numerics) rendered by both renderers and compared byte for byte; numeric/boolean/binary leaves read back by the library parser and compared with the reference values. Rendering histories: sub-lists rendered on their own before / after the tree, the same object at three depths, a fresh object of the same value, other renderers of the package run first.',
        "trust": "The differential is between the library's two renderers (that agreement IS the property); read-back trusts harness/ref/e5 values.",
        "technique": 'property-based testing (rapid): differential between renderers + parse read-back',
        "tests": [{"name": "TestC15Renderers", "shards": 8, "shards_thorough": 16}],
        "require": {"c15": 4000, "empty-child": 348, "extreme-numeric": 590, "history:other-renderers-first": 1080, "history:root-then-subs": 190, "history:shared-object": 352, "history:subs-first": 155, "readback": 2602, "top:ascii": 193, "top:binary": 340, "top:boolean": 342, "top:f4": 106, "top:f8": 110, "top:i1": 142, "top:i2": 130, "top:i4": 113, "top:i8": 131, "top:jis8": 194, "top:list": 1480, "top:localized_str": 141, "top:u1": 112, "top:u2": 110, "top:u4": 183, "top:u8": 107},
    },
    "C16": {
        "level": "exploration",
        "claim": "Generated constructor argument lists over all Go scalar/slice/string/other types, all byte sizes and values at/beyond each width's bounds, compared with a table-driven model of the documented clamp/refuse contract; errored items (direct and nested) checked against Equal, message constructors and builders. Also: several Builds on one builder holding an errored item; no F4 accessor hands out a finite value beyond the bound; and (virtual time) errored items offered to every send entry point of a Selected connection incl. the handler endpoint: an error, and not one byte at the peer.",
        "trust": 'Trusts the contract model in props/c16_test.go (written from the constructor docs).',
        "technique": 'property-based testing (rapid): model-based oracle',
        "tests": [
            {"name": "TestC16Constructors", "shards": 4, "shards_thorough": 16},
            {"name": "TestC16Wire", "shards": 4, "shards_thorough": 16, "crash_is_violation": True},
        ],
        "require": {"c16:binary": 762, "c16:boolean": 955, "c16:clamped": 799, "c16:float": 1513, "c16:int": 2824, "c16:refused": 4344, "c16:uint": 1866, "c16:value": 2819, "c16w:Forward": 184, "c16w:ReplyDataMessage": 171, "c16w:SendDataMessage/W": 319, "c16w:SendDataMessage/noW": 326, "c16w:SendDataMessageAsync": 236, "c16w:SendSECS2Message": 222, "c16w:handler-reply": 178, "c16w:handler-send": 230},
    },
    "C14": {
        "level": "exploration",
        "claim": 'Grammar-directed mutations of valid SML and random strings through every parse entry point in both modes (no panic, valid-or-error, independently recomputed error positions); parametric resource shapes (nesting to 4M, 2^31-1 size hints, long tokens) parsed in a child process under an address-space limit; concurrent parser/encoder pairs under the race detector. A long-lived parser per mode and the package-level shortcuts must agree with a fresh parser on every input of the process; resource shapes include size hints at 2^31..2^64 and deep nests preceded by 60 or by as many scalar siblings as nesting levels.',
        "trust": 'Crash containment relies on the child-process exit status; time bound is a generous budget (30 s for <= 1 MiB).',
        "technique": 'property-based testing (rapid) + resource-shape families in a sandboxed child + native go fuzzing (thorough)',
        "tests": [
            {"name": "TestC14Total", "shards": 8, "shards_thorough": 16, "crash_is_violation": True},
            {"name": "TestC14Resources", "shards": 1, "crash_is_violation": True},
            {"name": "TestC14Concurrent", "shards": 4, "shards_thorough": 8, "race": True, "crash_is_violation": True},
            {"name": "FuzzC14SML", "shards": 1, "fuzz": True, "tier": "thorough", "fuzztime": "180s", "crash_is_violation": True},
        ],
        "require": {"c14:all-accepted": 1599, "c14:delete": 542, "c14:dropquotes": 395, "c14:duplicate": 402, "c14:header": 339, "c14:hint": 348, "c14:insert": 548, "c14:some-rejected": 4381, "c14:soup": 481, "c14:swapbrackets": 328, "c14:truncate": 886, "c14:unbalance-close": 399, "c14:unterminated": 333, "c14:valid": 941, "c14conc": 60, "shape:hint": 17, "shape:nest": 2},
    },
}

# property id -> reason, for properties that are not claimed (kept current)
NOT_APPLICABLE = {}

# commits in /repo that add the build-tag-guarded hooks
HOOK_COMMITS = ["a962bf2", "d5ef0b2", "786be1f", "8e3f6d1", "c7600be"]
