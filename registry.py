"""Which Go tests decide which property. One process per (test, shard)."""

REGISTRY = {
    "C01": {
        "level": "exploration",
        "tests": [
            {"name": "TestC01Encode", "shards": 8, "shards_thorough": 16},
        ],
        "require": {"depth:64": 5, "slab:>213": 5, "lenbytes:3": 5, "lenbytes:2": 20},
    },
    "C02": {
        "level": "exploration",
        "tests": [
            {"name": "TestC02Decode", "shards": 8, "shards_thorough": 16},
            {"name": "TestC02Hostile", "shards": 1},
        ],
        "require": {"mut:noncanonical:accepted": 20, "mut:wrapdepth:accepted": 5, "mut:wrapdepth:rejected": 5,
                    "mut:lengthfield:rejected": 20, "mut:hostile:rejected": 20},
    },
    "C13": {
        "level": "exploration",
        "tests": [
            {"name": "TestC13EncodeParse", "shards": 8, "shards_thorough": 16},
            {"name": "TestC13ParseEncode", "shards": 8, "shards_thorough": 16},
        ],
        "require": {"ascii-special": 200, "ascii-gt": 50, "float-extreme": 100, "accepted": 1000, "loose": 500, "multi": 200},
    },
    "C15": {
        "level": "exploration",
        "tests": [{"name": "TestC15Renderers", "shards": 8, "shards_thorough": 16}],
        "require": {"empty-child": 100, "extreme-numeric": 100, "readback": 500},
    },
    "C16": {
        "level": "exploration",
        "tests": [{"name": "TestC16Constructors", "shards": 4, "shards_thorough": 16}],
        "require": {"c16:clamped": 500, "c16:refused": 1000, "c16:value": 1000},
    },
    "C14": {
        "level": "exploration",
        "tests": [
            {"name": "TestC14Total", "shards": 8, "shards_thorough": 16, "crash_is_violation": True},
            {"name": "TestC14Resources", "shards": 1, "crash_is_violation": True},
            {"name": "TestC14Concurrent", "shards": 4, "shards_thorough": 8, "race": True, "crash_is_violation": True},
        ],
        "require": {"c14:some-rejected": 2000, "c14:all-accepted": 500, "shape:hint": 50, "shape:nest": 9, "c14conc": 100},
    },
}
