#!/bin/bash
# Applies every mutation of tools/mutants.tsv (one at a time, to a scratch copy of /repo) and runs the
# property's quick check against it. Prints one line per mutant. usage: tools/run_mutants.sh [PID...]
cd /verif
grep -v "^#" tools/mutants.tsv | while IFS=$'\t' read -r pid file pat rep comment; do
  [ -z "$pid" ] && continue
  [ "$comment" = "SKIP" ] && continue
  if [ $# -gt 0 ] && ! echo " $* " | grep -q " $pid "; then continue; fi
  out=$(tools/teeth.sh $pid quick "$file" "$pat" "$rep" 2>&1)
  if echo "$out" | grep -q "VIOLATION"; then r=DETECTED; elif echo "$out" | grep -q "pattern matched\|DOES NOT COMPILE\|patch failed"; then r="BAD-MUTANT($(echo "$out" | grep -m1 "pattern matched\|COMPILE" | cut -c1-60))"; else r=missed; fi
  echo "MUTANT $pid $file :: $comment :: $r"
done
