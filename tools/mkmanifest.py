#!/usr/bin/env python3
"""Regenerate /verif/MANIFEST.json from registry.py (the single source of which checks exist)."""
import json
import os
import sys

ROOT = os.path.dirname(os.path.dirname(os.path.abspath(__file__)))
sys.path.insert(0, ROOT)
from registry import REGISTRY, NOT_APPLICABLE, HOOK_COMMITS  # noqa: E402

ALL = ["C%02d" % i for i in range(1, 21)]

checks = []
for pid in ALL:
    if pid not in REGISTRY:
        continue
    r = REGISTRY[pid]
    checks.append({
        "property_id": pid,
        "quick_cmd": "./check %s quick" % pid,
        "thorough_cmd": "./check %s thorough" % pid,
        "evidence_file": "evidence/%s.json" % pid,
        "replay_cmd_template": "./check --replay {path}",
        "engine": "props",
        "level_claimed": {"category": r["level"], "text": r["claim"], "design_ref": "DESIGN.md §3 %s" % pid},
        "level_note": r["trust"],
        "technique": r["technique"],
    })

na = []
for pid in ALL:
    if pid not in REGISTRY:
        na.append({"property_id": pid, "reason": NOT_APPLICABLE.get(pid, "check not built yet (build in progress; see DESIGN.md build order)")})

doc = {
    "version": 1,
    "setup_cmd": "./check --setup",
    "hooks": {
        "guard": "verif",
        "enable": "go test -tags verif (the driver builds harness/props with -tags verif; hook files in /repo are //go:build verif)",
        "baseline_off_cmd": "cd /repo && GOFLAGS=-mod=mod GOPROXY=off GOSUMDB=off GOTOOLCHAIN=local go1.26.8 test -json -vet=off -count=1 -timeout 25m ./...",
        "source_commits": HOOK_COMMITS,
        "add_only": True,
    },
    "engines": [{
        "name": "props", "path": "harness/props", "serves_properties": [c["property_id"] for c in checks],
        "kind_free_text": "rapid property tests (pure, and end-to-end inside testing/synctest bubbles over a harness-owned in-memory network) + Go native fuzz targets, driven by ./check",
    }],
    "checks": checks,
    "notes": "Technique family: property-based testing and fuzzing. See DESIGN.md.",
    "not_applicable": na,
}
with open(os.path.join(ROOT, "MANIFEST.json"), "w") as f:
    json.dump(doc, f, indent=1)
    f.write("\n")
print("MANIFEST.json: %d checks, %d not_applicable" % (len(checks), len(na)))
