#!/bin/bash
# usage: tools/seeded_verify.sh <PID> <a|b> [suite]
# Confirms one seeded change in a scratch git worktree of /repo (outside /repo and /verif, removed
# afterwards): the patch applies to the current HEAD and compiles, the demonstration FAILS with it
# and PASSES without it, (with "suite") the existing test suite still passes with it; then runs
# ./check <PID> quick against the patched tree. Prints one RESULT line.
set -u
PID=$1; V=$2; SUITE=${3:-}
SRC=/verif/seeded/$PID-incoming
[ -f $SRC/$V.patch.diff ] || SRC=/verif/seeded/$PID-$V
PATCH=$SRC/$V.patch.diff; [ -f $PATCH ] || PATCH=$SRC/patch.diff
DEMO=$SRC/${V}_demo_test.go; [ -f $DEMO ] || DEMO=$(ls $SRC/*_test.go | head -1)
META=$SRC/$V.meta.json; [ -f $META ] || META=$SRC/meta.json
PKG=$(python3 -c "import json;m=json.load(open('$META'));print((m.get('package_dir_of_demo') or m.get('demo',{}).get('package_dir') or '').strip('./'))")
export GOFLAGS=-mod=mod GOPROXY=off GOSUMDB=off GOTOOLCHAIN=local
W=/tmp/wt/sv-$PID-$V
git -C /repo worktree remove --force $W 2>/dev/null
mkdir -p /tmp/wt
git -C /repo worktree add -q --detach $W HEAD || exit 3
cleanup() { git -C /repo worktree remove --force $W 2>/dev/null; rm -rf $W; }
trap cleanup EXIT
cd $W
DEMOFILE=$PKG/zz_seed_${PID}_${V}_test.go
cp $DEMO $DEMOFILE
run_demo() { go1.26.8 test -vet=off -count=1 -timeout 180s ./$PKG/ -run 'Seed|seed|ZZ|Zz' 2>&1 | tail -30; return ${PIPESTATUS[0]}; }
# 1. demo on the unchanged tree
OUT0=$(run_demo); RC0=$?
# 2. apply
if ! git apply --3way $PATCH 2>/tmp/wt/sv-apply.err; then
  if ! patch -p1 -s --fuzz=3 < $PATCH 2>>/tmp/wt/sv-apply.err; then
    echo "RESULT $PID/$V: PATCH DOES NOT APPLY to current HEAD ($(tail -1 /tmp/wt/sv-apply.err))"; exit 0
  fi
fi
git reset -q 2>/dev/null
if ! go1.26.8 build ./... 2>/tmp/wt/sv-build.err; then echo "RESULT $PID/$V: DOES NOT COMPILE ($(head -2 /tmp/wt/sv-build.err | tr '\n' ' '))"; exit 0; fi
OUT1=$(run_demo); RC1=$?
SUITE_RES="suite:skipped"
if [ -n "$SUITE" ]; then
  rm -f $DEMOFILE
  S=$(go1.26.8 test -vet=off -count=1 -timeout 25m ./... 2>&1 | grep -E "^(--- FAIL|FAIL|ok)" | grep -v "^ok" | grep -v "TestFSM_HSMSSSMatrix\|TestReconnect_StaleRecvLoopTCPDownDoesNotDisconnectNewGen" | grep -- "--- FAIL" | tr '\n' ' ')
  if [ -z "$S" ]; then SUITE_RES="suite:pass"; else SUITE_RES="suite:FAIL[$S]"; fi
fi
rm -f $DEMOFILE
git -C $W diff > /tmp/wt/sv-$PID-$V.rebased.diff
# 3. my check against the patched tree
cd ${VERIF_DIR:-/verif}
CK=$(VERIF_RUN_DIR=/tmp/wt/sv-run-$PID-$V VERIF_EVIDENCE_DIR=/tmp/wt/sv-ev-$PID-$V VERIF_REPLAY_DIR=/tmp/wt/sv-replay-$PID-$V VERIF_REPO=$W ./check $PID quick 2>/tmp/wt/sv-check-$PID-$V.err | grep -E "VIOLATION" | head -1)
CRC=${PIPESTATUS[0]}
WHY=$(grep -E "violated|VERIF-VIOLATION|panic:|fatal error|DATA RACE|INFRA|STARVED|BUILD FAILED" /tmp/wt/sv-check-$PID-$V.err | head -1 | cut -c1-260)
H=$(python3 -c "import hashlib;print(hashlib.sha1('$W'.encode()).hexdigest()[:10])")
rm -f /verif/.build/*-$H.test /verif/.build/go.$H.mod /verif/.build/go.$H.sum; [ -n "${VERIF_DIR:-}" ] && rm -f $VERIF_DIR/.build/*-$H.test $VERIF_DIR/.build/go.$H.mod $VERIF_DIR/.build/go.$H.sum
rm -rf /tmp/wt/sv-ev-$PID-$V /tmp/wt/sv-replay-$PID-$V /tmp/wt/sv-run-$PID-$V
echo "RESULT $PID/$V: demo_without=$([ $RC0 -eq 0 ] && echo pass || echo FAIL) demo_with=$([ $RC1 -ne 0 ] && echo fails || echo PASSES) $SUITE_RES check=$([ -n "$CK" ] && echo DETECTED || ([ $CRC -eq 2 ] && echo INFRA-ERROR || echo missed)) :: $WHY"
