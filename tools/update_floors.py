#!/usr/bin/env python3
"""Update the starvation floors ("require") in registry.py from the committed quick-tier evidence:
classes observed >= 200 times get floor count/5; an existing floor is only ever lowered (to count/5),
never raised; classes required but no longer observed are reported. Run after `./check --all quick`."""
import json, re, sys
sys.path.insert(0, '/verif')
import registry
s = open('/verif/registry.py').read()
changed = 0
for pid, spec in registry.REGISTRY.items():
    ev = json.load(open('/verif/evidence/%s.json' % pid))
    if ev.get('tier') != 'quick':
        print("SKIP", pid, "evidence is not from the quick tier"); continue
    cls = ev['coverage'].get('classes', {})
    req = dict(spec.get('require', {}))
    new = dict(req)
    for k, v in cls.items():
        if k == 'trivial':
            continue
        f = v // 5
        if k in new:
            if f < new[k]:
                new[k] = max(1, f)
        elif v >= 200:
            new[k] = f
    for k in req:
        if k not in cls:
            print("WARNING", pid, "required class not observed:", k)
    if new != req:
        m = re.search(r'("%s": \{.*?)("require": \{[^}]*\},)' % pid, s, re.S)
        assert m, pid
        items = ", ".join('%s: %d' % (json.dumps(k), v) for k, v in sorted(new.items()))
        s = s[:m.start(2)] + '"require": {' + items + '},' + s[m.end(2):]
        changed += 1
        print(pid, "added", sorted(set(new) - set(req)), "lowered", len([k for k in req if new[k] < req[k]]))
open('/verif/registry.py', 'w').write(s)
print("changed", changed)
