#!/usr/bin/env python3
"""Turn seeded/<PID>-incoming/{a,b}.* plus the verification results into seeded/<PID>-<v>/
(patch.diff, demo_test.go, meta.json) and print the markdown table for DESIGN.md."""
import json
import os
import re
import shutil
import sys

ROOT = "/verif/seeded"
results = {}
for path in sys.argv[1:]:
    for line in open(path):
        m = re.match(r"RESULT (C\d+)/(\w): (.*)", line)
        if m:
            results.setdefault((m.group(1), m.group(2)), []).append(m.group(3).strip())

rows = []
for d in sorted(os.listdir(ROOT)):
    if not d.endswith("-incoming"):
        continue
    pid = d.split("-")[0]
    for v in ("a", "b", "c", "d", "e", "f", "g", "h", "i", "j", "k", "l"):
        src = os.path.join(ROOT, d)
        if not os.path.exists(os.path.join(src, v + ".patch.diff")):
            continue
        dst = os.path.join(ROOT, "%s-%s" % (pid, v))
        os.makedirs(dst, exist_ok=True)
        shutil.copy(os.path.join(src, v + ".patch.diff"), os.path.join(dst, "patch.diff"))
        if os.path.exists(os.path.join(src, v + ".patch.original.diff")):
            shutil.copy(os.path.join(src, v + ".patch.original.diff"), os.path.join(dst, "patch.as-written-by-the-seeder.diff"))
        shutil.copy(os.path.join(src, v + "_demo_test.go"), os.path.join(dst, "demo_test.go"))
        meta = json.load(open(os.path.join(src, v + ".meta.json")))
        res = results.get((pid, v), [])
        final = res[-1] if res else ""
        first = res[0] if res else ""
        out = {
            "id": "%s-%s" % (pid, v),
            "breaks_property": pid,
            "what_it_breaks": meta.get("what_it_breaks"),
            "needs_to_manifest": meta.get("needs_to_manifest"),
            "files_changed": meta.get("files_changed"),
            "demo": {"file": "demo_test.go", "package_dir": meta.get("package_dir_of_demo"),
                     "how": "copy into <package_dir>/zz_seed_test.go of a worktree of /repo and run `go1.26.8 test -vet=off -count=1 -run Seed ./<package_dir>/`"},
            "produced_by": "independent sub-agent given only the property text and a scratch worktree" + (" (round 2: asked for subtler changes - cooperating edits, interleavings, secondary code paths)" if v in "cd" else " (round 3: additionally non-default configuration, runtime reconfiguration, roles, SECS-I, alternative modes, boundary values)" if v in "ef" else " (round 4: additionally interplay of features, what is reported on failure paths, state carried over between uses, n-th occurrence)" if v in "gh" else " (round 5: additionally the paths furthest from the happy path - error returns, option combinations, the second transport, metrics and notification plumbing, re-armed timers, pooled or reused resources)" if v in "ij" else " (round 6, five properties: same brief as round 5)" if v in "kl" else ""),
            "rebased": os.path.exists(os.path.join(src, v + ".patch.original.diff")),
            "confirmed_by_me": {
                "how": "tools/seeded_verify.sh %s %s [suite]: scratch git worktree of /repo HEAD; demo on the unchanged tree; git apply patch; go build ./...; demo with the patch; full suite with the patch; ./check %s quick with VERIF_REPO=<worktree>" % (pid, v, pid),
                "first_result": first,
                "final_result": final,
            },
            "caught_by": ("./check %s quick" % pid) if "check=DETECTED" in final else None,
        }
        json.dump(out, open(os.path.join(dst, "meta.json"), "w"), indent=1)
        first_det = "yes" if "check=DETECTED" in first else ("n/a (patch needed porting)" if "NOT APPLY" in first else "no")
        why = final.split("::", 1)[1].strip() if "::" in final else ""
        why = re.sub(r"^\S+_test\.go:\d+: (\[rapid\] failed after \d+ tests: )?", "", why)[:110]
        rows.append("| %s-%s | %s | %s | %s | %s |" % (pid, v, (meta.get("what_it_breaks") or "")[:120].replace("|", "/"), first_det,
                                                 "yes" if "check=DETECTED" in final else "NO", why.replace("|", "/")))
print("| seeded change | what it breaks (seeder's words, truncated) | caught in round 1 | caught now | how the check reports it |")
print("|---|---|---|---|---|")
print("\n".join(rows))
