#!/bin/bash
# usage: tools/teeth.sh <ID> <tier> <file-relative-to-repo> <python-regex-old> <new>   (one substitution, must match exactly once)
#    or: tools/teeth.sh <ID> <tier> --patch <patch.diff>      (apply)   |  --reverse <patch.diff>   (un-apply, e.g. a fix)
# Applies a mutation to a scratch copy of /repo (never /repo itself), runs the check against it via
# VERIF_REPO, prints the check's exit code, and removes the copy.
set -u
ID=$1; TIER=$2; shift 2
S=/tmp/scratch/teeth.$$
mkdir -p /tmp/scratch
rsync -a --exclude .git /repo/ $S/
if [ "$1" = "--reverse" ]; then
  (cd $S && patch -R -p1 -s < "$2") || { echo "reverse patch failed"; rm -rf $S; exit 3; }
elif [ "$1" = "--patch" ]; then
  (cd $S && patch -p1 -s < "$2") || { echo "patch failed"; rm -rf $S; exit 3; }
else
  python3 - "$S/$1" "$2" "$3" <<'PY' || { rm -rf $S; exit 3; }
import re,sys
p,old,new=sys.argv[1:4]
s=open(p).read()
n=len(re.findall(old,s))
if n!=1:
    print("pattern matched %d times (need 1)"%n); sys.exit(1)
new2=new.encode().decode('unicode_escape')
open(p,'w').write(re.sub(old,lambda m:new2,s,count=1))
PY
fi
(cd $S && GOFLAGS=-mod=mod GOPROXY=off GOSUMDB=off GOTOOLCHAIN=local go1.26.8 build ./... ) || { echo "MUTANT DOES NOT COMPILE"; rm -rf $S; exit 3; }
cd /verif
VERIF_EVIDENCE_DIR=$S/.evidence VERIF_REPLAY_DIR=$S/.replay VERIF_REPO=$S ./check $ID $TIER 2>/tmp/scratch/teeth.$$.err | grep -E "VIOLATION|KNOWN" 
rc=${PIPESTATUS[0]}
[ $rc -eq 2 ] && tail -20 /tmp/scratch/teeth.$$.err
grep -E "violated|failed after|panic after" /tmp/scratch/teeth.$$.err | head -2 | cut -c1-400
echo "teeth rc=$rc"
rm -rf $S /tmp/scratch/teeth.$$.err
rm -f /verif/.build/*-[0-9a-f][0-9a-f][0-9a-f][0-9a-f][0-9a-f][0-9a-f][0-9a-f][0-9a-f][0-9a-f][0-9a-f].test /verif/.build/go.*.mod /verif/.build/go.*.sum
exit 0
