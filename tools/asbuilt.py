#!/usr/bin/env python3
"""Print the DESIGN.md 9.7 table (tests per property, quick-tier figures) from registry.py and the
committed evidence files."""
import json
import os
import sys

sys.path.insert(0, os.path.dirname(os.path.dirname(os.path.abspath(__file__))))
from registry import REGISTRY  # noqa: E402

print("| ID | level | tests (each its own process; one synctest bubble per process) | quick: cases / distinct non-trivial | quick wall |")
print("|---|---|---|---|---|")
for pid in sorted(REGISTRY):
    r = REGISTRY[pid]
    names = []
    for t in r["tests"]:
        n = t["name"]
        if t.get("fuzz"):
            n += " (native fuzz, thorough only)"
        elif t.get("race"):
            n += " (race)"
        names.append(n)
    e = json.load(open(os.path.join(os.path.dirname(__file__), "..", "evidence", pid + ".json")))
    c = e["coverage"]
    print("| %s | %s | %s | %d / %d | %d s |" % (pid, r["level"], ", ".join(names), c["evaluations"], c["distinct_nontrivial"], round(e["wall_s"])))
