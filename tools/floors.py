#!/usr/bin/env python3
"""Print a 'require' dict for a property: a quarter of each class count observed in evidence/<ID>.json (min 5)."""
import json, sys
pid = sys.argv[1]
skip = set(sys.argv[2:])
c = json.load(open('/verif/evidence/%s.json' % pid))['coverage']['classes']
print({k: (max(5, v // 4) if v >= 80 else max(1, v // 8)) for k, v in sorted(c.items()) if k != 'trivial' and not any(k.startswith(s) for s in skip)})
